#!/usr/bin/env python3
"""Writes thorough_measurements.json from the summary lines of a thorough run's log
(usage: tools_thorough_numbers.py <log> "<source description>")."""
import json, re, sys, os
V = os.path.dirname(os.path.abspath(__file__))
log, src = sys.argv[1], sys.argv[2]
out = {"_source": src}
unit = {"C01": "translations judged", "C02": "slice/reader pairs and command-line comparisons", "C03": "histories", "C04": "evaluations (cases x selections x targets, binary runs, fuzz executions)", "C05": "streams", "C06": "chains", "C07": "evaluations", "C08": "histories", "C09": "evaluations (incl. handle programs)", "C10": "outputs examined", "C11": "planted defects", "C12": "fault runs", "C13": "process runs", "C14": "invocations", "C15": "invocations", "C16": "process runs", "C17": "workload steps under ASan / Miri / valgrind / fuzzing", "C18": "evaluations"}
for l in open(log):
    m = re.match(r"(C\d\d) thorough seed=(\d+) evaluations=(\d+) distinct_nontrivial=(\d+) violations=(\d+) known_finding_hits=(\d+) wall=([\d.]+)s", l)
    if m:
        pid, seed, ev, dist, vio, kf, wall = m.groups()
        out[pid] = f"{int(ev):,} {unit.get(pid, 'evaluations')}, {int(dist):,} distinct, {float(wall):.0f} s, {vio} violations, {int(kf):,} known-finding hits (seed {seed})"
json.dump(out, open(f"{V}/thorough_measurements.json", "w"), indent=1)
print(json.dumps(out, indent=1))

// dummy

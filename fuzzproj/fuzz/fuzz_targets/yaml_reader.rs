#![no_main]
//! C17 (thorough): YAML through the reader path (re-encoder, chunker, raw
//! libyaml binding) under AddressSanitizer, with a reader that can fail.
use libfuzzer_sys::fuzz_target;
use std::io::Read;
use xt::Format;

struct Flaky<'a> {
    data: &'a [u8],
    size: usize,
    fail_after: usize,
    delivered: usize,
}

impl<'a> Read for Flaky<'a> {
    fn read(&mut self, buf: &mut [u8]) -> std::io::Result<usize> {
        if self.delivered >= self.fail_after {
            return Err(std::io::Error::new(std::io::ErrorKind::Other, "injected"));
        }
        let n = buf.len().min(self.size).min(self.data.len()).min(self.fail_after - self.delivered);
        buf[..n].copy_from_slice(&self.data[..n]);
        self.data = &self.data[n..];
        self.delivered += n;
        Ok(n)
    }
}

fuzz_target!(|data: &[u8]| {
    if data.len() < 3 {
        return;
    }
    let size = 1 + data[0] as usize % 17;
    let fail_after = if data[1] & 1 == 0 { usize::MAX } else { data[2] as usize * 3 };
    let input = &data[3..];
    let from = if data[1] & 2 == 0 { Some(Format::Yaml) } else { None };
    let to = [Format::Json, Format::Msgpack, Format::Toml, Format::Yaml][(data[1] >> 2 & 3) as usize];
    let _ = xt::translate_reader(Flaky { data: input, size, fail_after, delivered: 0 }, from, to, std::io::sink());
});

#![no_main]
//! C04 (thorough): the first bytes select (from, to, supply mode, read size),
//! the rest is the input. Any panic, abort, sanitizer report or 10 s timeout is
//! a crash artefact.
use libfuzzer_sys::fuzz_target;
use std::io::Read;
use xt::Format;

struct Chunked<'a> {
    data: &'a [u8],
    size: usize,
}

impl<'a> Read for Chunked<'a> {
    fn read(&mut self, buf: &mut [u8]) -> std::io::Result<usize> {
        let n = buf.len().min(self.size).min(self.data.len());
        buf[..n].copy_from_slice(&self.data[..n]);
        self.data = &self.data[n..];
        Ok(n)
    }
}

fuzz_target!(|data: &[u8]| {
    if data.len() < 2 {
        return;
    }
    let sel = data[0];
    let size = 1 + data[1] as usize * 7;
    let input = &data[2..];
    let fmts = [Format::Json, Format::Msgpack, Format::Toml, Format::Yaml];
    let from = match sel & 7 {
        0..=3 => Some(fmts[(sel & 3) as usize]),
        _ => None,
    };
    let to = fmts[((sel >> 3) & 3) as usize];
    if sel & 0x20 == 0 {
        let _ = xt::translate_slice(input, from, to, std::io::sink());
    } else {
        let _ = xt::translate_reader(Chunked { data: input, size }, from, to, std::io::sink());
    }
});

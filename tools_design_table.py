#!/usr/bin/env python3
"""Rewrites the table of DESIGN.md section 6 between its markers from evidence/*.json (the last quick runs)
and from thorough_measurements.json (numbers copied from the logs of thorough runs)."""
import json, re, os
V = os.path.dirname(os.path.abspath(__file__))
rows = []
man = json.load(open(f"{V}/MANIFEST.json"))
checks = {c["property_id"]: c for c in man.get("checks", man.get("claims", []))} if isinstance(man.get("checks", man.get("claims", [])), list) else {}
th = {}
if os.path.exists(f"{V}/thorough_measurements.json"):
    th = json.load(open(f"{V}/thorough_measurements.json"))
for i in range(1, 19):
    pid = f"C{i:02d}"
    try:
        e = json.load(open(f"{V}/evidence/{pid}.json"))
    except Exception:
        continue
    cov = e.get("coverage", {})
    q = f"{cov.get('evaluations', '?'):,} evaluations, {cov.get('distinct_nontrivial', '?'):,} distinct, {round(e.get('wall_s', 0), 1)} s (seed {e.get('seed', '?')})" if e.get("tier") == "quick" else "(last evidence is from a thorough run)"
    t = th.get(pid, "-")
    rows.append(f"| {pid} | {e.get('level', '?')} | {q} | {t} |")
table = "| Property | Category | Quick (from evidence/, this machine, 16 cores) | Thorough (from the logs of the runs named in thorough_measurements.json) |\n|---|---|---|---|\n" + "\n".join(rows)
p = f"{V}/DESIGN.md"
s = open(p).read()
a, b = "<!-- SIZES:BEGIN -->", "<!-- SIZES:END -->"
assert a in s and b in s
s = s[: s.index(a) + len(a)] + "\n" + table + "\n" + s[s.index(b) :]
open(p, "w").write(s)
print(table)

#!/bin/bash
# usage: tools_confirm_seed.sh <seed-dir-with-patch.diff+demo> <label>
# Confirms a seeded change independently in the scratch worktree /tmp/selfmut/wt:
#   (a) with the patch the repository's own suite passes, (b) the demonstration fails with it,
#   (c) the demonstration passes without it. Prints a one-line JSON result.
set -u
SD="$1"; LABEL="$2"
WT=/tmp/selfmut/wt
cd "$WT" || exit 2
git checkout -q -- . ; git clean -fdq
export CARGO_NET_OFFLINE=true
git apply "$SD/patch.diff" || { echo "{\"label\":\"$LABEL\",\"error\":\"patch does not apply\"}"; exit 1; }
A=$(cargo test --offline 2>&1 | grep -E "^test result" | awk '{p+=$4; f+=$6} END {print p"/"f}')
if [ -f "$SD/seeded_demo.rs" ]; then
  cp "$SD/seeded_demo.rs" tests/seeded_demo.rs
  cargo test --offline --test seeded_demo >/tmp/selfmut/demo_with.log 2>&1; B=$?
  git checkout -q -- src Cargo.toml
  cargo test --offline --test seeded_demo >/tmp/selfmut/demo_without.log 2>&1; C=$?
  rm -f tests/seeded_demo.rs
elif [ -f "$SD/demo.sh" ]; then
  # shell demonstrations locate the project relative to themselves: run a copy placed inside this worktree
  mkdir -p "$WT/SEEDED"; cp "$SD/demo.sh" "$WT/SEEDED/demo.sh"
  bash "$WT/SEEDED/demo.sh" >/tmp/selfmut/demo_with.log 2>&1; B=$?
  git checkout -q -- src Cargo.toml
  bash "$WT/SEEDED/demo.sh" >/tmp/selfmut/demo_without.log 2>&1; C=$?
  rm -rf "$WT/SEEDED"
else
  B=-1; C=-1
fi
git checkout -q -- . ; git clean -fdq
echo "{\"label\":\"$LABEL\",\"suite_passed_failed_with_patch\":\"$A\",\"demo_exit_with_patch\":$B,\"demo_exit_without_patch\":$C}"

#!/usr/bin/env python3-vt
"""Validates MANIFEST.json and every evidence file against the schemas (development aid)."""
import json, glob, sys, jsonschema
ok = True
try:
    jsonschema.validate(json.load(open('/verif/MANIFEST.json')), json.load(open('/root/.vp/MANIFEST.schema.json')))
    print('MANIFEST.json valid')
except Exception as e:
    ok = False; print('MANIFEST invalid:', str(e)[:500])
es = json.load(open('/root/.vp/EVIDENCE.schema.json'))
for f in sorted(glob.glob('/verif/evidence/*.json')):
    try:
        jsonschema.validate(json.load(open(f)), es); print(f, 'valid')
    except Exception as e:
        ok = False; print(f, 'INVALID:', str(e)[:500])
sys.exit(0 if ok else 1)

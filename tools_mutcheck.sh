#!/bin/bash
# usage: tools_mutcheck.sh <patch.diff> <ID> [<ID> ...]
# Applies a seeded change to /repo, runs the given checks (quick tier unless TIER=thorough),
# prints one line per check, and ALWAYS restores /repo afterwards. Development aid.
set -u
PATCH="$1"; shift
cd /verif
if ! git -C /repo diff --quiet; then echo "/repo has uncommitted changes; refusing"; exit 2; fi
git -C /repo apply "$PATCH" || { echo "patch does not apply"; exit 2; }
trap 'git -C /repo checkout -- . ; git -C /repo clean -fdq -- src tests 2>/dev/null' EXIT
for ID in "$@"; do
  OUT=$(VERIF_SEED="${VERIF_SEED:-0}" timeout ${MUT_TIMEOUT:-900} ./check "$ID" "${TIER:-quick}" 2>&1)
  RC=$?
  SUMMARY=$(echo "$OUT" | grep -E "^$ID (quick|thorough)" | tail -1)
  FIRST=$(echo "$OUT" | grep -m1 -A2 "^VIOLATION" | tr '\n' ' ' | cut -c1-420)
  echo "[$(basename "$PATCH")] $ID exit=$RC :: $SUMMARY :: $FIRST"
  [ $RC -eq 2 ] && echo "$OUT" | grep -E "INCONCLUSIVE|error" | head -5
done

#!/bin/bash
# setup_cmd: pre-build every artefact the checks need, offline, from files on disk.
set -u
VERIF="$(cd "$(dirname "$0")" && pwd)"
cd "$VERIF"
export CARGO_NET_OFFLINE=true
OUT="$VERIF/out"
mkdir -p "$OUT/logs" "$OUT/replay" "$VERIF/evidence"
cp /repo/Cargo.lock "$VERIF/harness/Cargo.lock"
set -e
( cd harness && CARGO_TARGET_DIR="$OUT/target" cargo build --release --offline --bin xtv )
( CARGO_TARGET_DIR="$OUT/xtbin" cargo build --release --offline --bin xt --manifest-path /repo/Cargo.toml )
( CARGO_TARGET_DIR="$OUT/xtbin" cargo build --offline --bin xt --manifest-path /repo/Cargo.toml )
( cd harness && CARGO_TARGET_DIR="$OUT/target-asan" RUSTFLAGS="-Zsanitizer=address -Cforce-frame-pointers=yes" \
    cargo +nightly build --release --offline --target x86_64-unknown-linux-gnu --bin xtv_san )
( cd harness && CARGO_TARGET_DIR="$OUT/target-asan-shipped" RUSTFLAGS="-Zsanitizer=address -Cforce-frame-pointers=yes" \
    cargo +nightly build --release --offline --target x86_64-unknown-linux-gnu --bin xtv_san --config profile.release.package.xt.debug-assertions=false --config profile.release.package.xt.overflow-checks=false )
echo "setup ok"

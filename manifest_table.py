# Table of claimed checks; exec'd by tools_manifest.py.
check("C02", "exploration", "runtime differential monitor: translate_slice vs translate_reader under scheduled short reads",
      "Held on every (slice run, reader run) pair executed: millions of pairs per run over generated valid streams, mutants, splices, random bytes and EVERY token sequence up to length 4 (quick) / 5 (thorough) of each format's alphabet, under one-byte, fixed, random and boundary-cut read schedules, plus large valid streams (50-1500 documents, up to 2 MiB) under fixed(8191/8192/8193/4096/13), whole and random schedules. A finite exploration of an unbounded input space: exhaustive only for the short token sequences.",
      "Trusts the harness's scheduling reader (never returns 0 early, never over-fills) and catch_unwind; compares verdict class, output bytes and prefix-comparability, not error text.",
      "DESIGN.md 3/C02")
check("C01", "exploration", "runtime oracle: independent reader of the target format applied to xt's output for generated documents x hostile spellings",
      "Held on every translation executed (about 10^6 per quick run, 5*10^7 thorough): generated common-model documents aimed at the hostile classes (type look-alike strings, YAML indicators, control/BOM/non-character/astral code points, integer boundaries of every width, 17-digit and special floats, depth to 64, MessagePack width thresholds; every 150th document a heavy one: 4 095..70 000 entries or tens of KiB of multi-byte text) x 16 format pairs x 3 spellings x slice/scheduled reader x explicit/detected. Sampling of an unbounded space; no exhaustiveness claimed.",
      "Trusts the harness's independent readers (hand-written JSON/MessagePack decoders, libyaml events + own YAML 1.2 core schema, toml_edit walk) and spellers, cross-validated at start-up; libyaml's scanner is shared with xt. TOML order is accepted if it is a stable partition by table-ness (the toml crate's writer order) or the identity.",
      "DESIGN.md 3/C01")
check("C03", "exploration", "runtime monitor: writer byte log of one Translator over call histories vs per-document concatenation, plus framing by the independent target reader",
      "Held on every history executed (4*10^4 quick, 1.5*10^6 thorough): N in {0..5,17,300} documents spread over 1-4 calls in mixed source formats and supply modes with every separator style the source allows, documents padded to straddle 8 KiB/16 KiB boundaries, targets JSON/MessagePack/YAML; plus 400 (quick) / 8 000 (thorough) invocations of the release binary over 2-4 input files in mixed formats compared with separate invocations per file.",
      "The single-document translation of a value is taken from a conventional spelling of the same value in the same source format; framing is judged by the harness's readers (YAML: explicit document start reported by libyaml).",
      "DESIGN.md 3/C03")
check("C06", "exploration", "runtime self-differential: fixed point xt(B->B)(xt(A->B)(x)) and round trip via B against xt(A->A)(x)",
      "Held on every chain executed (about 10^6 quick): common-model documents x 16 ordered pairs x both clauses with slice/reader chosen per hop, plus extension documents (binary, float32, non-finite floats, non-string keys, TOML date-times) for the fixed-point clause, and a heavy document (thousands of entries / tens of KiB) every 300th case under whole / 8 KiB / 16 KiB read schedules.",
      "No reference implementation; xt is compared with itself, so a defect shared by both hops is invisible here (C01 covers values).",
      "DESIGN.md 3/C06")
check("C08", "exploration", "runtime monitor over call histories: writer byte log + Result of each call on a Translator(to=TOML) against the invariant and mandated refusals",
      "Held on every history executed (4*10^4 quick, 10^6 thorough): 1-3 calls x 0-3 documents, every root type, null / oversized integer / non-string key / binary planted at random paths, hostile keys, all four sources, slice/reader, short-write writers; plus 400 / 8 000 invocations `xt -t toml` over 1-3 inputs judged by the CLI reference model and the TOML reader.",
      "toml_edit parses the output; null keys, other non-string keys, binary and non-finite floats may be accepted or refused; after a refused first document the fate of later ones is left open.",
      "DESIGN.md 3/C08")
check("C10", "exploration", "runtime monitor: detect hook and detected-vs-explicit differential on xt's own output",
      "Held on every output examined (4*10^4 quick): collection-rooted documents with detection-hostile first keys x 4 output formats x one/many documents, detection observed on a slice and under 3 read schedules, then xt(None->X) vs xt(F->X).",
      "TOML's two exceptions are decided by the harness's own JSON reader and libyaml-event reader. The empty text written for an empty table must be recognised as TOML too.",
      "DESIGN.md 3/C10")
check("C09", "exploration", "runtime monitor: detect hook + detected-vs-explicit differential on scheduled readers; reference model of the rewindable input handle over all short operation programs",
      "Held on every execution: (a,b) 2.4*10^4 inputs quick / 8*10^5 thorough (mixed corpus plus inputs aimed at each detection trial) x slice + 4 read schedules; (d) bounded-exhaustive: EVERY program of up to 3 (quick) / 4 (thorough) tokens {new borrow, read(n), prefix(n)} x every data size 0..6 x EVERY chunking x both ways of taking ownership (10^6..10^8 runs) against a non-deterministic reference model.",
      "For failing reader runs the detected run is compared with explicit reader runs under the same and three other schedules (which error of several is met first, and how much was written before it, depend on read-ahead); on success output bytes must be identical.",
      "DESIGN.md 3/C09")
check("C11", "fault_enumeration", "runtime oracle over planted defects: syntax error at every byte position; unrepresentable construct at random paths vs the target crate's own reason; failing writer at every output byte vs the serializer's own wording",
      "Held on every planted defect executed (2.4*10^5 quick): every byte position of small documents x 3 damage kinds x 4 sources x slice/reader; 4 unrepresentable constructs from every source that can spell them; every output byte x 2 fault styles x 4 targets.",
      "Input-side cases are kept only when the harness's independent reader confirms the input is malformed and xt refuses it for all streaming targets; message equality with the source crate called directly is not demanded.",
      "DESIGN.md 3/C11")
check("C12", "fault_enumeration", "fault injection at the Read/Write boundary: reader failing from every byte offset, writer failing from every output byte, short writes, failing flush",
      "Held on every fault point executed (4.8*10^5 quick): every reader offset 0..=len (4 error kinds rotating, 3 schedules) and every writer offset below the fault-free length (2 styles, slice and reader input) for ~1.2*10^3 (input, from, to) combinations whose fault-free run succeeds; short-write patterns; flush.",
      "A reader that fails keeps failing; for YAML output one trailing '---' header is allowed before the prefix rule is applied.",
      "DESIGN.md 3/C12")
check("C05", "exploration", "runtime monitor: shared logical clock between a packet reader that knows document boundaries and a counting writer, judged at every read() call; counting global allocator for peak live heap",
      "Held on every stream executed (360 quick / 2400 thorough streams, up to 3*10^3 / 3*10^5 documents, ~2.6*10^7 read calls monitored per quick run): 3 sources x 3 targets x 6 packetisations x explicit/detected x 4 document size classes; lag bound is the property's own (k+2); memory: peak(N) <= peak(N/10) + 128 KiB and peak <= 2 MiB + 128 x largest document.",
      "The memory constants are about 3x above the worst ratio measured on the pinned tree so that only growth with the stream can trip them; the harness's own buffers are excluded from the count; timing plays no role (logical clock).",
      "DESIGN.md 3/C05")
check("C07", "exploration", "runtime differential against the UTF-8 text at translation level; exhaustive enumeration of code units at the re-encoder hook against a std-based reference decoder",
      "Translation level: 10^4 (quick) generated YAML streams x encodings x BOM x slice/reader x explicit/detected. Re-encoder level: complete enumeration in every run of all UTF-16 units, all 1 048 576 surrogate pairs, all 1 112 064 UTF-32 scalars, both byte orders, BOM/no BOM, with varied input/output buffer sizes (2 variants quick, 11 thorough), plus EVERY ordered pair of surrogate units that is not a well-formed pair (thorough: all 3 145 728; quick: 1/16 of the first units incl. the four boundary values x all second units), every surrogate value in five more ill-formed contexts, truncated units and out-of-range UTF-32 values; the enumeration runs in a child process so that an abort in the decoder is reported, not fatal.",
      "Exhaustive over characters, not over (character, buffer phase) combinations; reference decoder is char::decode_utf16 / char::from_u32.",
      "DESIGN.md 3/C07")
check("C13", "exploration", "runtime monitor of the real release binary (exit status/signal, stdout, stderr; stdout a pipe, file or pseudo-terminal) against a CLI reference model, over all short argument vectors",
      "Held on every process run executed (~1.1*10^4 quick): bounded-exhaustive over EVERY argument vector of length 0..2 (quick) / 0..3 (thorough) from a 48-token vocabulary, plus thousands of random longer vectors and every ordered pair of translatable inputs x every target, with rotating stdin contents and stdout kinds (pipe, file, pseudo-terminal, /dev/full).",
      "The model tokenises argv with the lexopt crate and applies the manual's rules; translations are predicted by the library in-process. Unreadable files cannot be produced (the harness runs as root).",
      "DESIGN.md 3/C13")
check("C14", "exploration", "runtime differential: stdout/exit status of the real binary vs the library run in-process in the matching supply mode, over generated invocations",
      "Held on every invocation executed (5*10^3 quick, 10^5 thorough): -f absent/each format x extension spellings in random letter case, multi-dot, none, misleading x contents of every format / several formats / invalid x regular file (mmap), FIFO, stdin, '-' twice, directory, missing x all targets.",
      "Expected source format computed by the harness from the manual's rule (-f, last extension case-insensitively, detection); strace sample shows mmap vs read as evidence only.",
      "DESIGN.md 3/C14")
check("C15", "fault_enumeration", "runtime monitor of the real binary's stdout and exit status with the failing input at every position of 1-6 inputs",
      "Held on every invocation executed (1.5*10^3 quick, 3*10^4 thorough): input sizes 5 B..4 MiB, 7 failure kinds, failing position 0..5 or none, all targets, stdout a pipe or a file; stdout must start with the complete translations of all earlier inputs.",
      "How much of the failing input's own partial output appears is left open; expectations come from the library in-process.",
      "DESIGN.md 3/C15")
check("C16", "fault_enumeration", "fault injection at the process boundary: consumer closes the pipe after exactly k bytes; stdout on /dev/full; wait status and stderr observed",
      "Held on every run executed: 13 closing points k (0 .. 5 pipe capacities) x 4 targets x 3 input layouts (so the failure is met in write, write_all, write_fmt and the per-input flush), always with more than 1 MiB of output remaining; 16 /dev/full runs below and above the buffer size; thorough adds closing points +-2 around buffer and pipe-capacity multiples.",
      "Relies on the kernel's EPIPE semantics; a run where the consumer could not get k bytes is inconclusive.",
      "DESIGN.md 3/C16")
check("C18", "exploration", "runtime differential per nesting depth (slice vs readers, explicit and detected) in-process; wait status of debug and release binaries on their default stacks; MessagePack size calculator (hook) vs independent decoder",
      "Held on every execution: 84 (format, shape, target) combinations, each nested around a scalar AND around an empty collection, x a +-6 window around each limit, 1000..1025, 10^4, 10^5 (10^6 thorough; YAML capped); ~900 binary runs (debug+release, file+stdin) at the limit, one beyond and far beyond; 2*10^4 size-calculator comparisons.",
      "YAML depth is capped for CPU reasons (quadratic); one shared limit per format is demanded across shapes and targets that accept the document at all.",
      "DESIGN.md 3/C18")
check("C17", "other", "compiler sanitizers over a hostile workload: AddressSanitizer+LeakSanitizer build in sharded processes, Miri on a subset, valgrind memcheck on the release binary (thorough), conservation counters for Parser/Event lifetimes",
      "Zero sanitizer reports on the executed workload: ~10^3 (quick) / 5*10^4 (thorough) corpus inputs each driven as YAML through the public API (read sizes 1..17, random, whole; explicit and detected), with reader errors, over-reporting readers of excess 1..64 into the raw parser / chunker (hook) / public API, early drop of the parser after every event count, re-encoder boundary units; 32..320 inputs under Miri. The leak detector is shown alive by a planted leak in every run.",
      "Sanitizers see only executed paths; red-zone tools miss intra-object overflows (Miri covers part of that on a smaller workload). Panics are an allowed outcome for contract-violating readers.",
      "DESIGN.md 3/C17")
check("C04", "exploration", "crash-isolated worker processes (catch_unwind, default 8 MiB stack, address-space limit, end-of-input read counter, progress watchdog) over corpus and adversarial inputs; wait status of the real binaries; libFuzzer+AddressSanitizer in the thorough tier",
      "Held on every run executed: 4*10^3 (quick) / 1.5*10^5 (thorough) cases x 5 source selections x 4 targets x slice/reader (1.6*10^5 / 6*10^6 translate calls); adversarial shapes: nesting to 5*10^3..10^5 (MessagePack always 10^5), declared lengths to 2^32-1 on every marker, alias bombs, lone anchors/aliases/tags, empty input, refused nodes, long scalars, numeric edges; ~100 debug/release binary runs; thorough adds 10 minutes x 16 forks of coverage-guided fuzzing under ASan.",
      "'Never loops forever' is decided only up to a budget (120 s without progress in a batch, then 900 s alone); a dead worker is attributed to the case it announced.",
      "DESIGN.md 3/C04")

for pid in ["C01","C03","C04","C05","C06","C07","C08","C09","C10","C11","C12","C13","C14","C15","C16","C17","C18"]:
    if pid not in CHECKS:
        NOT_BUILT[pid] = "check not built yet in this revision (planned; see DESIGN.md section 3)"

# Table of claimed checks; exec'd by tools_manifest.py.
check("C02", "exploration", "runtime differential monitor: translate_slice vs translate_reader under scheduled short reads",
      "Held on every (slice run, reader run) pair executed: millions of pairs per run over generated valid streams, mutants, splices, random bytes and EVERY token sequence up to length 4 (quick) / 5 (thorough) of each format's alphabet, under one-byte, fixed, random and boundary-cut read schedules. A finite exploration of an unbounded input space: exhaustive only for the short token sequences.",
      "Trusts the harness's scheduling reader (never returns 0 early, never over-fills) and catch_unwind; compares verdict class, output bytes and prefix-comparability, not error text.",
      "DESIGN.md 3/C02")

for pid in ["C01","C03","C04","C05","C06","C07","C08","C09","C10","C11","C12","C13","C14","C15","C16","C17","C18"]:
    if pid not in CHECKS:
        NOT_BUILT[pid] = "check not built yet in this revision (planned; see DESIGN.md section 3)"

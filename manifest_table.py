# Table of claimed checks; exec'd by tools_manifest.py.
check("C02", "exploration", "runtime differential monitor: translate_slice vs translate_reader under scheduled short reads",
      "Held on every (slice run, reader run) pair executed: millions of pairs per run over generated valid streams, mutants, splices, random bytes and EVERY token sequence up to length 4 (quick) / 5 (thorough) of each format's alphabet, under one-byte, fixed, random and boundary-cut read schedules. A finite exploration of an unbounded input space: exhaustive only for the short token sequences.",
      "Trusts the harness's scheduling reader (never returns 0 early, never over-fills) and catch_unwind; compares verdict class, output bytes and prefix-comparability, not error text.",
      "DESIGN.md 3/C02")
check("C01", "exploration", "runtime oracle: independent reader of the target format applied to xt's output for generated documents x hostile spellings",
      "Held on every translation executed (about 10^6 per quick run, 5*10^7 thorough): generated common-model documents aimed at the hostile classes (type look-alike strings, YAML indicators, control/BOM/non-character/astral code points, integer boundaries of every width, 17-digit and special floats, depth to 64, MessagePack width thresholds) x 16 format pairs x 3 spellings x slice/scheduled reader x explicit/detected. Sampling of an unbounded space; no exhaustiveness claimed.",
      "Trusts the harness's independent readers (hand-written JSON/MessagePack decoders, libyaml events + own YAML 1.2 core schema, toml_edit walk) and spellers, cross-validated at start-up; libyaml's scanner is shared with xt. TOML order is accepted if it is a stable partition by table-ness (the toml crate's writer order) or the identity.",
      "DESIGN.md 3/C01")
check("C03", "exploration", "runtime monitor: writer byte log of one Translator over call histories vs per-document concatenation, plus framing by the independent target reader",
      "Held on every history executed (4*10^4 quick, 1.5*10^6 thorough): N in {0..5,17,300} documents spread over 1-4 calls in mixed source formats and supply modes with every separator style the source allows, documents padded to straddle 8 KiB/16 KiB boundaries, targets JSON/MessagePack/YAML.",
      "The single-document translation of a value is taken from a conventional spelling of the same value in the same source format; framing is judged by the harness's readers (YAML: explicit document start reported by libyaml).",
      "DESIGN.md 3/C03")
check("C06", "exploration", "runtime self-differential: fixed point xt(B->B)(xt(A->B)(x)) and round trip via B against xt(A->A)(x)",
      "Held on every chain executed (about 10^6 quick): common-model documents x 16 ordered pairs x both clauses with slice/reader chosen per hop, plus extension documents (binary, float32, non-finite floats, non-string keys, TOML date-times) for the fixed-point clause.",
      "No reference implementation; xt is compared with itself, so a defect shared by both hops is invisible here (C01 covers values).",
      "DESIGN.md 3/C06")
check("C08", "exploration", "runtime monitor over call histories: writer byte log + Result of each call on a Translator(to=TOML) against the invariant and mandated refusals",
      "Held on every history executed (4*10^4 quick, 10^6 thorough): 1-3 calls x 0-3 documents, every root type, null / oversized integer / non-string key / binary planted at random paths, hostile keys, all four sources, slice/reader, short-write writers.",
      "toml_edit parses the output; null keys, other non-string keys, binary and non-finite floats may be accepted or refused; after a refused first document the fate of later ones is left open.",
      "DESIGN.md 3/C08")
check("C10", "exploration", "runtime monitor: detect hook and detected-vs-explicit differential on xt's own output",
      "Held on every output examined (4*10^4 quick): collection-rooted documents with detection-hostile first keys x 4 output formats x one/many documents, detection observed on a slice and under 3 read schedules, then xt(None->X) vs xt(F->X).",
      "TOML's two exceptions are decided by the harness's own JSON reader and libyaml-event reader. Empty-table TOML output (zero bytes) is skipped.",
      "DESIGN.md 3/C10")

for pid in ["C01","C03","C04","C05","C06","C07","C08","C09","C10","C11","C12","C13","C14","C15","C16","C17","C18"]:
    if pid not in CHECKS:
        NOT_BUILT[pid] = "check not built yet in this revision (planned; see DESIGN.md section 3)"

# Table of claimed checks; exec'd by tools_manifest.py.
check("C02", "exploration", "runtime differential monitor: translate_slice vs translate_reader under scheduled short reads",
      "Held on every (slice run, reader run) pair executed: millions of pairs per run over generated valid streams, mutants, splices, random bytes and EVERY token sequence up to length 4 (quick) / 5 (thorough) of each format's alphabet, under one-byte, fixed, random and boundary-cut read schedules. A finite exploration of an unbounded input space: exhaustive only for the short token sequences.",
      "Trusts the harness's scheduling reader (never returns 0 early, never over-fills) and catch_unwind; compares verdict class, output bytes and prefix-comparability, not error text.",
      "DESIGN.md 3/C02")
check("C01", "exploration", "runtime oracle: independent reader of the target format applied to xt's output for generated documents x hostile spellings",
      "Held on every translation executed (about 10^6 per quick run, 5*10^7 thorough): generated common-model documents aimed at the hostile classes (type look-alike strings, YAML indicators, control/BOM/non-character/astral code points, integer boundaries of every width, 17-digit and special floats, depth to 64, MessagePack width thresholds) x 16 format pairs x 3 spellings x slice/scheduled reader x explicit/detected. Sampling of an unbounded space; no exhaustiveness claimed.",
      "Trusts the harness's independent readers (hand-written JSON/MessagePack decoders, libyaml events + own YAML 1.2 core schema, toml_edit walk) and spellers, cross-validated at start-up; libyaml's scanner is shared with xt. TOML order is accepted if it is a stable partition by table-ness (the toml crate's writer order) or the identity.",
      "DESIGN.md 3/C01")

for pid in ["C01","C03","C04","C05","C06","C07","C08","C09","C10","C11","C12","C13","C14","C15","C16","C17","C18"]:
    if pid not in CHECKS:
        NOT_BUILT[pid] = "check not built yet in this revision (planned; see DESIGN.md section 3)"

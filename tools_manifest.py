#!/usr/bin/env python3
"""Regenerates MANIFEST.json from the table below (kept in one place so the
manifest stays valid while checks are added). Run: python3 tools_manifest.py"""
import json, subprocess

HOOK_COMMITS = subprocess.run(["git", "-C", "/repo", "log", "--format=%h %s", "--grep=verif"], capture_output=True, text=True).stdout.strip().splitlines()

# id -> (category, technique, level text, level note, design_ref)
CHECKS = {}
NOT_BUILT = {}

def check(pid, category, technique, text, note, ref):
    CHECKS[pid] = dict(category=category, technique=technique, text=text, note=note, ref=ref)

exec(open("manifest_table.py").read())

manifest = {
    "version": 1,
    "setup_cmd": "./setup.sh",
    "hooks": {
        "guard": "cargo feature 'verif' (off by default)",
        "enable": "the harness crate depends on xt = { path = \"/repo\", features = [\"verif\"] }; the xt binaries used by the CLI checks are built without it",
        "baseline_off_cmd": "cd /repo && cargo test --workspace --no-fail-fast --offline",
        "source_commits": [c.split()[0] for c in HOOK_COMMITS if "verif" in c and not c.split()[1].startswith("fix:")],
        "add_only": True,
    },
    "engines": [
        {"name": "xtv", "path": "harness/", "serves_properties": sorted(CHECKS), "kind_free_text": "Rust monitoring harness: scheduling/fault-injecting readers and writers, independent readers and spellers, reference models, process monitor; one subcommand per property, driven by ./check"},
    ],
    "checks": [],
    "not_applicable": [{"property_id": k, "reason": v} for k, v in sorted(NOT_BUILT.items())],
    "notes": "Runtime monitoring only: every verdict is 'held on the executions described in the evidence file', 'violated' (exit 1 + VIOLATION line + replay file) or 'inconclusive' (exit 2, no VIOLATION line). Known findings are listed in known_findings.json.",
}
for pid in sorted(CHECKS):
    c = CHECKS[pid]
    manifest["checks"].append({
        "property_id": pid,
        "quick_cmd": f"./check {pid} quick",
        "thorough_cmd": f"./check {pid} thorough",
        "evidence_file": f"/verif/evidence/{pid}.json",
        "replay_cmd_template": f"./check {pid} --replay {{path}}",
        "engine": "xtv",
        "level_claimed": {"category": c["category"], "text": c["text"], "design_ref": c["ref"]},
        "level_note": c["note"],
        "technique": c["technique"],
    })
json.dump(manifest, open("MANIFEST.json", "w"), indent=1)
print("MANIFEST.json:", len(manifest["checks"]), "checks,", len(manifest["not_applicable"]), "not claimed")

//! stub

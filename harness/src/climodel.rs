//! CLI reference model: what the manual (doc/xt.1, --help) promises for an
//! argument vector and a set of inputs, computed without any of xt's CLI code:
//! argv is tokenised with the `lexopt` crate and the rules are applied left to
//! right; translations are performed by calling the xt *library* in-process in
//! the supply mode the CLI would use (slice for regular files, reader for
//! standard input and FIFOs).

use std::collections::BTreeMap;

use crate::fmts::Fmt;
use crate::mon::{MonWriter, Sched, SchedReader};
use crate::procmon::{ProcOut, Status, StdoutKind};
use crate::run::guarded;

#[derive(Clone, Debug, PartialEq)]
pub enum HelpKind {
    Short,
    Long,
    Version,
}

#[derive(Clone, Debug, PartialEq)]
pub enum CliClass {
    /// Invalid command line: exit 2, usage on stderr, nothing on stdout.
    Usage(String),
    Help(HelpKind),
    Run { from: Option<Fmt>, to: Fmt, paths: Vec<String> },
}

fn parse_format(s: &str) -> Option<Fmt> {
    // names and aliases from the manual
    match s {
        "j" | "json" => Some(Fmt::Json),
        "m" | "msgpack" => Some(Fmt::Msgpack),
        "t" | "toml" => Some(Fmt::Toml),
        "y" | "yaml" => Some(Fmt::Yaml),
        _ => None,
    }
}

/// Classifies an argument vector (without argv[0]).
pub fn classify(argv: &[String]) -> CliClass {
    use lexopt::prelude::*;
    let mut parser = lexopt::Parser::from_args(argv.iter().map(|s| s.as_str()));
    let mut from: Option<Fmt> = None;
    let mut to: Option<Fmt> = None;
    let mut paths = vec![];
    loop {
        let arg = match parser.next() {
            Ok(Some(a)) => a,
            Ok(None) => break,
            Err(e) => return CliClass::Usage(format!("tokenizer: {e}")),
        };
        match arg {
            Short('f') | Short('t') => {
                let is_f = matches!(arg, Short('f'));
                if (is_f && from.is_some()) || (!is_f && to.is_some()) {
                    return CliClass::Usage("option given more than once".into());
                }
                let v = match parser.value() {
                    Ok(v) => v,
                    Err(_) => return CliClass::Usage("missing option value".into()),
                };
                let Some(f) = v.to_str().and_then(parse_format) else { return CliClass::Usage("invalid format name".into()) };
                if is_f {
                    from = Some(f)
                } else {
                    to = Some(f)
                }
            }
            Value(v) => paths.push(v.to_string_lossy().into_owned()),
            Short('V') | Long("version") => return CliClass::Help(HelpKind::Version),
            Short('h') => return CliClass::Help(HelpKind::Short),
            Long("help") => return CliClass::Help(HelpKind::Long),
            _ => return CliClass::Usage("unknown option".into()),
        }
    }
    CliClass::Run { from, to: to.unwrap_or(Fmt::Json), paths }
}

/// What a path names in the scratch directory of a run.
#[derive(Clone, Debug)]
pub enum PathKind {
    Regular(Vec<u8>),
    Fifo(Vec<u8>),
    Missing,
    Directory,
}

pub fn extension_format(path: &str) -> Option<Fmt> {
    // the last extension, matched case-insensitively
    let name = path.rsplit('/').next().unwrap_or(path);
    let (stem, ext) = name.rsplit_once('.')?;
    if stem.is_empty() {
        return None; // ".json" is a hidden file without extension
    }
    match ext.to_ascii_lowercase().as_str() {
        "json" => Some(Fmt::Json),
        "msgpack" => Some(Fmt::Msgpack),
        "toml" => Some(Fmt::Toml),
        "yaml" | "yml" => Some(Fmt::Yaml),
        _ => None,
    }
}

#[derive(Clone, Debug)]
pub struct Expected {
    pub exit: i32,
    /// stdout must start with these bytes (complete outputs of inputs that finished)
    pub stdout_floor: Vec<u8>,
    /// ... and must be a prefix of these (floor plus whatever the failing input wrote before failing)
    pub stdout_ceiling: Vec<u8>,
    /// for exit 1: the input the message must name ("in <path>" / "standard input"), if the failure belongs to one
    pub names: Option<String>,
    pub why: String,
    /// per input: resolved source format (None = detection) and supply mode, for evidence
    pub inputs: Vec<(String, String, &'static str)>,
}

/// Standard input content that stands for "standard input is an open directory: every read fails".
pub const STDIN_IS_A_DIRECTORY: &[u8] = b"\0XTV-STDIN-IS-A-DIRECTORY\0";

/// Emulates a Run-class invocation with the library.
pub fn emulate(from: Option<Fmt>, to: Fmt, paths: &[String], files: &BTreeMap<String, PathKind>, stdin: &[u8], stdout_kind: &StdoutKind) -> Expected {
    let mut exp = Expected { exit: 0, stdout_floor: vec![], stdout_ceiling: vec![], names: None, why: String::new(), inputs: vec![] };
    if *stdout_kind == StdoutKind::Pty && to == Fmt::Msgpack {
        exp.exit = 1;
        exp.why = "MessagePack is never written to a terminal".into();
        return exp;
    }
    let w = MonWriter::new();
    let log = w.log_handle();
    let mut tr = xt::Translator::new(w, to.xt());
    let inputs: Vec<String> = if paths.is_empty() { vec!["-".to_string()] } else { paths.to_vec() };
    let mut stdin_used = false;
    for p in &inputs {
        let is_stdin = p == "-";
        let (label, data, reader, open_err): (String, Vec<u8>, bool, Option<&str>) = if is_stdin {
            ("standard input".into(), stdin.to_vec(), true, None)
        } else {
            match files.get(p) {
                Some(PathKind::Regular(b)) => (format!("in {p}"), b.clone(), b.is_empty(), None), // an empty file cannot be mapped: reader fallback
                Some(PathKind::Fifo(b)) => (format!("in {p}"), b.clone(), true, None),
                Some(PathKind::Directory) => (format!("in {p}"), vec![], true, Some("directory")),
                Some(PathKind::Missing) | None => (format!("in {p}"), vec![], true, Some("missing")),
            }
        };
        if open_err == Some("missing") {
            exp.exit = 1;
            exp.names = Some(label);
            exp.why = "input cannot be opened".into();
            break;
        }
        if is_stdin {
            if stdin_used {
                exp.exit = 1;
                exp.names = None;
                exp.why = "standard input named twice".into();
                break;
            }
            stdin_used = true;
            if stdin == STDIN_IS_A_DIRECTORY {
                exp.exit = 1;
                exp.names = Some(label);
                exp.why = "standard input cannot be read (it is a directory)".into();
                break;
            }
        }
        if open_err == Some("directory") {
            exp.exit = 1;
            exp.names = Some(label);
            exp.why = "input is a directory".into();
            break;
        }
        let resolved = from.or_else(|| if is_stdin { None } else { extension_format(p) });
        exp.inputs.push((p.clone(), crate::fmts::from_name(resolved).to_string(), if reader { "reader" } else { "slice" }));
        let v = if reader {
            guarded(|| tr.translate_reader(SchedReader::new(&data, Sched::All), resolved.map(Fmt::xt)))
        } else {
            guarded(|| tr.translate_slice(&data, resolved.map(Fmt::xt)))
        };
        if !v.is_ok() {
            exp.exit = 1;
            exp.names = Some(label);
            exp.why = format!("translation fails: {}", v.show());
            break;
        }
        exp.stdout_floor = log.borrow().bytes.clone();
    }
    exp.stdout_ceiling = log.borrow().bytes.clone();
    exp
}

/// Judges an observed process outcome against the expectation. Returns a
/// description of the first discrepancy.
pub fn judge_run(out: &ProcOut, exp: &Expected) -> Result<(), String> {
    match &out.status {
        Status::Exit(c) if *c == exp.exit => {}
        other => return Err(format!("wait status {} (expected exit {}: {})", other.show(), exp.exit, exp.why)),
    }
    if !out.stdout.starts_with(&exp.stdout_floor) {
        let at = out.stdout.iter().zip(exp.stdout_floor.iter()).position(|(a, b)| a != b).unwrap_or(out.stdout.len().min(exp.stdout_floor.len()));
        return Err(format!("stdout ({} bytes) does not start with the {} bytes of completed translations (first difference at byte {at})", out.stdout.len(), exp.stdout_floor.len()));
    }
    if !exp.stdout_ceiling.starts_with(&out.stdout) {
        return Err(format!("stdout ({} bytes) carries bytes that are not translated data: [{}]", out.stdout.len(), crate::model::preview(&out.stdout, 120)));
    }
    if exp.exit == 0 {
        if out.stdout != exp.stdout_ceiling {
            return Err(format!("exit 0 but stdout has {} bytes, the translations have {}", out.stdout.len(), exp.stdout_ceiling.len()));
        }
        if !out.stderr.is_empty() {
            return Err(format!("exit 0 with a message on stderr: [{}]", crate::model::preview(&out.stderr, 120)));
        }
    } else {
        let err = String::from_utf8_lossy(&out.stderr);
        if !err.starts_with("xt error") {
            return Err(format!("stderr does not begin 'xt error': [{}]", crate::model::preview(&out.stderr, 120)));
        }
        if let Some(n) = &exp.names {
            let first = err.lines().next().unwrap_or("");
            if !first.contains(n.as_str()) {
                return Err(format!("the message does not name the offending input ({n}): [{first}]"));
            }
        }
    }
    Ok(())
}

pub fn judge_usage(out: &ProcOut) -> Result<(), String> {
    if out.status != Status::Exit(2) {
        return Err(format!("wait status {} (expected exit 2 for an invalid command line)", out.status.show()));
    }
    if !out.stdout.is_empty() {
        return Err(format!("invalid command line but stdout is not empty: [{}]", crate::model::preview(&out.stdout, 120)));
    }
    let err = String::from_utf8_lossy(&out.stderr);
    if !err.contains("Usage:") {
        return Err(format!("no usage message on stderr: [{}]", crate::model::preview(&out.stderr, 160)));
    }
    Ok(())
}

pub fn judge_help(out: &ProcOut, kind: &HelpKind) -> Result<(), String> {
    if out.status != Status::Exit(0) {
        return Err(format!("wait status {} (expected exit 0 for help/version)", out.status.show()));
    }
    let so = String::from_utf8_lossy(&out.stdout);
    let ok = match kind {
        HelpKind::Version => so.starts_with("xt ") && so.trim_end().lines().count() == 1 && so.split_whitespace().nth(1).map(|v| v.chars().next().map(|c| c.is_ascii_digit()).unwrap_or(false)).unwrap_or(false),
        HelpKind::Short => so.starts_with("Usage:") && so.contains("--help"),
        HelpKind::Long => so.contains("USAGE") && so.contains("OPTIONS") && so.contains("FORMATS"),
    };
    if !ok {
        return Err(format!("stdout is not the requested {:?} text: [{}]", kind, crate::model::preview(&out.stdout, 160)));
    }
    if !out.stderr.is_empty() {
        return Err(format!("help/version with a message on stderr: [{}]", crate::model::preview(&out.stderr, 120)));
    }
    Ok(())
}

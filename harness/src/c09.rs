//! C09 — format detection is a transparent, total pre-selection step.
//!
//! (a) transparency: with F = the detect hook's answer, translate(None) must
//! equal translate(Some(F)) in verdict, output bytes and error text; F = None
//! must give exactly "unable to detect input format"; a detection error is a
//! violation (the harness reader injects none here).
//! (b) every input that translates successfully under detection is detected as
//! the same format from a slice and from a reader under every schedule.
//! (d) the rewindable input handle against a reference model, over ALL
//! programs of borrows / partial reads / prefix requests up to a bound, all
//! small data sizes and all chunkings of the source.

use serde_json::{json, Value};
use std::io::Read;

use crate::corpus;
use crate::ev::{self, Acc, Ctx, Finish, Violation};
use crate::fmts::{self, Fmt, ALL};
use crate::gen::GenOpts;
use crate::known;
use crate::model::{hex, preview, unhex};
use crate::mon::{Sched, SchedReader};
use crate::rng::Rng;
use crate::run::{guarded_any, run_mode, Mode, Verdict};
use xt::verif::{Handle, Obs, Op, Owned};

pub const UNABLE: &str = "unable to detect input format";

pub fn detect(input: &[u8], mode: &Mode) -> Result<Option<Fmt>, String> {
    let r = match mode {
        Mode::Slice => guarded_any(|| xt::verif::detect_slice(input)),
        Mode::Reader(s) => guarded_any(|| xt::verif::detect_reader(SchedReader::new(input, s.clone()))),
    };
    r.map_err(|p| format!("panic: {p}"))?.map(|o| o.map(Fmt::from_xt)).map_err(|e| format!("io error: {e}"))
}

fn show(d: &Result<Option<Fmt>, String>) -> String {
    match d {
        Ok(Some(f)) => f.name().to_string(),
        Ok(None) => "none".into(),
        Err(e) => format!("error({e})"),
    }
}

fn case_json(input: &[u8], mode: &Mode, to: Fmt, class: &str) -> Value {
    json!({"part": "transparency", "input_hex": hex(input), "input_preview": preview(input, 200), "mode": mode.describe(), "to": to.name(), "class": class})
}

/// Returns (the format detection named, whether the detected translation succeeded).
pub fn transparency(input: &[u8], mode: &Mode, to: Fmt, class: &str, acc: &mut Acc) -> (Option<Fmt>, bool) {
    acc.evals += 1;
    let d = detect(input, mode);
    acc.count(&format!("detected_{}", show(&d).split('(').next().unwrap()));
    let auto = run_mode(input, mode, None, to);
    match &d {
        Err(e) => {
            acc.violation(Violation { sig: format!("detection failed: {}", ev::truncate(&crate::c02_mask(e), 70)), case: case_json(input, mode, to, class), observed: format!("detect = {}; translate(None) = {}", show(&d), auto.verdict.show()), expected: "a format or 'no format'; a candidate that runs out of input or meets a syntax error is simply skipped".into() });
            (None, false)
        }
        Ok(None) => {
            if auto.verdict != Verdict::Err(UNABLE.into()) || !auto.out.is_empty() {
                acc.violation(Violation { sig: "no format detected but the message is not the documented one".into(), case: case_json(input, mode, to, class), observed: format!("{} [{}]", auto.verdict.show(), preview(&auto.out, 80)), expected: format!("Err({UNABLE}) and no output") });
            }
            (None, false)
        }
        Ok(Some(f)) => {
            let mut explicit = run_mode(input, mode, Some(*f), to);
            acc.count("explicit_vs_detected_compared");
            // On success the bytes must be identical. On failure the error text must be
            // identical and the partial outputs prefix-comparable: how much was written
            // before a failure depends on read-ahead, which even two explicit runs
            // under different read schedules do not share (C02 states the same rule).
            let agree = |a: &crate::run::Outcome, e: &crate::run::Outcome| a.verdict == e.verdict && if a.verdict.is_ok() { a.out == e.out } else { crate::run::prefix_comparable(&a.out, &e.out) };
            let mut outputs_agree = agree(&auto, &explicit);
            // With two defects in one failing input, WHICH error is met first also depends
            // on read-ahead, and detection changes the read pattern the translator sees
            // (the captured prefix is replayed in one piece). So for reader input the
            // detected run may match the explicit reader run under another schedule.
            if !outputs_agree && auto.verdict.is_err() {
                if let Mode::Reader(_) = mode {
                    for alt in [Sched::All, Sched::One, Sched::Fixed(4096)] {
                        let e2 = run_mode(input, &Mode::Reader(alt), Some(*f), to);
                        if agree(&auto, &e2) {
                            acc.count("matched_explicit_run_under_other_schedule");
                            explicit = e2;
                            outputs_agree = true;
                            break;
                        }
                    }
                }
            }
            if !outputs_agree {
                // Known finding: when detection has read a reader to its end, the
                // translation continues on the slice path. Where a format's slice and
                // reader paths word a failure differently (YAML error positions relative
                // to the stream vs the current document), the detected reader run carries
                // the explicit SLICE run's text.
                if matches!(mode, Mode::Reader(_)) && auto.verdict.is_err() && explicit.verdict.is_err() && known::listed("C09", "C09-buffered-reader-behaves-as-slice") {
                    let as_slice = run_mode(input, &Mode::Slice, Some(*f), to);
                    if as_slice.verdict == auto.verdict && crate::run::prefix_comparable(&as_slice.out, &auto.out) {
                        acc.known("C09-buffered-reader-behaves-as-slice", || format!("input [{}] as {}: detected '{}' [{}] vs explicit reader '{}' [{}]", preview(input, 50), f.name(), auto.verdict.text(), preview(&auto.out, 20), explicit.verdict.text(), preview(&explicit.out, 20)));
                        return (Some(*f), false);
                    }
                }
                acc.violation(Violation {
                    sig: format!("detected {} but translate(None) != translate(Some({})): {}", f.name(), f.name(), if auto.verdict.class() != explicit.verdict.class() { "verdict".to_string() } else if auto.out != explicit.out { "output".to_string() } else { format!("error text [{}] vs [{}]", ev::truncate(&crate::c02_mask(auto.verdict.text()), 40), ev::truncate(&crate::c02_mask(explicit.verdict.text()), 40)) }),
                    case: case_json(input, mode, to, class),
                    observed: format!("detected run: {} [{}]; explicit run: {} [{}]", auto.verdict.show(), preview(&auto.out, 100), explicit.verdict.show(), preview(&explicit.out, 100)),
                    expected: "identical verdict, output bytes and error text".into(),
                });
            }
            (Some(*f), auto.verdict.is_ok())
        }
    }
}

/// Inputs aimed at the detection trials (part c).
pub fn emphasised(seed: u64, idx: usize) -> (Vec<u8>, &'static str) {
    let mut rng = Rng::derive(seed, 0xc09c, idx as u64);
    if idx % 50 == 49 {
        // bytes that the MessagePack trial reads as collections nested around and far beyond its depth
        // limit: real MessagePack nesting, and valid YAML / TOML text whose characters U+0700..U+07FF encode
        // as a collection marker plus a length byte each
        let d = *rng.pick(&[1000usize, 1022, 1023, 1024, 1025, 1500, 3000]);
        return match rng.below(4) {
            0 => (crate::c18::nested(Fmt::Msgpack, crate::c18::Shape::Arrays, d), "msgpack_nesting_around_and_beyond_the_limit"),
            1 => (crate::c18::nested(Fmt::Msgpack, crate::c18::Shape::Random(rng.next()), d), "msgpack_nesting_around_and_beyond_the_limit"),
            2 => (format!("\u{71c}: {}\n", "\u{71c}".repeat(d)).into_bytes(), "text_reading_as_deep_msgpack"),
            _ => (format!("\"\u{71d}\" = \"{}\"\n", "\u{71d}".repeat(d)).into_bytes(), "text_reading_as_deep_msgpack"),
        };
    }
    if idx % 50 == 45 {
        // valid YAML / TOML text whose first bytes ARE a complete MessagePack value: a first character U+0700..U+073F
        // (0xDC 0x80..0xBF = "array 16" and the high byte of its count) followed by more ASCII bytes - each a
        // one-byte integer - than the count says; U+0780..U+07BF (0xDE ..) the same for "map 16"
        let c = char::from_u32(*rng.pick(&[0x700u32, 0x710, 0x73f, 0x780, 0x7a6, 0x7bf])).unwrap();
        let lines = *rng.pick(&[9000usize, 14000, 30000]);
        let mut t = if rng.chance(1, 2) { format!("{c}: 1\n") } else { format!("\"{c}\" = 1\n") };
        let toml = t.starts_with('"');
        for i in 0..lines {
            t.push_str(&if toml { format!("k{i} = 1\n") } else { format!("k{i}: 1\n") });
        }
        return (t.into_bytes(), "text_whose_first_bytes_are_a_complete_msgpack_value");
    }
    if idx % 50 == 47 || idx % 50 == 46 {
        // a UTF-8 byte order mark (or another invisible first character) in front of a document of each format
        let mut feats = crate::spell::Feats::default();
        let mut cl = crate::gen::Classes::default();
        let d = crate::gen::gen_doc(&mut rng, &GenOpts { max_depth: 2, max_width: 3, ..GenOpts::common() }, &mut cl);
        let f = ALL[rng.below(4)];
        let d = if f == Fmt::Toml { crate::gen::tomlify(&d).unwrap_or(crate::model::Val::Map(vec![])) } else { d };
        let body = if rng.chance(1, 3) { (*rng.pick(&[&b"{\"n\": -0}"[..], b"[1]\n[2]\n", b"{\"e\": \"\\ud83d\\ude00\"}", b"k = 1\n", b"a: 1\n", b"\x91\x01"])).to_vec() } else { crate::spell::spell(f, &d, &mut rng, &mut feats, true) };
        let lead: &[u8] = *rng.pick(&[&b"\xef\xbb\xbf"[..], b"\xef\xbb\xbf", b"\xef\xbb\xbf\xef\xbb\xbf", b"\xe2\x80\x8b", b"\xc2\xa0", b"\xef\xbb"]);
        let mut b = lead.to_vec();
        b.extend_from_slice(&body);
        return (b, "behind_a_byte_order_mark_or_invisible_character");
    }
    if idx % 50 == 48 {
        // a document of each text format behind a long run of insignificant white space (JSON: space, tab,
        // CR, LF; YAML / TOML: blank lines), around the sizes of read buffers
        let n = *rng.pick(&[1000usize, 4095, 4096, 4097, 8191, 8192, 8193, 16384, 65536, 70001]);
        let ws: String = match rng.below(3) {
            0 => " ".repeat(n),
            1 => "\n".repeat(n),
            _ => (0..n).map(|_| *rng.pick(&[' ', '\t', '\r', '\n'])).collect(),
        };
        return match rng.below(4) {
            0 => (format!("{ws}{{\"k\": [1, 2]}}\n").into_bytes(), "json_behind_long_white_space"),
            1 => (format!("{ws}[\"a\", null]").into_bytes(), "json_behind_long_white_space"),
            2 => (format!("{}k: [1, 2]\n", "\n".repeat(n)).into_bytes(), "yaml_or_toml_behind_blank_lines"),
            _ => (format!("{}k = [1, 2]\n", "\n".repeat(n)).into_bytes(), "yaml_or_toml_behind_blank_lines"),
        };
    }
    match idx % 7 {
        6 => {
            // xt's own TOML output for documents with detection-hostile first keys
            let mut cl = crate::gen::Classes::default();
            let d = crate::c10::gen_doc_for_detection(&mut rng, &mut cl);
            let mut feats = crate::spell::Feats::default();
            if let Some(t) = crate::gen::tomlify(&d) {
                let j = crate::spell::spell(Fmt::Json, &t, &mut rng, &mut feats, true);
                let o = crate::run::run_slice(&j, Some(Fmt::Json), Fmt::Toml);
                if o.verdict.is_ok() && !o.out.is_empty() {
                    return (o.out, "own_toml_output");
                }
            }
            (b"a = 1\n".to_vec(), "own_toml_output")
        }
        0 => {
            // a MessagePack collection marker followed by anything from nothing to a complete value
            let mut feats = crate::spell::Feats::default();
            let mut cl = crate::gen::Classes::default();
            let d = crate::gen::gen_collection(&mut rng, &GenOpts { max_depth: 3, max_width: 4, ..GenOpts::common() }, 0, &mut cl, idx % 12 == 0);
            let b = crate::spell::spell(Fmt::Msgpack, &d, &mut rng, &mut feats, false);
            let cut = rng.range(1.min(b.len()), b.len());
            (b[..cut].to_vec(), "msgpack_truncated_collection")
        }
        1 => {
            let markers = [0x80u8, 0x81, 0x8f, 0x90, 0x91, 0x9f, 0xdc, 0xdd, 0xde, 0xdf];
            let mut b = vec![*rng.pick(&markers)];
            let n = rng.below(6);
            b.extend(rng.bytes(n));
            (b, "msgpack_marker_then_random")
        }
        2 => {
            // valid text starting with U+0700..U+07FF (first byte 0xdc..0xdf)
            let c = char::from_u32(0x700 + rng.below(0x100) as u32).unwrap();
            let forms = [format!("{c}: 1\n"), format!("{c}x: [1, 2]\n"), format!("- {c}\n"), format!("{c}\n"), format!("\"{c}\" = 1\n"), format!("{c} = 1\n"), format!("{c}")];
            (rng.pick(&forms).clone().into_bytes(), "text_starting_u0700_u07ff")
        }
        3 => {
            let multi: [&[u8]; 14] = [b"[1]", b"{}", b"[]", b"1 = 2\n", b"\"a\" = 1\n", b"[a]\n", b"a: b\n", b"k = \"a: b\"\n", b"{\"a\": 1}", b"[a, b]\n", b"a = 1\n", b"# c\na = 1\n", b"1\n", b"\"s\"\n"];
            (rng.pick(&multi).to_vec(), "accepted_by_several_formats")
        }
        4 => {
            // first character from U+0080..U+00FF region and other two-byte leads
            let c = char::from_u32(0x80 + rng.below(0x780) as u32).unwrap();
            (format!("{c}a: [1]\n").into_bytes(), "text_starting_two_byte_char")
        }
        _ => {
            let seeds = corpus::seeds();
            let s = &seeds[rng.below(seeds.len())];
            let cut = rng.range(0, s.bytes.len());
            (s.bytes[..cut].to_vec(), "truncated_seed")
        }
    }
}

// ---------------------------------------------------------------------------
// (d) handle programs
// ---------------------------------------------------------------------------

#[derive(Clone, Copy, Debug, PartialEq)]
pub enum Tok {
    Borrow,
    Read(usize),
    Prefix(usize),
}

fn tok_alphabet(len: usize) -> Vec<Tok> {
    let mut v = vec![Tok::Borrow];
    for n in 0..=len + 1 {
        v.push(Tok::Read(n));
        v.push(Tok::Prefix(n));
    }
    v
}

fn prog_text(p: &[Tok]) -> String {
    p.iter()
        .map(|t| match t {
            Tok::Borrow => "B".to_string(),
            Tok::Read(n) => format!("R{n}"),
            Tok::Prefix(n) => format!("P{n}"),
        })
        .collect::<Vec<_>>()
        .join(" ")
}

fn parse_prog(s: &str) -> Option<Vec<Tok>> {
    let mut v = vec![];
    for t in s.split_whitespace() {
        v.push(match t.as_bytes()[0] {
            b'B' => Tok::Borrow,
            b'R' => Tok::Read(t[1..].parse().ok()?),
            b'P' => Tok::Prefix(t[1..].parse().ok()?),
            _ => return None,
        });
    }
    Some(v)
}

/// Runs one program (which starts with an implicit Borrow) against the handle
/// and the reference model. Returns Err(description) on the first discrepancy.
pub fn run_program(data: &[u8], cuts: &[usize], prog: &[Tok], final_cow: bool, from_slice: bool) -> Result<(), String> {
    let res = guarded_any(|| -> Result<(), String> {
        let mut h = if from_slice { Handle::from_slice(data) } else { Handle::from_reader(SchedReader::new(data, Sched::Cuts(cuts.to_vec()))) };
        // split into borrows
        let mut borrows: Vec<Vec<Op>> = vec![vec![]];
        for t in prog {
            match t {
                Tok::Borrow => borrows.push(vec![]),
                Tok::Read(n) => borrows.last_mut().unwrap().push(Op::Read(*n)),
                Tok::Prefix(n) => borrows.last_mut().unwrap().push(Op::Prefix(*n)),
            }
        }
        for (bi, ops) in borrows.iter().enumerate() {
            let b = h.borrow(ops);
            let mut pos = 0usize; // the read position restarts at every borrow
            if let Some(view) = &b.slice_view {
                if view != data {
                    return Err(format!("borrow {bi}: slice view {:?} is not the whole input {:?}", view, data));
                }
            }
            let is_slice = b.slice_view.is_some();
            let mut obs = b.obs.iter();
            for op in ops {
                match op {
                    Op::Read(n) => {
                        if is_slice {
                            continue;
                        }
                        match obs.next() {
                            Some(Obs::Read(Ok(got))) => {
                                let m = got.len();
                                if m > *n {
                                    return Err(format!("borrow {bi}: read({n}) returned {m} bytes"));
                                }
                                if pos + m > data.len() || got[..] != data[pos..pos + m] {
                                    return Err(format!("borrow {bi}: read({n}) at position {pos} returned {:?}, expected a prefix of {:?}", got, &data[pos.min(data.len())..]));
                                }
                                if m == 0 && *n > 0 && pos < data.len() {
                                    return Err(format!("borrow {bi}: read({n}) at position {pos} returned 0 bytes before the end of the input"));
                                }
                                pos += m;
                            }
                            other => return Err(format!("borrow {bi}: read({n}) observed {other:?}")),
                        }
                    }
                    Op::Prefix(n) => match obs.next() {
                        Some(Obs::Prefix(Ok(got))) => {
                            let q = got.len();
                            if q > data.len() || got[..] != data[..q] {
                                return Err(format!("borrow {bi}: prefix({n}) returned {:?}, not a prefix of the input", got));
                            }
                            if q < (*n).min(data.len()) {
                                return Err(format!("borrow {bi}: prefix({n}) returned only {q} bytes of {}", data.len()));
                            }
                            if is_slice && q != data.len() {
                                return Err(format!("borrow {bi}: prefix({n}) on a slice reference returned {q} bytes"));
                            }
                        }
                        other => return Err(format!("borrow {bi}: prefix({n}) observed {other:?}")),
                    },
                }
            }
        }
        // take ownership: the consumer must see the complete, unaltered input
        let all = if final_cow {
            h.into_cow().map_err(|e| format!("into_cow failed: {e}"))?
        } else {
            match h.into_input() {
                Owned::Slice(v) => v,
                Owned::Reader(mut r) => {
                    let mut v = vec![];
                    r.read_to_end(&mut v).map_err(|e| format!("owned reader failed: {e}"))?;
                    v
                }
            }
        };
        if all != data {
            return Err(format!("after the program the owner sees {:?}, expected {:?}", all, data));
        }
        Ok(())
    });
    match res {
        Ok(r) => r,
        Err(p) => Err(format!("panic: {p}")),
    }
}

fn compositions(len: usize, idx: usize) -> Vec<usize> {
    // bit i of idx set => cut after byte i+1
    (0..len.saturating_sub(1)).filter(|i| idx >> i & 1 == 1).map(|i| i + 1).collect()
}

fn handle_programs(ctx: &Ctx, acc_total: &mut Acc) {
    let max_toks = if ctx.thorough() { 5 } else { 3 };
    let max_len = 6usize;
    // enumerate (len, program) pairs; inside: all chunkings x 2 finals
    let mut work: Vec<(usize, usize, usize)> = vec![]; // (len, ntoks, index)
    for len in 0..=max_len {
        let a = tok_alphabet(len).len();
        for nt in 0..=max_toks {
            let count = a.pow(nt as u32);
            // chunk the index space so that work items are of comparable size
            let per = 2000;
            let mut s = 0;
            while s < count {
                work.push((len, nt, s));
                s += per;
            }
        }
    }
    let acc = crate::par::run(work.len(), 1, |w, acc| {
        let (len, nt, start) = work[w];
        let alpha = tok_alphabet(len);
        let a = alpha.len();
        let count = a.pow(nt as u32);
        let data: Vec<u8> = (0..len).map(|i| b'a' + i as u8).collect();
        for pi in start..(start + 2000).min(count) {
            let mut prog = Vec::with_capacity(nt);
            let mut x = pi;
            for _ in 0..nt {
                prog.push(alpha[x % a]);
                x /= a;
            }
            let n_comp = 1usize << len.saturating_sub(1);
            for ci in 0..n_comp {
                let cuts = compositions(len, ci);
                for final_cow in [false, true] {
                    acc.evals += 1;
                    acc.count("handle_programs_run");
                    if let Err(e) = run_program(&data, &cuts, &prog, final_cow, false) {
                        acc.violation(Violation { sig: format!("handle program: {}", ev::truncate(&crate::c02_mask(&e), 60)), case: json!({"part": "handle", "data_hex": hex(&data), "cuts": cuts, "program": prog_text(&prog), "final": if final_cow { "cow" } else { "input" }}), observed: e, expected: "reads return the next bytes, prefixes return a prefix at least as long as asked, the owner sees the whole input".into() });
                    }
                }
            }
            // the same program on a slice handle (one run, no chunking)
            acc.evals += 1;
            if let Err(e) = run_program(&data, &[], &prog, pi % 2 == 0, true) {
                acc.violation(Violation { sig: format!("handle program (slice): {}", ev::truncate(&crate::c02_mask(&e), 60)), case: json!({"part": "handle", "data_hex": hex(&data), "cuts": [], "program": prog_text(&prog), "final": if pi % 2 == 0 { "cow" } else { "input" }, "slice": true}), observed: e, expected: "slice handles expose the whole input".into() });
            }
            if nt >= 2 && len >= 2 {
                acc.distinct(&(len, pi));
            }
        }
    });
    acc_total.merge(acc);
}

pub fn run(ctx: &Ctx) -> i32 {
    let n_mixed = ctx.size(12000, 2000000);
    let n_emph = ctx.size(12000, 2000000);
    let seed = ctx.seed;
    let opts = GenOpts::common();
    // every hand-written seed once (rare forms of every format), then the generated corpora
    let all_seeds = corpus::seeds();
    let n_seeds = all_seeds.len();
    let mut acc = crate::par::run(n_seeds + n_mixed + n_emph, 16, |i, acc| {
        let (bytes, class) = if i < n_seeds {
            (all_seeds[i].bytes.clone(), "seed_whole")
        } else if i - n_seeds < n_mixed {
            let i = i - n_seeds;
            let it = corpus::mixed_item(seed, i, &opts);
            (it.bytes, it.class)
        } else {
            emphasised(seed, i - n_seeds - n_mixed)
        };
        if bytes.len() >= 2 << 20 {
            return;
        }
        acc.count(&format!("class_{class}"));
        acc.distinct(&bytes);
        acc.sample_every(2003, || json!({"class": class, "input_preview": preview(&bytes, 100)}));
        let mut rng = Rng::derive(seed, 0xc09, i as u64);
        let to = ALL[i % 4];
        let scheds = [Sched::One, Sched::All, Sched::Fixed(*rng.pick(&[2usize, 3, 5, 13, 4096])), Sched::Random(rng.next(), 8)];
        let (ds, ok_s) = transparency(&bytes, &Mode::Slice, to, class, acc);
        let mut readers: Vec<(String, Option<Fmt>, bool)> = vec![];
        for s in &scheds {
            let m = Mode::Reader(s.clone());
            let (d, ok) = transparency(&bytes, &m, to, class, acc);
            readers.push((m.describe(), d, ok));
        }
        // (b) an input that translates successfully under detection (in any supply
        // mode) is detected as the same format from a slice and from every reader
        if ok_s || readers.iter().any(|r| r.2) {
            acc.count("successful_inputs_checked_for_agreement");
            for (how, d, _) in &readers {
                if ds != *d {
                    if (ds == Some(Fmt::Yaml)) != (*d == Some(Fmt::Yaml)) && known::yaml_trial_read_ahead_shape(&bytes) && known::listed("C09", "C09-yaml-trial-depends-on-read-ahead") {
                        acc.known("C09-yaml-trial-depends-on-read-ahead", || format!("input [{}]: slice detects {:?}, {} detects {:?}", preview(&bytes, 50), ds.map(|f| f.name()), how, d.map(|f| f.name())));
                        break;
                    }
                    acc.violation(Violation { sig: format!("slice detects {} but reader detects {}", ds.map(|f| f.name()).unwrap_or("none"), d.map(|f| f.name()).unwrap_or("none")), case: case_json(&bytes, &Mode::parse(how).unwrap_or(Mode::Slice), to, class), observed: format!("input translates successfully under detection; slice detected as {:?}, {} as {:?}", ds.map(|f| f.name()), how, d.map(|f| f.name())), expected: "the same format from a slice and from a reader".into() });
                    break;
                }
            }
        }
        acc.count("slice_reader_agreement_checked");
    });
    // two inputs just under 2 MiB (TOML detection from a reader is capped there)
    {
        let big = String::from_utf8(corpus::big_toml((2 << 20) - 64)).unwrap();
        // the same document cut down to a little over 2 000 000 bytes, and to half of it
        let cut_at = |n: usize| -> Vec<u8> {
            let t = &big[..n];
            t[..t.rfind("\n[").unwrap() + 1].as_bytes().to_vec()
        };
        for b in [big.clone().into_bytes(), cut_at(2_050_000), cut_at(1_000_000)] {
            acc.count("class_just_under_2mib");
            let (ds, ok_s) = transparency(&b, &Mode::Slice, Fmt::Json, "just_under_2mib", &mut acc);
            for m in [Mode::Reader(Sched::Fixed(65536)), Mode::Reader(Sched::All)] {
                let (dr, ok_r) = transparency(&b, &m, Fmt::Json, "just_under_2mib", &mut acc);
                if (ok_s || ok_r) && ds != dr {
                    acc.violation(Violation { sig: format!("slice detects {} but reader detects {} (input of {} bytes)", ds.map(|f| f.name()).unwrap_or("none"), dr.map(|f| f.name()).unwrap_or("none"), if b.len() > 2_000_000 { "2 000 000 .. 2 MiB" } else { "1 000 000" }), case: case_json(&b, &m, Fmt::Json, "just_under_2mib"), observed: format!("a TOML document of {} bytes translates successfully under detection; slice detected as {:?}, {} as {:?}", b.len(), ds.map(|f| f.name()), m.describe(), dr.map(|f| f.name())), expected: "the same format from a slice and from a reader".into() });
                }
            }
        }
    }
    // (e) detection does not depend on what the same Translator saw before: inputs that several formats accept
    //     (and xt's other ambiguity shapes), on a translator warmed up with a detected input of each format
    {
        let ambiguous: Vec<&[u8]> = vec![b"[1]", b"[a]", b"[a]\n", b"[\"a\"]", b"[[1]]", b"[a.b]\n", b"{}", b"[]", b"1 = 2\n", b"\"a\" = 1\n", b"a: b\n", b"k = \"a: b\"\n", b"{\"a\": 1}", b"{\"n\": -0}", b"{\"n\": -0.0}\n", b"[a, b]\n", b"a = 1\n", b"# c\na = 1\n", b"1\n", b"\"s\"\n", b"{\"s\": \"x\xc2\x85y\"}", b"{\"s\": \"x \xe2\x80\xa8 y\"}", b"[1e400]", b"[0x10]", b"[~]", b"[null]", b"\x91\x01", b"\xdc\x9c: 1\n", b"- 1\n", b""];
        let mut cases = vec![];
        for (wi, _) in crate::run::WARM_UPS.iter().enumerate() {
            for (ai, _) in ambiguous.iter().enumerate() {
                cases.push((wi, ai));
            }
        }
        let e_acc = crate::par::run(cases.len(), 8, |i, acc| {
            let (wi, ai) = cases[i];
            let (wname, warm) = crate::run::WARM_UPS[wi];
            let input = ambiguous[ai];
            for to in [Fmt::Json, Fmt::Yaml, Fmt::Msgpack] {
                for mode in [Mode::Slice, Mode::Reader(Sched::All), Mode::Reader(Sched::Fixed(3))] {
                    acc.evals += 1;
                    acc.count("detections_on_a_warmed_up_translator");
                    let fresh = run_mode(input, &mode, None, to);
                    for warms in [vec![warm], vec![warm, warm], vec![crate::run::WARM_UPS[(wi + 1) % 6].1, warm]] {
                        let got = crate::run::run_after(&warms, input, &mode, None, to);
                        if got.verdict.class() != fresh.verdict.class() || got.out != fresh.out {
                            acc.violation(Violation { sig: format!("detection depends on what the translator saw before (after {wname})"), case: json!({"part": "warm", "warm_up": wname, "input_hex": hex(input), "input_preview": preview(input, 60), "mode": mode.describe(), "to": to.name()}), observed: format!("after a detected {wname} input: {} [{}]; on a fresh translator: {} [{}]", got.verdict.show(), preview(&got.out, 80), fresh.verdict.show(), preview(&fresh.out, 80)), expected: "the same verdict and output as on a fresh translator".into() });
                            return;
                        }
                    }
                }
            }
        });
        acc.merge(e_acc);
    }
    handle_programs(ctx, &mut acc);
    let rule = format!("(a,b) {} mixed corpus inputs + {} inputs aimed at the detection trials (MessagePack collection markers followed by every kind of truncation, text starting with U+0700-U+07FF and other two-byte characters, inputs several formats accept, truncated seeds, JSON / YAML / TOML behind 1000..70001 bytes of white space, documents of each format behind a UTF-8 byte order mark or another invisible character, YAML / TOML text whose first bytes are a complete MessagePack array 16 / map 16, TOML documents of 1 000 000, 2 050 000 and just under 2 MiB bytes), each as a slice and under 4 read schedules, rotating target; (e) 30 inputs that several formats accept x a translator warmed up with a detected input of each format (and pairs of them) x 3 targets x slice/reader: verdict and output as on a fresh translator; (d) EVERY program of up to {} tokens over {{new borrow, read(n), prefix(n) : n in 0..=len+1}} x every data size 0..=6 x EVERY chunking of the source x both ways of taking ownership, plus the same programs on slice handles; distinct non-trivial = distinct inputs plus distinct programs of >= 2 tokens on >= 2 bytes", n_mixed, n_emph, if ctx.thorough() { 5 } else { 3 });
    let mut extra = serde_json::Map::new();
    extra.insert("handle_programs_exhaustive_up_to_tokens".into(), json!(if ctx.thorough() { 5 } else { 3 }));
    ev::finish(
        Finish { ctx, level: "exploration", rule, assumptions: vec!["the handle model is non-deterministic about how many bytes a read returns (1..=n) and how long a prefix is (>= min(n, len))".into(), "the harness reader injects no I/O errors in this check (C12 does)".into()], extra, exhaustive: false, min_distinct: 5000, must_reach: vec![("detections_on_a_warmed_up_translator".into(), 1000), ("handle_programs_run".into(), 100000), ("explicit_vs_detected_compared".into(), 10000), ("detected_none".into(), 100), ("INPUT_READER_CHAINED_PREFIX".into(), 1000), ("INPUT_SLICE_FROM_READER_EOF".into(), 1000)] },
        acc,
    )
}

pub fn replay(v: &Value) -> i32 {
    let c = &v["case"];
    if c["part"].as_str() == Some("warm") {
        let (Some(input), Some(mode), Some(to)) = (c["input_hex"].as_str().and_then(unhex), c["mode"].as_str().and_then(Mode::parse), c["to"].as_str().and_then(Fmt::parse)) else { return 2 };
        let Some((_, warm)) = crate::run::WARM_UPS.iter().find(|(n, _)| Some(*n) == c["warm_up"].as_str()) else { return 2 };
        let fresh = run_mode(&input, &mode, None, to);
        let got = crate::run::run_after(&[warm], &input, &mode, None, to);
        println!("fresh: {} [{}]\nafter {}: {} [{}]", fresh.verdict.show(), preview(&fresh.out, 200), c["warm_up"], got.verdict.show(), preview(&got.out, 200));
        return if got.verdict.class() != fresh.verdict.class() || got.out != fresh.out {
            println!("VIOLATION property=C09 replay=<this file> (reproduced)");
            1
        } else {
            println!("not reproduced");
            0
        };
    }
    if c["part"].as_str() == Some("handle") {
        let (Some(data), Some(prog)) = (c["data_hex"].as_str().and_then(unhex), c["program"].as_str().and_then(parse_prog)) else {
            println!("bad replay case");
            return 2;
        };
        let cuts: Vec<usize> = c["cuts"].as_array().map(|a| a.iter().filter_map(|x| x.as_u64().map(|x| x as usize)).collect()).unwrap_or_default();
        let r = run_program(&data, &cuts, &prog, c["final"].as_str() == Some("cow"), c["slice"].as_bool().unwrap_or(false));
        println!("data {:?} cuts {:?} program [{}] -> {:?}", data, cuts, prog_text(&prog), r);
        return if r.is_err() { println!("VIOLATION property=C09 replay=<this file> (reproduced)"); 1 } else { println!("not reproduced"); 0 };
    }
    let (Some(input), Some(mode), Some(to)) = (c["input_hex"].as_str().and_then(unhex), c["mode"].as_str().and_then(Mode::parse), c["to"].as_str().and_then(Fmt::parse)) else {
        println!("bad replay case");
        return 2;
    };
    let mut acc = Acc::default();
    let (ds, ok_s) = transparency(&input, &Mode::Slice, to, "replay", &mut acc);
    let (dm, ok_m) = transparency(&input, &mode, to, "replay", &mut acc);
    println!("input [{}] detect(slice)={} detect({})={}; detected translation succeeds: slice {}, reader {}", preview(&input, 300), show(&detect(&input, &Mode::Slice)), mode.describe(), show(&detect(&input, &mode)), ok_s, ok_m);
    if acc.vio_count > 0 || ((ok_s || ok_m) && ds != dm) {
        println!("VIOLATION property=C09 replay=<this file> (reproduced): {}", acc.violations.first().map(|v| v.observed.clone()).unwrap_or_else(|| "slice/reader detection disagree".into()));
        1
    } else {
        println!("not reproduced (or a listed known finding)");
        0
    }
}

//! xtv: one subcommand per property. `xtv cNN --tier quick|thorough --seed N`
//! or `xtv cNN --replay <file>`.

use xtv::ev::Ctx;

#[global_allocator]
static GLOBAL: xtv::alloc::CountingAlloc = xtv::alloc::CountingAlloc;

fn main() {
    let args: Vec<String> = std::env::args().collect();
    if args.len() < 2 {
        eprintln!("usage: xtv <c01..c18|selfcheck> [--tier quick|thorough] [--seed N] [--replay file]");
        std::process::exit(2);
    }
    let cmd = args[1].to_lowercase();
    let mut tier = std::env::var("VERIF_TIER").unwrap_or_else(|_| "quick".into());
    let mut seed: u64 = std::env::var("VERIF_SEED").ok().and_then(|s| s.parse().ok()).unwrap_or(0);
    let mut replay: Option<String> = None;
    let mut rest: Vec<String> = vec![];
    let mut i = 2;
    while i < args.len() {
        match args[i].as_str() {
            "--tier" => {
                tier = args[i + 1].clone();
                rest.push("--tier".into());
                rest.push(args[i + 1].clone());
                i += 1;
            }
            "--seed" => {
                seed = args[i + 1].parse().unwrap_or(0);
                rest.push("--seed".into());
                rest.push(args[i + 1].clone());
                i += 1;
            }
            "--replay" => {
                replay = Some(args[i + 1].clone());
                i += 1;
            }
            other => rest.push(other.to_string()),
        }
        i += 1;
    }
    if tier != "quick" && tier != "thorough" {
        tier = "quick".into();
    }
    xtv::run::install_quiet_panic_hook();
    xtv::procmon::no_core_dumps();
    if cmd == "selfcheck" {
        match xtv::selfcheck::run(seed, 20000) {
            Ok(n) => {
                println!("selfcheck ok: {n} round trips");
                std::process::exit(0)
            }
            Err(e) => {
                println!("{e}");
                std::process::exit(2)
            }
        }
    }
    // internal worker entry points
    if cmd == "c04-worker" {
        std::process::exit(xtv::c04::worker_main(&rest));
    }
    if cmd == "c07-enum" {
        std::process::exit(xtv::c07::enum_main(&rest));
    }
    if cmd == "c05-mem" {
        std::process::exit(xtv::c05::mem_main(&rest));
    }
    if cmd == "c18-inproc" {
        std::process::exit(xtv::c18::inproc_main(&rest));
    }
    macro_rules! dispatch {
        ($($name:literal => $m:ident, $id:literal);* $(;)?) => {
            match cmd.as_str() {
                $($name => {
                    if let Some(path) = &replay {
                        let text = std::fs::read_to_string(path).unwrap_or_else(|e| { eprintln!("cannot read {path}: {e}"); std::process::exit(2) });
                        let v: serde_json::Value = serde_json::from_str(&text).unwrap_or_else(|e| { eprintln!("bad replay file: {e}"); std::process::exit(2) });
                        std::process::exit(xtv::$m::replay(&v));
                    }
                    // harness self-check first: a broken speller/reader must never look like a violation
                    if let Err(e) = xtv::selfcheck::run(seed, 300) {
                        println!("INCONCLUSIVE property={} harness self-check failed: {e}", $id);
                        std::process::exit(2);
                    }
                    let ctx = Ctx::new($id, &tier, seed);
                    std::process::exit(xtv::$m::run(&ctx));
                })*
                _ => {
                    eprintln!("unknown command {cmd}");
                    std::process::exit(2);
                }
            }
        };
    }
    dispatch! {
        "c01" => c01, "C01"; "c02" => c02, "C02"; "c03" => c03, "C03"; "c04" => c04, "C04";
        "c05" => c05, "C05"; "c06" => c06, "C06"; "c07" => c07, "C07"; "c08" => c08, "C08";
        "c09" => c09, "C09"; "c10" => c10, "C10"; "c11" => c11, "C11"; "c12" => c12, "C12";
        "c13" => c13, "C13"; "c14" => c14, "C14"; "c15" => c15, "C15"; "c16" => c16, "C16";
        "c17" => c17, "C17"; "c18" => c18, "C18";
    }
}

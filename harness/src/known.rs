//! Known findings: genuine defects of the pinned tree that are recorded
//! rather than repaired. The committed file /verif/known_findings.json is the
//! authority: a classifier in a check may only suppress a violation if the
//! finding id it returns is listed there under "findings". Entries under
//! "fixed" document repairs and suppress nothing. Never written at run time.

use std::collections::BTreeMap;
use std::sync::OnceLock;

use serde_json::Value;

static FILE: OnceLock<BTreeMap<String, (String, String)>> = OnceLock::new();

fn load() -> &'static BTreeMap<String, (String, String)> {
    FILE.get_or_init(|| {
        let dir = std::env::var("XTV_VERIF_DIR").unwrap_or_else(|_| "/verif".into());
        let mut m = BTreeMap::new();
        if let Ok(s) = std::fs::read_to_string(format!("{dir}/known_findings.json")) {
            if let Ok(v) = serde_json::from_str::<Value>(&s) {
                if let Some(a) = v.get("findings").and_then(|x| x.as_array()) {
                    for f in a {
                        if let (Some(id), Some(p), Some(w)) = (f.get("id").and_then(|x| x.as_str()), f.get("property").and_then(|x| x.as_str()), f.get("what_fails").and_then(|x| x.as_str())) {
                            m.insert(id.to_string(), (p.to_string(), w.to_string()));
                        }
                    }
                }
            }
        }
        m
    })
}

/// True if finding `id` is listed for `prop` in known_findings.json.
pub fn listed(prop: &str, id: &str) -> bool {
    load().get(id).map(|(p, _)| p.split(',').any(|x| x.trim() == prop)).unwrap_or(false)
}

pub fn describe(id: &str) -> String {
    match load().get(id) {
        Some((_, w)) => format!("[{id}] {w}"),
        None => format!("[{id}]"),
    }
}

/// Classifier shared by C02 / C09 / C10 for the finding
/// `C09-yaml-trial-depends-on-read-ahead`: libyaml validates every character of
/// each block of input it is handed, so a character YAML forbids that lies
/// BEYOND the point where the YAML detection trial would stop (the start of the
/// second document, after a collection-rooted first document) makes the trial
/// fail when the bytes arrive in one piece and succeed when they arrive in small
/// pieces. True iff `input` has exactly that shape.
pub fn yaml_trial_read_ahead_shape(input: &[u8]) -> bool {
    match crate::read::yaml::first_forbidden_offset(input) {
        Some(p) if p > 0 => crate::read::yaml::collection_then_second_document(&input[..p]),
        _ => false,
    }
}

/// The same finding met by a check whose subject is not detection (C01, C03,
/// C08): the check chose detection for a call because detection of the SLICE
/// names the right format, delivered the bytes through a reader in small pieces,
/// and the call failed. True iff that failure is this recorded finding for
/// `prop`: source selection was detection, the bytes came through a reader, and
/// the input has the recorded shape.
pub fn read_ahead_failure(prop: &str, from_is_detection: bool, through_reader: bool, input: &[u8]) -> bool {
    from_is_detection && through_reader && listed(prop, "C09-yaml-trial-depends-on-read-ahead") && yaml_trial_read_ahead_shape(input)
}

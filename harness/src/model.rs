//! Harness-side document model.

use std::fmt::Write;

#[derive(Clone, Debug)]
pub enum Val {
    Null,
    Bool(bool),
    /// Integers; the common model is -2^63 ..= 2^64-1, larger ones are "oversized".
    Int(i128),
    /// binary64 by bit pattern.
    Float(u64),
    Str(String),
    Seq(Vec<Val>),
    Map(Vec<(Val, Val)>),
    // ---- extensions outside the common model ----
    Bytes(Vec<u8>),
    /// binary32 by bit pattern (MessagePack only).
    F32(u32),
    /// TOML date-time, by its text.
    Datetime(String),
    /// MessagePack extension (type, data).
    Ext(i8, Vec<u8>),
}

impl PartialEq for Val {
    fn eq(&self, other: &Val) -> bool {
        use Val::*;
        match (self, other) {
            (Null, Null) => true,
            (Bool(a), Bool(b)) => a == b,
            (Int(a), Int(b)) => a == b,
            (Float(a), Float(b)) => {
                a == b || (f64::from_bits(*a).is_nan() && f64::from_bits(*b).is_nan())
            }
            (Str(a), Str(b)) => a == b,
            (Seq(a), Seq(b)) => a == b,
            (Map(a), Map(b)) => a == b,
            (Bytes(a), Bytes(b)) => a == b,
            (F32(a), F32(b)) => {
                a == b || (f32::from_bits(*a).is_nan() && f32::from_bits(*b).is_nan())
            }
            (Datetime(a), Datetime(b)) => a == b,
            (Ext(a, b), Ext(c, d)) => a == c && b == d,
            _ => false,
        }
    }
}

impl Val {
    pub fn f(x: f64) -> Val {
        Val::Float(x.to_bits())
    }
    pub fn s(x: &str) -> Val {
        Val::Str(x.to_string())
    }
    pub fn is_map(&self) -> bool {
        matches!(self, Val::Map(_))
    }
    pub fn is_collection(&self) -> bool {
        matches!(self, Val::Map(_) | Val::Seq(_))
    }
    pub fn depth(&self) -> usize {
        match self {
            Val::Seq(v) => 1 + v.iter().map(|x| x.depth()).max().unwrap_or(0),
            Val::Map(m) => 1 + m.iter().map(|(k, v)| k.depth().max(v.depth())).max().unwrap_or(0),
            _ => 0,
        }
    }
    pub fn nodes(&self) -> usize {
        match self {
            Val::Seq(v) => 1 + v.iter().map(|x| x.nodes()).sum::<usize>(),
            Val::Map(m) => 1 + m.iter().map(|(k, v)| k.nodes() + v.nodes()).sum::<usize>(),
            _ => 1,
        }
    }
    /// True if every node is in the common data model (string keys only).
    pub fn is_common(&self) -> bool {
        match self {
            Val::Null | Val::Bool(_) | Val::Str(_) => true,
            Val::Int(i) => *i >= -(1i128 << 63) && *i < (1i128 << 64),
            Val::Float(b) => f64::from_bits(*b).is_finite(),
            Val::Seq(v) => v.iter().all(|x| x.is_common()),
            Val::Map(m) => m.iter().all(|(k, v)| matches!(k, Val::Str(_)) && v.is_common()),
            _ => false,
        }
    }
    pub fn any<F: Fn(&Val) -> bool + Copy>(&self, f: F) -> bool {
        if f(self) {
            return true;
        }
        match self {
            Val::Seq(v) => v.iter().any(|x| x.any(f)),
            Val::Map(m) => m.iter().any(|(k, v)| k.any(f) || v.any(f)),
            _ => false,
        }
    }
    /// Representable in TOML as a whole document of the common model: root table,
    /// no null, ints within i64, string keys.
    pub fn toml_ok(&self) -> bool {
        self.is_map() && self.is_common() && !self.any(|v| match v {
            Val::Null => true,
            Val::Int(i) => *i > i64::MAX as i128,
            _ => false,
        })
    }
    /// A compact, unambiguous debug rendering used in samples and replay files.
    pub fn show(&self) -> String {
        let mut s = String::new();
        self.show_into(&mut s);
        s
    }
    fn show_into(&self, s: &mut String) {
        match self {
            Val::Null => s.push_str("null"),
            Val::Bool(b) => {
                let _ = write!(s, "{b}");
            }
            Val::Int(i) => {
                let _ = write!(s, "{i}");
            }
            Val::Float(b) => {
                let _ = write!(s, "f64:{:?}/{:016x}", f64::from_bits(*b), b);
            }
            Val::F32(b) => {
                let _ = write!(s, "f32:{:?}/{:08x}", f32::from_bits(*b), b);
            }
            Val::Str(x) => {
                let _ = write!(s, "{:?}", x);
            }
            Val::Bytes(b) => {
                let _ = write!(s, "bytes:{}", hex(b));
            }
            Val::Datetime(d) => {
                let _ = write!(s, "datetime:{d}");
            }
            Val::Ext(t, b) => {
                let _ = write!(s, "ext{}:{}", t, hex(b));
            }
            Val::Seq(v) => {
                s.push('[');
                for (i, x) in v.iter().enumerate() {
                    if i > 0 {
                        s.push_str(", ");
                    }
                    x.show_into(s);
                }
                s.push(']');
            }
            Val::Map(m) => {
                s.push('{');
                for (i, (k, v)) in m.iter().enumerate() {
                    if i > 0 {
                        s.push_str(", ");
                    }
                    k.show_into(s);
                    s.push_str(": ");
                    v.show_into(s);
                }
                s.push('}');
            }
        }
    }
}

pub fn hex(b: &[u8]) -> String {
    let mut s = String::with_capacity(b.len() * 2);
    for x in b {
        let _ = write!(s, "{:02x}", x);
    }
    s
}

pub fn unhex(s: &str) -> Option<Vec<u8>> {
    let s = s.as_bytes();
    if s.len() % 2 != 0 {
        return None;
    }
    let d = |c: u8| -> Option<u8> {
        match c {
            b'0'..=b'9' => Some(c - b'0'),
            b'a'..=b'f' => Some(c - b'a' + 10),
            b'A'..=b'F' => Some(c - b'A' + 10),
            _ => None,
        }
    };
    let mut out = Vec::with_capacity(s.len() / 2);
    for p in s.chunks(2) {
        out.push(d(p[0])? * 16 + d(p[1])?);
    }
    Some(out)
}

/// Printable preview of bytes for evidence samples.
pub fn preview(b: &[u8], max: usize) -> String {
    let cut = &b[..b.len().min(max)];
    let mut s = String::new();
    for &c in cut {
        match c {
            b'\n' => s.push_str("\\n"),
            b'\r' => s.push_str("\\r"),
            b'\t' => s.push_str("\\t"),
            b'\\' => s.push_str("\\\\"),
            0x20..=0x7e => s.push(c as char),
            _ => {
                let _ = write!(s, "\\x{:02x}", c);
            }
        }
    }
    if b.len() > max {
        let _ = write!(s, "...(+{} bytes)", b.len() - max);
    }
    s
}

/// TOML reorder matching: `actual` (read back from TOML output) must equal
/// `expected` except that at every table level the entries may appear as
/// (non-table entries, then table entries), each group in input order. Arrays
/// that hold tables may count on either side, or form their own group between
/// the two (which is what the toml crate's writer does: plain values, then
/// arrays containing a table, then tables, each kind in input order); the
/// identity order is accepted as well.
pub fn toml_match(expected: &Val, actual: &Val) -> bool {
    match (expected, actual) {
        (Val::Map(e), Val::Map(a)) => {
            if e.len() != a.len() {
                return false;
            }
            let is_aot = |v: &Val| matches!(v, Val::Seq(s) if !s.is_empty() && s.iter().all(|x| x.is_map()));
            let has_table = |v: &Val| matches!(v, Val::Seq(s) if s.iter().any(|x| x.is_map()));
            let orders: [Vec<usize>; 5] = [
                (0..e.len()).collect(),
                {
                    let mut o: Vec<usize> = (0..e.len()).filter(|&i| !e[i].1.is_map()).collect();
                    o.extend((0..e.len()).filter(|&i| e[i].1.is_map()));
                    o
                },
                {
                    let mut o: Vec<usize> = (0..e.len()).filter(|&i| !e[i].1.is_map() && !is_aot(&e[i].1)).collect();
                    o.extend((0..e.len()).filter(|&i| e[i].1.is_map() || is_aot(&e[i].1)));
                    o
                },
                {
                    // what the toml crate's writer does: plain values, then arrays that
                    // contain a table, then tables; each kind in input order
                    let mut o: Vec<usize> = (0..e.len()).filter(|&i| !e[i].1.is_map() && !has_table(&e[i].1)).collect();
                    o.extend((0..e.len()).filter(|&i| has_table(&e[i].1)));
                    o.extend((0..e.len()).filter(|&i| e[i].1.is_map()));
                    o
                },
                {
                    // ... followed by pretty-printing, which hoists arrays made only of
                    // tables into [[header]] sections after the remaining inline arrays
                    let mut o: Vec<usize> = (0..e.len()).filter(|&i| !e[i].1.is_map() && !has_table(&e[i].1)).collect();
                    o.extend((0..e.len()).filter(|&i| has_table(&e[i].1) && !is_aot(&e[i].1)));
                    o.extend((0..e.len()).filter(|&i| is_aot(&e[i].1)));
                    o.extend((0..e.len()).filter(|&i| e[i].1.is_map()));
                    o
                },
            ];
            // Keys are compared first (cheap); the values are then compared once, for
            // the first order whose key sequence fits. Trying every order recursively
            // would be exponential in the depth when a deep leaf differs.
            let Some(o) = orders.iter().find(|o| o.iter().zip(a.iter()).all(|(&i, (ak, _))| &e[i].0 == ak)) else { return false };
            o.iter().zip(a.iter()).all(|(&i, (_, av))| toml_match(&e[i].1, av))
        }
        (Val::Seq(e), Val::Seq(a)) => e.len() == a.len() && e.iter().zip(a.iter()).all(|(x, y)| toml_match(x, y)),
        _ => expected == actual,
    }
}

/// Explains where `toml_match` fails (first failing level), for reports.
pub fn toml_diff(expected: &Val, actual: &Val, path: &str) -> Option<String> {
    if toml_match(expected, actual) {
        return None;
    }
    match (expected, actual) {
        (Val::Map(e), Val::Map(a)) => {
            let ek: Vec<String> = e.iter().map(|(k, _)| k.show()).collect();
            let ak: Vec<String> = a.iter().map(|(k, _)| k.show()).collect();
            let mut es = ek.clone();
            let mut as_ = ak.clone();
            es.sort();
            as_.sort();
            if es != as_ {
                return Some(format!("{path}: key sets differ: expected {:?} got {:?}", ek, ak));
            }
            // same key set: find a value mismatch by key
            for (k, v) in e {
                if let Some((_, av)) = a.iter().find(|(ak, _)| ak == k) {
                    if let Some(d) = toml_diff(v, av, &format!("{path}.{}", k.show())) {
                        return Some(d);
                    }
                }
            }
            Some(format!("{path}: entry order not permitted: input order {:?}, output order {:?}", ek, ak))
        }
        (Val::Seq(e), Val::Seq(a)) => {
            if e.len() != a.len() {
                return Some(format!("{path}: array length {} vs {}", e.len(), a.len()));
            }
            for (i, (x, y)) in e.iter().zip(a).enumerate() {
                if let Some(d) = toml_diff(x, y, &format!("{path}[{i}]")) {
                    return Some(d);
                }
            }
            None
        }
        _ => Some(format!("{path}: expected {} got {}", expected.show(), actual.show())),
    }
}

#[cfg(test)]
mod tests {
    use super::*;
    #[test]
    fn toml_match_orders() {
        let e = Val::Map(vec![
            (Val::s("t"), Val::Map(vec![])),
            (Val::s("a"), Val::Int(1)),
        ]);
        let a = Val::Map(vec![
            (Val::s("a"), Val::Int(1)),
            (Val::s("t"), Val::Map(vec![])),
        ]);
        assert!(toml_match(&e, &a));
        assert!(toml_match(&e, &e));
        let bad = Val::Map(vec![
            (Val::s("a"), Val::Int(2)),
            (Val::s("t"), Val::Map(vec![])),
        ]);
        assert!(!toml_match(&e, &bad));
    }
}

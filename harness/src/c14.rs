//! C14 — not built yet.
use crate::ev::Ctx;
pub fn run(_ctx: &Ctx) -> i32 {
    println!("INCONCLUSIVE property=C14 check not built yet");
    2
}
pub fn replay(_case: &serde_json::Value) -> i32 {
    println!("replay not built yet");
    2
}

//! C14 — CLI source-format resolution and agreement with the library.
//!
//! Inputs with every extension spelling in every letter case, multi-dot names,
//! no or misleading extensions, contents of every format, as regular files
//! (mmap), FIFOs and standard input ('-' at each position, '-' twice), with and
//! without -f, for all targets. The expected source format is -f, else the last
//! extension, else detection; stdout must equal what the library produces for
//! the same bytes in the matching supply mode.

use std::collections::BTreeMap;

use serde_json::{json, Value};

use crate::climodel::{self, PathKind};
use crate::corpus::valid_stream;
use crate::ev::{self, Acc, Ctx, Finish, Violation};
use crate::fmts::{Fmt, ALL};
use crate::gen::{Classes, GenOpts};
use crate::model::{hex, preview, unhex};
use crate::procmon::{self, Run, Scratch, StdinKind, StdoutKind};
use crate::rng::Rng;
use crate::spell::Feats;

const EXTS: &[&str] = &["json", "yaml", "yml", "toml", "msgpack"];

fn random_case(s: &str, rng: &mut Rng) -> String {
    s.chars().map(|c| if rng.chance(1, 2) { c.to_ascii_uppercase() } else { c }).collect()
}

#[derive(Clone, Debug)]
pub struct Input {
    pub name: String, // "-" for standard input
    pub kind: &'static str, // regular | fifo | stdin | directory | missing
    pub content: Vec<u8>,
}

#[derive(Clone, Debug)]
pub struct Case {
    pub from: Option<Fmt>,
    pub to: Fmt,
    pub inputs: Vec<Input>,
    pub stdin: Vec<u8>,
    /// None: standard input is a pipe. Some(prefix): it is a regular file that
    /// holds prefix + stdin, with the file offset already past the prefix.
    pub stdin_file_prefix: Option<Vec<u8>>,
    /// Some(seed): pipes and FIFOs deliver their content in 2-3 bursts with pauses.
    pub bursts: Option<u64>,
}

fn cut_bursts(content: &[u8], seed: u64) -> Vec<Vec<u8>> {
    let mut rng = Rng::new(seed ^ content.len() as u64);
    if content.len() < 2 {
        return vec![content.to_vec()];
    }
    let nl: Vec<usize> = content.iter().enumerate().filter(|(i, b)| **b == b'\n' && *i + 1 < content.len()).map(|(i, _)| i + 1).collect();
    let mut cuts: Vec<usize> = (0..rng.range(1, 2)).map(|_| if !nl.is_empty() && rng.chance(2, 3) { *rng.pick(&nl) } else { 1 + rng.below(content.len() - 1) }).collect();
    cuts.sort();
    cuts.dedup();
    let mut out = vec![];
    let mut at = 0;
    for c in cuts.into_iter().chain([content.len()]) {
        if c > at {
            out.push(content[at..c].to_vec());
            at = c;
        }
    }
    out
}

fn content(rng: &mut Rng, cl: &mut Classes) -> (Vec<u8>, &'static str) {
    let o = GenOpts { max_depth: 3, max_width: 3, ..GenOpts::common() };
    let mut feats = Feats::default();
    match rng.below(10) {
        0 => ((*rng.pick(&[&b"[1]"[..], b"{}", b"1 = 2\n", b"\"a\" = 1\n", b"[a]\n", b"a: b\n", b"k = \"a: b\"\n", b"", b"", b"\n", b"# only a comment\n", b"{a: 1}\n", b"{'k': 'v', n: [1, 2,]}\n", b"[a, b]\n", b"{\n  a: 1, # why\n  b: 2\n}\n", b"\xef\xbb\xbfk: v\n"])).to_vec(), "valid_in_several_formats"),
        1 => ((*rng.pick(&[&b"{\"a\": [}"[..], b"\x01\x02 nothing", b"a: [unclosed\n", b"= 1\n", b"\xc1"])).to_vec(), "invalid"),
        2 if rng.chance(1, 3) => {
            // a large document: a multi-line string far above the stdout buffer whose last line is long, and
            // enough entries for tens of KiB of output in every target
            use crate::model::Val;
            let lines = rng.range(1200, 2400);
            let tail = rng.range(1100, 3000);
            let text = format!("{}{}", "line of text\n".repeat(lines), "y".repeat(tail));
            let list: Vec<Val> = (0..rng.range(200, 400)).map(|i| Val::Str(format!("entry number {i}\nwith a second line {}", "z".repeat(i % 40)))).collect();
            let doc = Val::Map(vec![(Val::s("text"), Val::Str(text)), (Val::s("list"), Val::Seq(list)), (Val::s("n"), Val::Int(7))]);
            let f = ALL[rng.below(4)];
            (crate::spell::spell(f, &doc, rng, &mut feats, true), "large_multiline_content")
        }
        _ => {
            let f = ALL[rng.below(4)];
            let n = if f == Fmt::Toml { 1 } else { *rng.pick(&[1usize, 1, 2, 3]) };
            let (b, _) = valid_stream(f, n, rng, &mut feats, cl, &o);
            (b, match f { Fmt::Json => "json_content", Fmt::Yaml => "yaml_content", Fmt::Toml => "toml_content", Fmt::Msgpack => "msgpack_content" })
        }
    }
}

pub fn gen_case(seed: u64, idx: usize, acc: &mut Acc) -> Case {
    let mut rng = Rng::derive(seed, 0xc14, idx as u64);
    let mut cl = Classes::default();
    let from = if rng.chance(1, 3) { Some(ALL[rng.below(4)]) } else { None };
    let to = ALL[rng.below(4)];
    // one invocation in sixty names 25-40 FIFOs (run under a limit of 20 open descriptors: each input is
    // opened when its turn comes and closed when it is done)
    let many_fifos = rng.chance(1, 60);
    let n = if many_fifos { rng.range(25, 40) } else { *rng.pick(&[1usize, 1, 1, 2, 3]) };
    if many_fifos {
        acc.count("invocations_with_dozens_of_fifos");
    }
    let mut inputs = vec![];
    let mut stdin = vec![];
    for i in 0..n {
        let (mut bytes, cclass) = content(&mut rng, &mut cl);
        acc.count(&format!("content_{cclass}"));
        let documentless = crate::read::yaml::read_docs(&bytes).map(|d| d.is_empty()).unwrap_or(false);
        if documentless {
            acc.count(if bytes.is_empty() { "content_zero_length" } else { "content_blank_or_comment_only" });
        }
        let kind = match rng.below(12) {
            _ if many_fifos => "fifo",
            0 | 1 | 2 => "stdin",
            3 | 4 => "fifo",
            5 if n > 1 => "directory",
            6 if n > 1 => "missing",
            _ => "regular",
        };
        // a file of the proc file system: regular, reported size 0, mapping it fails (EIO or ENODEV) - the
        // reader fallback must take over; the content is whatever this machine has there
        if !many_fifos && rng.chance(1, 40) {
            let name = *rng.pick(&["/proc/version", "/proc/sys/kernel/ostype", "/proc/filesystems", "/proc/cmdline"]);
            if let Ok(b) = std::fs::read(name) {
                acc.count("content_of_a_procfs_file");
                inputs.push(Input { name: name.into(), kind: "procfs", content: b });
                continue;
            }
        }
        if many_fifos {
            // plain valid documents: the subject here is only when inputs are opened and closed
            inputs.push(Input { name: format!("in{i}.json"), kind: "fifo", content: format!("{{\"input\": {i}, \"of\": {n}}}\n").into_bytes() });
            continue;
        }
        if kind == "stdin" {
            // (standard input is read through a reader: the recorded slice-only finding does not apply)
            if !inputs.iter().any(|x: &Input| x.kind == "stdin") {
                stdin = bytes.clone();
            }
            inputs.push(Input { name: "-".into(), kind, content: bytes });
            continue;
        }
        let e1: &str = EXTS[rng.below(EXTS.len())];
        let e2: &str = EXTS[rng.below(EXTS.len())];
        let e1c = random_case(e1, &mut rng);
        let ext = match rng.below(11) {
            10 => {
                // a format's one-letter option alias is NOT a recognised extension: content decides
                acc.count("extension_is_a_one_letter_alias");
                format!(".{}", rng.pick(&["j", "m", "t", "y", "J", "Y"]))
            }
            0 => String::new(),
            1 => ".txt".into(),
            2 => format!(".tar.{e1c}"),
            3 => format!(".{e1}.bak"),
            4 => format!(".{e2}.{e1c}"),
            _ => format!(".{e1c}"),
        };
        acc.count(&format!("extension_kind_{}", match ext.matches('.').count() { 0 => "none", 1 => "single", _ => "multi_dot" }));
        if ext.chars().any(|c| c.is_ascii_uppercase()) {
            acc.count("extension_with_upper_case");
        }
        // one name in ten carries a byte that is not UTF-8 (procmon::os_name turns U+FFFD into 0xE9)
        let name = if rng.chance(1, 10) {
            acc.count("input_names_not_utf8");
            format!("in{i}\u{fffd}{ext}")
        } else {
            format!("in{i}{ext}")
        };
        // a document-less YAML file read as a SLICE is a recorded C02 finding: keep exactly that combination out
        if documentless && kind == "regular" && from.or_else(|| climodel::extension_format(&name)) == Some(Fmt::Yaml) {
            bytes = b"a: 1\n".to_vec();
        }
        inputs.push(Input { name, kind, content: bytes });
    }
    // standard input as a regular file (shell redirection), also with bytes before the current offset
    let stdin_file_prefix = match rng.below(6) {
        0 => Some(vec![]),
        1 => Some((*rng.pick(&[&b"{\"skipped\": true}\n"[..], b"[0]", b"x", b"--- skipped\n", b"\x93\x01\x02\x03"])).to_vec()),
        2 => {
            // a whole page or buffer of earlier bytes
            let n = *rng.pick(&[4096usize, 8192, 5000]);
            Some(vec![b'\n'; n])
        }
        _ => None,
    };
    let bursts = if rng.chance(1, 5) { Some(rng.next()) } else { None };
    Case { from, to, inputs, stdin, stdin_file_prefix, bursts }
}

pub fn judge(case: &Case, acc: &mut Acc) {
    acc.evals += 1;
    let sc = Scratch::new();
    let mut files: BTreeMap<String, PathKind> = BTreeMap::new();
    let mut fifo_threads = vec![];
    let mut argv: Vec<String> = vec![];
    if let Some(f) = case.from {
        argv.push(format!("-f{}", f.letter()));
    }
    argv.push("-t".into());
    argv.push(case.to.name().into());
    for inp in &case.inputs {
        match inp.kind {
            "stdin" => {}
            "regular" => {
                sc.file(&inp.name, &inp.content);
                files.insert(inp.name.clone(), PathKind::Regular(inp.content.clone()));
            }
            "procfs" => {
                // exists already; the model reads it through a reader, like a FIFO
                files.insert(inp.name.clone(), PathKind::Fifo(inp.content.clone()));
            }
            "fifo" => {
                sc.fifo(&inp.name);
                files.insert(inp.name.clone(), PathKind::Fifo(inp.content.clone()));
            }
            "directory" => {
                let _ = std::fs::create_dir_all(sc.path().join(procmon::os_name(&inp.name)));
                files.insert(inp.name.clone(), PathKind::Directory);
            }
            _ => {
                files.insert(inp.name.clone(), PathKind::Missing);
            }
        }
        argv.push(inp.name.clone());
    }
    let exp = climodel::emulate(case.from, case.to, &case.inputs.iter().map(|i| i.name.clone()).collect::<Vec<_>>(), &files, &case.stdin, &StdoutKind::Pipe);
    // FIFOs are fed only as far as the model says xt will get (an earlier failure means later FIFOs are never
    // opened) - except with dozens of FIFOs, where every one gets its writer (a feeder whose FIFO is never
    // opened gives up by itself after ten seconds): there the subject is the order of opening and closing
    let reached = if case.inputs.len() >= 25 { usize::MAX } else { exp.inputs.len() + 1 };
    for (n, inp) in case.inputs.iter().enumerate() {
        if inp.kind == "fifo" && n < reached {
            match case.bursts {
                Some(bs) => {
                    acc.count("fifo_delivered_in_bursts");
                    fifo_threads.push(procmon::feed_fifo_bursts(sc.path().join(procmon::os_name(&inp.name)), cut_bursts(&inp.content, bs), 20));
                }
                None => fifo_threads.push(procmon::feed_fifo(sc.path().join(procmon::os_name(&inp.name)), inp.content.clone())),
            }
        }
    }
    let stdin = match &case.stdin_file_prefix {
        None => match case.bursts {
            Some(bs) if case.inputs.iter().any(|i| i.kind == "stdin") => {
                acc.count("stdin_delivered_in_bursts");
                StdinKind::Bursts(cut_bursts(&case.stdin, bs), 20)
            }
            _ => StdinKind::Bytes(case.stdin.clone()),
        },
        Some(prefix) => {
            if case.inputs.iter().any(|i| i.kind == "stdin") {
                acc.count(if prefix.is_empty() { "stdin_is_regular_file_at_offset_0" } else { "stdin_is_regular_file_at_later_offset" });
            }
            let mut whole = prefix.clone();
            whole.extend_from_slice(&case.stdin);
            StdinKind::FileAtOffset(whole, prefix.len() as u64)
        }
    };
    let r = Run { bin: &procmon::release_bin(), argv: argv.clone(), cwd: sc.path(), stdin, stdout: StdoutKind::Pipe, wall_secs: 30, cpu_secs: 20 };
    let out = if case.inputs.len() >= 25 { procmon::run_nofile(r, 20) } else { procmon::run(r) };
    for inp in &exp.inputs {
        acc.count(&format!("resolved_{}_{}", inp.1, inp.2));
    }
    for inp in &case.inputs {
        acc.count(&format!("input_kind_{}", inp.kind));
    }
    if case.inputs.iter().filter(|i| i.kind == "stdin").count() >= 2 {
        acc.count("stdin_named_twice");
    }
    if matches!(out.status, procmon::Status::Timeout | procmon::Status::SpawnError(_)) {
        acc.inconclusive += 1;
        acc.count("runs_ended_by_the_watchdog");
        return;
    }
    if let Err(e) = climodel::judge_run(&out, &exp) {
        acc.violation(Violation {
            sig: format!("{}", ev::truncate(&crate::c02_mask(&e), 90)),
            case: json!({"from": case.from.map(|f| f.name()), "to": case.to.name(), "stdin_hex": hex(&case.stdin), "stdin_file_prefix_hex": case.stdin_file_prefix.as_ref().map(|p| hex(p)), "bursts": case.bursts, "inputs": case.inputs.iter().map(|i| json!({"name": i.name, "kind": i.kind, "content_hex": hex(&i.content), "content_preview": preview(&i.content, 80)})).collect::<Vec<_>>()}),
            observed: format!("{e}; argv {:?}; status {}, stdout [{}], stderr [{}]", argv, out.status.show(), preview(&out.stdout, 120), preview(&out.stderr, 160)),
            expected: format!("exit {} ({}); inputs resolved as {:?}", exp.exit, exp.why, exp.inputs),
        });
    }
    // do not leave feeder threads blocked on FIFOs nobody opened
    drop(sc);
    let _ = fifo_threads;
}

/// Evidence only: how the binary obtained its input, as seen by strace.
fn strace_sample(acc: &mut Acc) {
    let sc = Scratch::new();
    sc.file("s.json", b"{\"a\": 1}\n");
    let bin = procmon::release_bin();
    let run = |args: &[&str], stdin: Option<&[u8]>| -> String {
        let mut cmd = std::process::Command::new("strace");
        cmd.arg("-e").arg("trace=mmap,read,openat").arg(&bin).args(args).current_dir(sc.path()).stdout(std::process::Stdio::null()).stderr(std::process::Stdio::piped());
        cmd.stdin(if stdin.is_some() { std::process::Stdio::piped() } else { std::process::Stdio::null() });
        let Ok(mut ch) = cmd.spawn() else { return String::new() };
        if let (Some(b), Some(mut si)) = (stdin, ch.stdin.take()) {
            use std::io::Write;
            let _ = si.write_all(b);
        }
        ch.wait_with_output().map(|o| String::from_utf8_lossy(&o.stderr).into_owned()).unwrap_or_default()
    };
    let file_trace = run(&["s.json"], None);
    let stdin_trace = run(&[], Some(b"{\"a\": 1}\n"));
    let mapped = file_trace.lines().filter(|l| l.contains("mmap(") && l.contains("MAP_SHARED") && l.contains("PROT_READ")).count();
    let read0 = stdin_trace.lines().filter(|l| l.starts_with("read(0,")).count();
    acc.add("strace_regular_file_shared_read_mappings", mapped as u64);
    acc.add("strace_stdin_read_calls", read0 as u64);
}

pub fn run(ctx: &Ctx) -> i32 {
    let n = ctx.size(5000, 300000);
    let seed = ctx.seed;
    let mut acc = crate::par::run(n, 8, |i, acc| {
        let case = gen_case(seed, i, acc);
        acc.distinct(&format!("{:?}", case));
        acc.sample_every(499, || json!({"from": case.from.map(|f| f.name()), "to": case.to.name(), "inputs": case.inputs.iter().map(|x| json!({"name": x.name, "kind": x.kind, "content_preview": preview(&x.content, 60)})).collect::<Vec<_>>()}));
        judge(&case, acc);
    });
    strace_sample(&mut acc);
    let rule = format!("{} invocations: -f absent or each format x 1-3 inputs, each a regular file / FIFO / '-' (also twice; standard input a pipe, or a regular file at offset 0 or past earlier bytes; one run in five delivers pipe and FIFO content in bursts with pauses) / directory / missing file / (one in 40) a procfs file, which is regular, reports size 0 and cannot be mapped, named with every extension in random letter case, multi-dot, none, misleading or a one-letter format alias (which is no extension), holding content of each format (1-3 generated documents), content valid in several formats, large documents with long multi-line strings (tens of KiB of output), or invalid content, x all targets; one invocation in 60 names 25-40 FIFOs holding plain valid documents and runs under a limit of 20 open descriptors (each input is opened at its turn and closed when done); expected stdout and exit status computed by the library in the matching supply mode; distinct non-trivial = distinct invocations", n);
    ev::finish(
        Finish { ctx, level: "exploration", rule, assumptions: vec!["document-less YAML regular files are kept out (recorded C02 finding)".into(), "strace counters are evidence that both supply modes were really observed, not an oracle".into()], extra: serde_json::Map::new(), exhaustive: false, min_distinct: 1000, must_reach: vec![("input_kind_fifo".into(), 200), ("input_kind_stdin".into(), 200), ("input_kind_regular".into(), 1000), ("extension_with_upper_case".into(), 500), ("extension_kind_multi_dot".into(), 200), ("stdin_named_twice".into(), 20), ("resolved_detect_slice".into(), 100), ("resolved_detect_reader".into(), 100), ("stdin_is_regular_file_at_later_offset".into(), 100), ("stdin_is_regular_file_at_offset_0".into(), 50), ("stdin_delivered_in_bursts".into(), 50), ("fifo_delivered_in_bursts".into(), 50), ("content_zero_length".into(), 100), ("input_names_not_utf8".into(), 100), ("content_large_multiline_content".into(), 100), ("input_kind_procfs".into(), 50), ("invocations_with_dozens_of_fifos".into(), 30), ("extension_is_a_one_letter_alias".into(), 100)] },
        acc,
    )
}

pub fn replay(v: &Value) -> i32 {
    let c = &v["case"];
    let mut inputs = vec![];
    for i in c["inputs"].as_array().cloned().unwrap_or_default() {
        let kind: &'static str = match i["kind"].as_str() {
            Some("fifo") => "fifo",
            Some("procfs") => "procfs",
            Some("stdin") => "stdin",
            Some("directory") => "directory",
            Some("missing") => "missing",
            _ => "regular",
        };
        inputs.push(Input { name: i["name"].as_str().unwrap_or("x").into(), kind, content: i["content_hex"].as_str().and_then(unhex).unwrap_or_default() });
    }
    let Some(to) = c["to"].as_str().and_then(Fmt::parse) else { return 2 };
    let case = Case { from: c["from"].as_str().and_then(Fmt::parse), to, inputs, stdin: c["stdin_hex"].as_str().and_then(unhex).unwrap_or_default(), stdin_file_prefix: c["stdin_file_prefix_hex"].as_str().and_then(unhex), bursts: c["bursts"].as_u64() };
    let mut acc = Acc::default();
    judge(&case, &mut acc);
    if acc.vio_count > 0 {
        println!("VIOLATION property=C14 replay=<this file> (reproduced): {}", acc.violations[0].observed);
        1
    } else {
        println!("not reproduced");
        0
    }
}

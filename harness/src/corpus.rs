//! Byte-level corpora shared by the differential, fault and sanitizer checks:
//! valid single- and multi-document streams, their mutations, exhaustive token
//! sequences over per-format alphabets, random bytes and hand-written hostile
//! seeds.

use crate::fmts::Fmt;
use crate::gen::{gen_doc, tomlify, Classes, GenOpts};
use crate::model::Val;
use crate::rng::Rng;
use crate::spell::yaml::{spell_doc_with, DocOpts, Intro};
use crate::spell::{spell, Feats};

#[derive(Clone, Debug)]
pub struct Item {
    pub bytes: Vec<u8>,
    pub class: &'static str,
    /// The format the bytes were written in (valid streams and their mutants).
    pub fmt: Option<Fmt>,
    /// Number of documents for valid streams.
    pub docs: usize,
}

pub fn json_sep_ok(prev: &[u8], next: &[u8]) -> bool {
    let p = prev.iter().rev().find(|c| !c.is_ascii_whitespace());
    let n = next.iter().find(|c| !c.is_ascii_whitespace());
    matches!(p, Some(b']' | b'}' | b'"')) || matches!(n, Some(b'[' | b'{' | b'"'))
}

/// Joins separately spelled documents into one stream of format `f`, with a
/// randomly chosen separator style the format allows.
pub fn join_stream(f: Fmt, docs: &[Vec<u8>], rng: &mut Rng, feats: &mut Feats) -> Vec<u8> {
    let mut out = vec![];
    match f {
        Fmt::Json => {
            for (i, d) in docs.iter().enumerate() {
                if i > 0 {
                    let seps: [&[u8]; 6] = [b"\n", b" ", b"\n\n", b"\r\n", b"\t", b""];
                    let mut s = *rng.pick(&seps);
                    if s.is_empty() {
                        if json_sep_ok(&docs[i - 1], d) {
                            feats.hit("json_no_separator");
                        } else {
                            s = b"\n";
                        }
                    }
                    out.extend_from_slice(s);
                }
                out.extend_from_slice(d);
            }
            if rng.chance(1, 2) {
                out.push(b'\n');
            }
        }
        Fmt::Msgpack => {
            for d in docs {
                out.extend_from_slice(d);
            }
        }
        Fmt::Yaml => {
            // documents are spelled by yaml_stream(); plain concatenation here
            for d in docs {
                out.extend_from_slice(d);
            }
        }
        Fmt::Toml => {
            for d in docs {
                out.extend_from_slice(d);
            }
        }
    }
    out
}

/// Spells a YAML multi-document stream with every separator style libyaml
/// accepts: `---`, `--- value`, `...` followed by `---`, comments on and
/// between marker lines, blank lines, directives.
pub fn yaml_stream(docs: &[Val], rng: &mut Rng, feats: &mut Feats, plain: bool) -> Vec<u8> {
    let mut out = String::new();
    for (i, d) in docs.iter().enumerate() {
        let intro = if i == 0 && (plain || rng.chance(1, 2)) {
            Intro::Implicit
        } else if plain {
            Intro::Marker
        } else {
            match rng.below(6) {
                0 | 1 | 2 => Intro::Marker,
                3 | 4 => Intro::MarkerInline,
                _ => Intro::Directive,
            }
        };
        // a directive needs the previous document to be closed with `...`
        let prev_needs_end = intro == Intro::Directive && i > 0 && !out.ends_with("...\n");
        if prev_needs_end {
            out.push_str("...\n");
        }
        if i > 0 && !plain {
            match rng.below(8) {
                0 => {
                    feats.hit("yaml_comment_between_docs");
                    out.push_str("# between documents\n");
                }
                1 => out.push('\n'),
                _ => {}
            }
        }
        let opts = DocOpts { intro, end_marker: !plain && rng.chance(1, 6), root_indent: 0, leading_comment: false };
        out.push_str(&spell_doc_with(d, rng, feats, plain, &opts));
    }
    out.into_bytes()
}

/// A valid stream of `n` generated documents in format `f` (n is forced to 1
/// for TOML). Returns the bytes and the documents.
pub fn valid_stream(f: Fmt, n: usize, rng: &mut Rng, feats: &mut Feats, cl: &mut Classes, opts: &GenOpts) -> (Vec<u8>, Vec<Val>) {
    let n = if f == Fmt::Toml { 1 } else { n };
    let mut docs = vec![];
    while docs.len() < n {
        let d = gen_doc(rng, opts, cl);
        if f == Fmt::Toml {
            match tomlify(&d) {
                Some(t) => docs.push(t),
                None => continue,
            }
        } else {
            docs.push(d);
        }
    }
    let bytes = if f == Fmt::Yaml {
        yaml_stream(&docs, rng, feats, false)
    } else {
        let spelled: Vec<Vec<u8>> = docs.iter().map(|d| spell(f, d, rng, feats, false)).collect();
        join_stream(f, &spelled, rng, feats)
    };
    (bytes, docs)
}

pub fn mutate(b: &[u8], rng: &mut Rng) -> (Vec<u8>, &'static str) {
    let mut v = b.to_vec();
    if v.is_empty() {
        return (rng.bytes(3), "mut_random");
    }
    match rng.below(8) {
        0 => {
            let i = rng.below(v.len());
            v[i] ^= 1 << rng.below(8);
            (v, "mut_bitflip")
        }
        1 => {
            let i = rng.below(v.len());
            v.remove(i);
            (v, "mut_delete_byte")
        }
        2 => {
            let i = rng.below(v.len() + 1);
            v.insert(i, rng.next() as u8);
            (v, "mut_insert_byte")
        }
        3 => {
            let i = rng.below(v.len());
            v.truncate(i);
            (v, "mut_truncate")
        }
        4 => {
            // duplicate a span
            let a = rng.below(v.len());
            let l = rng.range(1, (v.len() - a).min(16));
            let span = v[a..a + l].to_vec();
            let at = rng.below(v.len() + 1);
            for (k, c) in span.into_iter().enumerate() {
                v.insert(at + k, c);
            }
            (v, "mut_duplicate_span")
        }
        5 => {
            // delete a span
            let a = rng.below(v.len());
            let l = rng.range(1, (v.len() - a).min(16));
            v.drain(a..a + l);
            (v, "mut_delete_span")
        }
        6 => {
            // insert a structural token
            let toks: [&[u8]; 16] = [b"{", b"}", b"[", b"]", b",", b":", b"\"", b"'", b"---\n", b"...\n", b"- ", b"\n", b" ", b"#", b"&a ", b"*a"];
            let t = *rng.pick(&toks);
            let at = rng.below(v.len() + 1);
            for (k, c) in t.iter().enumerate() {
                v.insert(at + k, *c);
            }
            (v, "mut_insert_token")
        }
        _ => {
            let i = rng.below(v.len());
            v[i] = *rng.pick(&[0u8, 0x7f, 0x80, 0xc1, 0xff, 0xfe, 0xdc, 0x92, b'\n', b'"']);
            (v, "mut_set_byte")
        }
    }
}

pub fn alphabet(f: Fmt) -> Vec<&'static [u8]> {
    match f {
        Fmt::Json => vec![b"{", b"}", b"[", b"]", b",", b":", b"\"a\"", b"1", b"-1", b"1.5", b"true", b"null", b" ", b"\n"],
        Fmt::Yaml => vec![b"---", b"...", b"- ", b"? ", b": ", b",", b"[", b"]", b"{", b"}", b"a", b"\"a\"", b"'a'", b" #c", b"&x ", b"*x", b"!t ", b"|", b">", b"\n", b"  ", b"1"],
        Fmt::Toml => vec![b"[", b"]", b"[[", b"]]", b"=", b".", b",", b"{", b"}", b"\"a\"", b"'a'", b"a", b"1", b"1.5", b"true", b" #c", b"\n", b" "],
        Fmt::Msgpack => vec![b"\x01", b"\xff", b"\xc0", b"\xc1", b"\xc3", b"\xa1", b"a", b"\x91", b"\x92", b"\x81", b"\x82", b"\xcc", b"\xcd", b"\xd9", b"\xc4", b"\xdc", b"\xde", b"\xca", b"\xd4", b"\xc7", b"\x00", b"\xdd", b"\xdf"],
    }
}

/// Number of token sequences of exactly `len` tokens.
pub fn token_seq_count(f: Fmt, len: usize) -> usize {
    alphabet(f).len().pow(len as u32)
}

/// The idx-th token sequence of exactly `len` tokens over the alphabet of `f`.
pub fn token_seq(f: Fmt, len: usize, mut idx: usize) -> Vec<u8> {
    let a = alphabet(f);
    let mut out = vec![];
    for _ in 0..len {
        out.extend_from_slice(a[idx % a.len()]);
        idx /= a.len();
    }
    out
}

/// Hand-written hostile seeds, including the witnesses of every defect found
/// during design (D1-D9).
/// Extra seeds kept in a data file (src/seeds_extra.txt): rare but legal forms of every format.
fn extra_seeds() -> Vec<Item> {
    let mut v = vec![];
    for line in include_str!("seeds_extra.txt").lines() {
        if line.starts_with('#') || line.len() < 2 {
            continue;
        }
        let fmt = match line.as_bytes()[0] {
            b'j' => Fmt::Json,
            b'y' => Fmt::Yaml,
            b't' => Fmt::Toml,
            b'm' => Fmt::Msgpack,
            _ => continue,
        };
        let body = line[2..].as_bytes();
        let mut out = Vec::with_capacity(body.len());
        let mut i = 0;
        while i < body.len() {
            if body[i] == b'\\' && i + 1 < body.len() {
                match body[i + 1] {
                    b'n' => { out.push(b'\n'); i += 2; }
                    b'r' => { out.push(b'\r'); i += 2; }
                    b't' => { out.push(b'\t'); i += 2; }
                    b'\\' => { out.push(b'\\'); i += 2; }
                    b'x' if i + 4 <= body.len() => {
                        let h = std::str::from_utf8(&body[i + 2..i + 4]).ok().and_then(|h| u8::from_str_radix(h, 16).ok());
                        match h {
                            Some(b) => { out.push(b); i += 4; }
                            None => { out.push(body[i]); i += 1; }
                        }
                    }
                    _ => { out.push(body[i]); i += 1; }
                }
            } else {
                out.push(body[i]);
                i += 1;
            }
        }
        v.push(Item { bytes: out, class: "seed", fmt: Some(fmt), docs: 0 });
    }
    v
}

pub fn seeds() -> Vec<Item> {
    let mut v: Vec<Item> = extra_seeds();
    let mut add = |b: &[u8], f: Option<Fmt>| v.push(Item { bytes: b.to_vec(), class: "seed", fmt: f, docs: 0 });
    let j = Some(Fmt::Json);
    let y = Some(Fmt::Yaml);
    let t = Some(Fmt::Toml);
    let m = Some(Fmt::Msgpack);
    for s in [
        "", " ", "\n", "truefalse", "1 2", "1[2]", "[1]2", "nullnull", "\"a\"\"b\"", "1true", "{\"a\":1,\"a\":2}", "123456789012345.67", "2.2250738585072011e-308", "[1,]", "{", "[", "\"", "\"\\ud800\"", "\"\\udc00\\ud800\"", "-", "-0", "1e999", "18446744073709551616", "-9223372036854775809", "{\"a\":{\"b\":[1,2,{\"c\":null}]}}", "[[[[[[[[[[1]]]]]]]]]]", "\u{feff}1", "1 \u{feff}", "// c\n1", "NaN", "Infinity", "{\"\":1}", "[\"\\u0000\"]",
    ] {
        add(s.as_bytes(), j);
    }
    for s in [
        "a: 1\n", "- 1\n- 2\n", "  - 1\n  - 2\n", "  a: 1\n  b: 2\n", "# only a comment\n", "\n\n", "---\n", "---\n---\n", "...\n", "--- 1\n--- 2\n", "*y", "&a [*a]", "? \n", "\n? ", "a: &x 1\nb: *x\n", "a: !!binary aGk=\n", "\u{feff}a: 1\n", "a: 1\n\u{feff}b: 2\n", "a: 1\n--- \u{feff}\nb: 2\n", "\u{700}: 1\n", "key: [unterminated\n", "a: b: c\n", "%YAML 1.2\n---\na\n", "%YAML 1.1\n---\nyes\n", "a:\n\t- 1\n", "? [1, 2]\n: x\n", "~: 1\n", "{a: 1, b: [2, 3]}\n", "[a, [b, [c]]]\n", "|\n  text\n", ">-\n  folded\n  text\n", "a: 1\n...\n---\nb: 2\n", "a: 1\n... # c\n--- # c\nb: 2\n", "- !!str 1\n- !!int '2'\n- !!float 3\n", "&a a: &b b\n*a : *b\n", "<<: {a: 1}\nb: 2\n", "'a\n\n  b'\n", "\"a\\\n  b\"\n", "a: 'it''s'\n", "- - - - a\n", "a:\n  b:\n    c:\n      d: 1\n", "1: 2\n", "true: false\n", "null: null\n", "[a]: b\n", "{a: b}: c\n", "- a\n- b\n...\ngarbage: [\n",
        // directives that are USED by the document they precede, alone and in multi-document streams
        "%TAG !e! tag:example.com,2000:app/\n---\na: !e!foo 1\n", "%TAG !! tag:example.com,2000:app/\n---\na: !!int 1\n", "%TAG ! tag:example.com,2000:\n---\na: !x 1\n", "a: 1\n...\n%TAG !e! tag:example.com,2000:app/\n---\nb: !e!foo 2\n---\nc: 3\n", "%YAML 1.1\n%TAG !e! tag:e.com,2000:\n--- !e!t\nk: v\n...\n%YAML 1.1\n---\nk: w\n",
        // other line break conventions
        "a: 1\r\nb:\r\n  - x\r\n  - y\r\n", "a: 1\rb:\r  - x\r  - y\r", "--- a\r--- b\r--- c\r", "k: |\r\n  one\r\n  two\r\n",
        // tiny streams
        "a", "7", "-", "~", "[", "!", "&", "|", ">", "%", "@", "`", "'", "#", ":", "?", ",",
    ] {
        add(s.as_bytes(), y);
    }
    for s in [
        "a = 1\n", "[a]\n", "[a]\nb = 1\n", "\"a\" = 1\n", "1 = 2\n", "k = \"a: b\"\n", "a.b.c = 1\n", "[[a]]\nb = 1\n[[a]]\nb = 2\n", "a = [1, 2.0, \"x\"]\n", "a = { b = 1, c = { d = 2 } }\n", "d = 1979-05-27T07:32:00Z\n", "f = inf\ng = nan\n", "s = '''\nraw\n'''\n", "a = 1\na = 2\n", "= 1\n", "a = \n", "[a]\n[a]\n", "a = 0x7fffffffffffffff\n", "a = 9223372036854775808\n", "# c\n", "a=1", "\"\" = 1\n", "a = \"\\u0000\"\n",
    ] {
        add(s.as_bytes(), t);
    }
    let mp: [&[u8]; 26] = [
        b"\x92\x01", b"\x92\x01\x02", b"\x81\xa1a\x01", b"\x81\xa1a", b"\x81", b"\x90", b"\x80", b"\xdc\x00\x01\x01", b"\xdc\x00", b"\xdd\xff\xff\xff\xff", b"\xdf\xff\xff\xff\xff", b"\xdb\xff\xff\xff\xff", b"\xc6\xff\xff\xff\xff", b"\xc9\xff\xff\xff\xff\x01", b"\xc1", b"\x91\xc1", b"\x91\xc4\x02hi", b"\x81\xc0\x01", b"\x81\x91\x01\x02", b"\x92\xca\x3f\x80\x00\x00\xcb\x3f\xf0\x00\x00\x00\x00\x00\x00", b"\x91\xd4\x01\x02", b"\x93\x01\x02", b"\x91\xa3ab", b"\x91\xa2\xff\xfe", b"\x01\x02\x03", b"\x91\xcf\xff\xff\xff\xff\xff\xff\xff\xff",
    ];
    for b in mp {
        add(b, m);
    }
    // UTF-16 / UTF-32 YAML
    let text = "a: 1\nb: [x, y]\n";
    let mut u16le: Vec<u8> = vec![];
    let mut u16be: Vec<u8> = vec![];
    let mut u32le: Vec<u8> = vec![];
    let mut u32be: Vec<u8> = vec![];
    for c in text.encode_utf16() {
        u16le.extend_from_slice(&c.to_le_bytes());
        u16be.extend_from_slice(&c.to_be_bytes());
    }
    for c in text.chars() {
        u32le.extend_from_slice(&(c as u32).to_le_bytes());
        u32be.extend_from_slice(&(c as u32).to_be_bytes());
    }
    add(&u16le, y);
    add(&u16be, y);
    add(&u32le, y);
    add(&u32be, y);
    let mut bom16 = vec![0xff, 0xfe];
    bom16.extend_from_slice(&u16le);
    add(&bom16, y);
    let mut odd = u16le.clone();
    odd.pop();
    add(&odd, y);
    add(&[0x61, 0x00, 0x00, 0xd8], y); // lone lead at EOF
    add(&[0x61, 0x00, 0x00, 0xdc, 0x0a, 0x00], y); // lone trail
    v
}

/// Picks one corpus item by index from a deterministic mixed stream:
/// valid streams, mutants, seeds, random bytes. Token sequences are enumerated
/// separately by the checks that want them exhaustively.
pub fn mixed_item(seed: u64, idx: usize, opts: &GenOpts) -> Item {
    let mut rng = Rng::derive(seed, 0xc0a9, idx as u64);
    let seeds = seeds();
    let mut feats = Feats::default();
    let mut cl = Classes::default();
    match rng.below(20) {
        0 | 1 => {
            let s = &seeds[idx % seeds.len()];
            s.clone()
        }
        2 | 3 => {
            let s = &seeds[rng.below(seeds.len())];
            let (b, c) = mutate(&s.bytes, &mut rng);
            Item { bytes: b, class: c, fmt: s.fmt, docs: 0 }
        }
        4 => {
            let n = rng.range(0, 40);
            Item { bytes: rng.bytes(n), class: "random_bytes", fmt: None, docs: 0 }
        }
        5 | 6 | 7 | 8 | 9 | 10 | 11 => {
            let f = *rng.pick(&crate::fmts::ALL);
            let n = *rng.pick(&[1usize, 1, 1, 2, 3, 5]);
            let (b, d) = valid_stream(f, n, &mut rng, &mut feats, &mut cl, opts);
            let docs = d.len();
            Item { bytes: b, class: if docs > 1 { "valid_multi" } else { "valid_single" }, fmt: Some(f), docs }
        }
        12 | 13 | 14 | 15 | 16 => {
            let f = *rng.pick(&crate::fmts::ALL);
            let n = *rng.pick(&[1usize, 1, 2, 3]);
            let (b, _) = valid_stream(f, n, &mut rng, &mut feats, &mut cl, opts);
            let (mut mb, mut c) = mutate(&b, &mut rng);
            if rng.chance(1, 4) {
                let (m2, c2) = mutate(&mb, &mut rng);
                mb = m2;
                c = c2;
            }
            Item { bytes: mb, class: c, fmt: Some(f), docs: 0 }
        }
        17 => {
            // splice of two valid documents of possibly different formats
            let f1 = *rng.pick(&crate::fmts::ALL);
            let f2 = *rng.pick(&crate::fmts::ALL);
            let (a, _) = valid_stream(f1, 1, &mut rng, &mut feats, &mut cl, opts);
            let (b, _) = valid_stream(f2, 1, &mut rng, &mut feats, &mut cl, opts);
            let ca = rng.below(a.len() + 1);
            let cb = rng.below(b.len() + 1);
            let mut out = a[..ca].to_vec();
            out.extend_from_slice(&b[cb..]);
            Item { bytes: out, class: "splice", fmt: Some(f1), docs: 0 }
        }
        _ => {
            // short token sequence of random length 1..8 (the exhaustive short
            // ones are enumerated separately)
            let f = *rng.pick(&crate::fmts::ALL);
            let a = alphabet(f);
            let n = rng.range(1, 8);
            let mut out = vec![];
            for _ in 0..n {
                out.extend_from_slice(*rng.pick(&a));
            }
            Item { bytes: out, class: "random_tokens", fmt: Some(f), docs: 0 }
        }
    }
}

/// Schedules used wherever a reader is involved.
pub fn schedules(input: &[u8], rng: &mut Rng, n_random: usize) -> Vec<crate::mon::Sched> {
    use crate::mon::Sched;
    let mut v = vec![Sched::All, Sched::One];
    let fixed = [2usize, 3, 5, 7, 13, 4096, 8191, 8192, 8193];
    v.push(Sched::Fixed(*rng.pick(&fixed)));
    for _ in 0..n_random {
        v.push(Sched::Random(rng.next(), *rng.pick(&[3usize, 16, 100, 10000])));
    }
    // boundary cuts: around every non-ASCII byte, backslash, newline, '-' runs
    let mut cuts = vec![];
    for (i, &c) in input.iter().enumerate() {
        if c >= 0x80 || c == b'\\' || c == b'\n' || c == b'-' || c == b'.' || c == b'u' {
            cuts.push(i);
            cuts.push(i + 1);
        }
    }
    cuts.sort();
    cuts.dedup();
    cuts.retain(|&c| c > 0 && c < input.len());
    if !cuts.is_empty() && cuts.len() <= 4096 {
        // a random subset so that cuts are not everywhere
        let sub: Vec<usize> = cuts.iter().copied().filter(|_| rng.chance(1, 2)).collect();
        v.push(Sched::Cuts(sub));
    }
    v
}

/// YAML text whose multi-byte characters fall on every alignment around the
/// read sizes of the layers below (8 KiB BufReader, 16 KiB libyaml raw buffer),
/// long enough that a read following a straddled character is a full one.
/// `variant` selects the boundary, the alignment and the character mix.
pub fn boundary_yaml_text(variant: usize) -> String {
    let boundaries = [8192usize, 16384, 24576, 32768];
    let boundary = boundaries[variant % 4];
    let align = (variant / 4) % 8; // 0..7 bytes before the boundary
    let units = ["é", "中", "😀", "é中", "😀é"];
    let unit = units[(variant / 32) % 5];
    // "k: \"" is 4 bytes; pad so that a run of multi-byte characters starts `align` bytes before the boundary
    let pad = boundary - 4 - align;
    let mut t = String::with_capacity(boundary * 2 + 64);
    t.push_str("k: \"");
    t.push_str(&"x".repeat(pad));
    t.push_str(&unit.repeat(16));
    // enough further text for the next reads to be full ones
    t.push_str(&"y".repeat(20000));
    t.push_str("\"\n");
    t
}

/// One valid TOML document (many small tables) of at most `limit` bytes, ending at a table boundary.
/// Its first lines make the YAML detection trial give up early (two `key = value # comment` lines: the
/// comment ends what libyaml would otherwise scan as one plain scalar reaching to the end of the input),
/// so detection from a reader gets to the TOML trial with almost nothing buffered.
pub fn big_toml(limit: usize) -> Vec<u8> {
    let mut big = String::from("# big\n[t0]\na = 1 # one\nb = 2 # two\n");
    loop {
        let piece = format!("[t{}]\nk = \"aaaaaaaaaaaaaaaaaaaaaaaaaaaaaaaaaaaaaaaaaaaaaaaaaaaaaaaaaaaa\"\n", big.len());
        if big.len() + piece.len() > limit {
            break;
        }
        big.push_str(&piece);
    }
    big.into_bytes()
}

//! C02 — the result is independent of input source and read schedule.
//!
//! Differential monitor: the same bytes and formats through translate_slice
//! and through translate_reader under many read schedules. Verdict classes must
//! agree; on success the bytes must be identical; on failure the partial
//! outputs must be prefix-comparable. No reference implementation is involved.

use serde_json::{json, Value};

use crate::corpus::{self, Item};
use crate::ev::{self, Acc, Ctx, Finish, Violation};
use crate::fmts::{self, Fmt, ALL, ALL_FROM};
use crate::gen::GenOpts;
use crate::known;
use crate::model::{hex, preview, unhex};
use crate::mon::Sched;
use crate::rng::Rng;
use crate::run::{prefix_comparable, run_reader, run_slice, Outcome, Verdict};

fn case_json(input: &[u8], from: Option<Fmt>, to: Fmt, sched: &Sched, class: &str) -> Value {
    json!({
        "input_hex": hex(input),
        "input_preview": preview(input, 200),
        "from": fmts::from_name(from),
        "to": to.name(),
        "schedule": sched.describe(),
        "class": class,
    })
}

/// A reader that is interrupted now and then (ErrorKind::Interrupted, nothing delivered, the next call
/// proceeds): xt may answer with an error, but if it reports success the output must be the slice's,
/// and a failing input must still fail.
pub fn compare_interrupted(input: &[u8], from: Option<Fmt>, to: Fmt, every: u64, class: &str, s: &Outcome, acc: &mut Acc) {
    // Only with the source format named: a detection trial that meets an I/O error answers "not this
    // format" (the YAML trial does so for any reader error; a persistent fault then resurfaces in a later
    // trial, a transient one does not), so an interruption can change the DETECTED format. The properties
    // speak of short reads and of readers that start failing, not of transient errors during detection.
    if from.is_none() {
        return;
    }
    let mut out = Vec::new();
    let rd = crate::mon::SchedReader::new(input, Sched::Fixed(5)).with_interrupts(every);
    let v = crate::run::guarded(|| xt::translate_reader(rd, from.map(Fmt::xt), to.xt(), &mut out));
    acc.evals += 1;
    acc.count(&format!("interrupted_reader_{}", v.class()));
    // Any error is an allowed answer to an interruption: xt may take it for a failure of whatever it was
    // doing at that moment (a detection trial answers "not this format", a parser gives up). What may not
    // happen: success with other output than the slice's, success where the slice fails, a panic.
    let problem = if v.is_panic() {
        Some(format!("panic: {}", v.show()))
    } else if v.is_err() {
        None
    } else if s.verdict.is_ok() != v.is_ok() {
        Some(format!("slice: {} | interrupted reader: {}", s.verdict.show(), v.show()))
    } else if v.is_ok() && out != s.out {
        Some(format!("both succeed but the output differs: slice [{}] | interrupted reader [{}]", preview(&s.out, 120), preview(&out, 120)))
    } else {
        None
    };
    if let Some(observed) = problem {
        // the recorded slice-vs-reader findings also show against this reader
        let r = Outcome { verdict: v.clone(), out: out.clone() };
        if let Some(id) = classify(input, from, to, s, &r) {
            if known::listed("C02", id) {
                acc.known(id, || format!("input [{}] from={} to={} interrupted reader", preview(input, 60), fmts::from_name(from), to.name()));
                return;
            }
        }
        acc.violation(Violation { sig: format!("{}->{} reader interrupted every {every} calls: differs from the slice", fmts::from_name(from), to.name()), case: json!({"input_hex": hex(input), "input_preview": preview(input, 200), "from": fmts::from_name(from), "to": to.name(), "interrupt_every": every, "class": class}), observed, expected: "the slice's verdict and output, or an error".into() });
    }
}

/// The same property at the command line: the same bytes as a file operand (memory-mapped), on a pipe, as a
/// regular file on standard input at offset 0 and behind bytes someone else consumed, and through a FIFO
/// operand. Status and stdout must not depend on which it was (the source format is named, so that the
/// recorded slice-vs-reader findings, which are about detection and degenerate streams, stay out).
pub fn cli_sources(seed: u64, idx: usize, acc: &mut Acc) {
    use crate::procmon::{self, Run, Scratch, Status, StdinKind, StdoutKind};
    let mut rng = Rng::derive(seed, 0xc02c, idx as u64);
    let src = fmts::STREAMING[idx % 3];
    let to = ALL[(idx / 3) % 4];
    let mut feats = crate::spell::Feats::default();
    let mut cl = crate::gen::Classes::default();
    let o = GenOpts { max_depth: 3, max_width: 4, ..GenOpts::common() };
    // sizes: small, around the 8 KiB / 64 KiB buffers, and above a megabyte
    let n_docs = if to == Fmt::Toml { 1 } else { *rng.pick(&[1usize, 3, 40, 400, 8000]) };
    let (bytes, _) = corpus::valid_stream(src, n_docs, &mut rng, &mut feats, &mut cl, &o);
    if bytes.is_empty() || crate::read::read_stream(src, &bytes).map(|d| d.is_empty()).unwrap_or(true) {
        return;
    }
    let sc = Scratch::new();
    let name = format!("in.{}", src.name());
    sc.file(&name, &bytes);
    let bin = procmon::release_bin();
    let base: Vec<String> = vec!["-f".into(), src.name().into(), "-t".into(), to.name().into()];
    let with = |extra: &[&str]| -> Vec<String> { base.iter().cloned().chain(extra.iter().map(|s| s.to_string())).collect() };
    let prefix: Vec<u8> = match rng.below(3) {
        0 => b"{\"someone else\": \"read this\"}\n".to_vec(),
        1 => vec![b'\n'; 8192],
        _ => vec![b'#'; 5000],
    };
    let mut whole = prefix.clone();
    whole.extend_from_slice(&bytes);
    let run = |argv: Vec<String>, stdin: StdinKind| procmon::run(Run { bin: &bin, argv, cwd: sc.path(), stdin, stdout: StdoutKind::File, wall_secs: 120, cpu_secs: 60 });
    let reference = run(with(&[&name]), StdinKind::Null);
    sc.fifo("pipe.in");
    let feeder = procmon::feed_fifo(sc.path().join("pipe.in"), bytes.clone());
    let runs = vec![
        ("pipe on standard input", run(with(&[]), StdinKind::Bytes(bytes.clone()))),
        ("regular file on standard input, offset 0", run(with(&["-"]), StdinKind::FileAtOffset(bytes.clone(), 0))),
        ("regular file on standard input, behind bytes already consumed", run(with(&[]), StdinKind::FileAtOffset(whole, prefix.len() as u64))),
        ("FIFO operand", run(with(&["pipe.in"]), StdinKind::Null)),
    ];
    let _ = feeder;
    acc.evals += 1;
    acc.count("cli_source_comparisons");
    acc.max("largest_cli_input_bytes", bytes.len() as u64);
    if bytes.len() >= 1 << 20 {
        acc.count("cli_source_comparisons_above_1_mib");
    }
    if matches!(reference.status, Status::Timeout | Status::SpawnError(_)) {
        acc.inconclusive += 1;
        return;
    }
    for (how, r) in runs {
        if matches!(r.status, Status::Timeout | Status::SpawnError(_)) {
            acc.inconclusive += 1;
            continue;
        }
        if r.status != reference.status || r.stdout != reference.stdout {
            // the recorded slice-vs-reader findings show at the command line too (file operand = slice)
            let sl = run_slice(&bytes, Some(src), to);
            let (rd, _) = run_reader(&bytes, &Sched::All, Some(src), to);
            if let Some(id) = classify(&bytes, Some(src), to, &sl, &rd) {
                if known::listed("C02", id) {
                    acc.known(id, || format!("command line: input [{}] {}->{}: {how} vs file operand", preview(&bytes, 60), src.name(), to.name()));
                    return;
                }
            }
            let at = r.stdout.iter().zip(reference.stdout.iter()).position(|(a, b)| a != b).unwrap_or(r.stdout.len().min(reference.stdout.len()));
            acc.violation(Violation { sig: format!("command line {}->{}: {} differs from the file operand", src.name(), to.name(), how), case: json!({"part": "cli_sources", "seed": seed, "index": idx}), observed: format!("{how}: status {}, {} bytes; file operand: status {}, {} bytes; first difference at byte {at}: [{}] vs [{}]; stderr [{}]", r.status.show(), r.stdout.len(), reference.status.show(), reference.stdout.len(), preview(&r.stdout[at.min(r.stdout.len())..], 60), preview(&reference.stdout[at.min(reference.stdout.len())..], 60), preview(&r.stderr, 120)), expected: "the same status and output whatever carries the bytes".into() });
            return;
        }
    }
}

/// Classifies a disagreement as one of the recorded known findings, if it has
/// exactly that finding's signature.
fn classify(input: &[u8], from: Option<Fmt>, to: Fmt, s: &Outcome, r: &Outcome) -> Option<&'static str> {
    // Under detection only: the YAML trial's verdict depends on read-ahead when a
    // character YAML forbids lies beyond the point where the trial stops.
    if from.is_none() && known::yaml_trial_read_ahead_shape(input) {
        return Some("C09-yaml-trial-depends-on-read-ahead");
    }
    let src = from.or_else(|| xt::verif::detect_slice(input).ok().flatten().map(Fmt::from_xt));
    // D2: a JSON scalar literal immediately followed by the start of another
    // value: strict from a slice, lenient from a reader.
    if src == Some(Fmt::Json) {
        if let (Verdict::Err(e), true) = (&s.verdict, r.verdict.is_ok() || r.verdict.is_err()) {
            if e.starts_with("trailing characters at line") && adjacent_scalar_at_error(input, e) {
                return Some("C02-json-adjacent-scalars");
            }
        }
        // the toml crate's reserved date-time key as an ordinary JSON key, to TOML: the slice path writes a
        // table with that key, the reader path (Deserialize into toml::Value) takes the table for a date-time
        if to == Fmt::Toml && s.verdict.is_ok() && input.windows(24).any(|w| w == b"$__toml_private_datetime") && std::str::from_utf8(&s.out).map(|t| t.contains("$__toml_private_datetime")).unwrap_or(false) {
            let reader_side = match &r.verdict {
                Verdict::Ok => !String::from_utf8_lossy(&r.out).contains("$__toml_private_datetime"),
                Verdict::Err(e) => e.contains("datetime"),
                _ => false,
            };
            if reader_side {
                return Some("C02-toml-private-datetime-key");
            }
        }
        // D5: repeated key to TOML: accepted from a slice, refused from a reader.
        if to == Fmt::Toml && s.verdict.is_ok() {
            if let Verdict::Err(e) = &r.verdict {
                if e.contains("duplicate key") {
                    return Some("C02-json-duplicate-key-toml");
                }
            }
        }
    }
    if src == Some(Fmt::Yaml) {
        // D4: a YAML stream without any document.
        if let Verdict::Err(_) = &s.verdict {
            if r.verdict.is_ok() && r.out.is_empty() {
                if let Ok(docs) = crate::read::yaml::read_docs(input) {
                    if docs.is_empty() {
                        return Some("C02-yaml-documentless-stream");
                    }
                }
            }
        }
    }
    None
}

/// For serde_json's "trailing characters at line L column C": true if the byte
/// at that position directly follows a scalar literal (number, true, false,
/// null) with no whitespace in between.
fn adjacent_scalar_at_error(input: &[u8], e: &str) -> bool {
    let nums: Vec<usize> = e.split(|c: char| !c.is_ascii_digit()).filter(|x| !x.is_empty()).filter_map(|x| x.parse().ok()).collect();
    if nums.len() < 2 {
        return false;
    }
    let (line, col) = (nums[0], nums[1]);
    // locate byte offset of (line, col), 1-based, col counts bytes
    let mut off = 0usize;
    let mut l = 1;
    while l < line {
        match input[off..].iter().position(|&c| c == b'\n') {
            Some(p) => off += p + 1,
            None => return false,
        }
        l += 1;
    }
    let pos = off + col.saturating_sub(1);
    if pos == 0 || pos >= input.len() {
        return false;
    }
    let prev = input[pos - 1];
    let cur = input[pos];
    (prev.is_ascii_alphanumeric() || prev == b'.') && !cur.is_ascii_whitespace()
}

pub fn compare(input: &[u8], from: Option<Fmt>, to: Fmt, sched: &Sched, class: &str, s: &Outcome, acc: &mut Acc) {
    let (r, rlog) = run_reader(input, sched, from, to);
    acc.evals += 1;
    acc.add("read_calls", rlog.calls);
    acc.count(&format!("pair_{}_{}", s.verdict.class(), r.verdict.class()));
    let problem: Option<(String, String)> = if s.verdict.class() != r.verdict.class() {
        Some((format!("slice: {} | reader: {}", s.verdict.show(), r.verdict.show()), "same verdict class from slice and reader".into()))
    } else if s.verdict.is_ok() && s.out != r.out {
        Some((format!("both Ok; slice output {} bytes [{}], reader output {} bytes [{}]", s.out.len(), preview(&s.out, 120), r.out.len(), preview(&r.out, 120)), "byte-identical output".into()))
    } else if s.verdict.is_err() && !prefix_comparable(&s.out, &r.out) {
        Some((format!("both Err; partial outputs not prefix-comparable: slice [{}] reader [{}]", preview(&s.out, 120), preview(&r.out, 120)), "prefix-comparable partial outputs".into()))
    } else {
        None
    };
    if rlog.reads_after_eof > crate::mon::EOF_READ_LIMIT {
        acc.count("hang_guard_fired");
    }
    if let Some((observed, expected)) = problem {
        if let Some(id) = classify(input, from, to, s, &r) {
            if known::listed("C02", id) {
                acc.known(id, || format!("input [{}] from={} to={} {}", preview(input, 60), fmts::from_name(from), to.name(), sched.describe()));
                return;
            }
        }
        let sig = format!("{}->{} slice={} reader={} :: {}", fmts::from_name(from), to.name(), s.verdict.class(), r.verdict.class(), sig_text(&s.verdict, &r.verdict));
        acc.violation(Violation { sig, case: case_json(input, from, to, sched, class), observed, expected });
    }
}

fn mask_digits(s: &str) -> String {
    let mut o = String::new();
    let mut in_num = false;
    for c in s.chars() {
        if c.is_ascii_digit() {
            if !in_num {
                o.push('#');
            }
            in_num = true;
        } else {
            in_num = false;
            o.push(c);
        }
    }
    o
}

fn sig_text(s: &Verdict, r: &Verdict) -> String {
    let t = if s.is_ok() { r.text() } else { s.text() };
    ev::truncate(&mask_digits(t), 70)
}

fn froms_for(item: &Item) -> Vec<Option<Fmt>> {
    match item.fmt {
        Some(f) if item.class.starts_with("valid") => vec![Some(f), None],
        Some(f) => vec![Some(f), None, ALL_FROM[(item.bytes.len() + 1) % 4]],
        None => ALL_FROM.to_vec(),
    }
}

pub fn run(ctx: &Ctx) -> i32 {
    let n_mixed = ctx.size(2500, 300000);
    let max_tok = if ctx.thorough() { 5 } else { 4 };
    let opts = GenOpts::common();
    // work list: mixed items, then token sequences per format and length
    let mut tok_ranges: Vec<(Fmt, usize, usize, usize)> = vec![]; // (fmt, len, start index in global numbering, count)
    let mut total = n_mixed;
    for f in ALL {
        for len in 1..=max_tok {
            let c = corpus::token_seq_count(f, len);
            // thorough: all; quick: all up to max_tok (budgeted by alphabet sizes)
            tok_ranges.push((f, len, total, c));
            total += c;
        }
    }
    let seed = ctx.seed;
    let acc = crate::par::run(total, 64, |i, acc| {
        if i < n_mixed {
            let item = corpus::mixed_item(seed, i, &opts);
            if item.bytes.len() >= 2 << 20 {
                return;
            }
            let mut rng = Rng::derive(seed, 0xc02, i as u64);
            let scheds = corpus::schedules(&item.bytes, &mut rng, 2);
            acc.count(&format!("class_{}", item.class));
            if !item.bytes.is_empty() {
                acc.distinct(&item.bytes);
            }
            acc.sample_every(211, || json!({"class": item.class, "format": item.fmt.map(|f| f.name()), "input_preview": preview(&item.bytes, 120), "bytes": item.bytes.len()}));
            for from in froms_for(&item) {
                for to in ALL {
                    let s = run_slice(&item.bytes, from, to);
                    for sc in &scheds {
                        acc.count(&format!("sched_{}", sc.describe().split(':').next().unwrap()));
                        compare(&item.bytes, from, to, sc, item.class, &s, acc);
                    }
                    if item.bytes.len() <= 65_536 {
                        compare_interrupted(&item.bytes, from, to, 2 + rng.below(5) as u64, item.class, &s, acc);
                    }
                }
            }
        } else {
            let (f, len, start, _) = *tok_ranges.iter().find(|(_, _, s, c)| i >= *s && i < s + c).unwrap();
            let bytes = corpus::token_seq(f, len, i - start);
            acc.count(&format!("tokseq_{}_len{}", f.name(), len));
            acc.distinct(&bytes);
            // own format and detection; JSON target plus one rotating other target
            let tos = [Fmt::Json, [Fmt::Msgpack, Fmt::Yaml, Fmt::Toml][i % 3]];
            for from in [Some(f), None] {
                for to in tos {
                    let s = run_slice(&bytes, from, to);
                    for sc in [Sched::All, Sched::One] {
                        compare(&bytes, from, to, &sc, "token_seq", &s, acc);
                    }
                }
            }
        }
    });
    // large valid streams: many buffer refills, documents straddling 8 KiB boundaries
    let n_large = ctx.size(64, 5000);
    let large = crate::par::run(n_large, 1, |i, acc| {
        let mut rng = Rng::derive(seed, 0xc02b, i as u64);
        let f = [Fmt::Json, Fmt::Msgpack, Fmt::Yaml][i % 3];
        let mut feats = crate::spell::Feats::default();
        let mut cl = crate::gen::Classes::default();
        let n_docs = *rng.pick(&[50usize, 300, 1500]);
        let o = GenOpts { max_depth: 3, max_width: 4, ..GenOpts::common() };
        let (mut bytes, _) = corpus::valid_stream(f, n_docs, &mut rng, &mut feats, &mut cl, &o);
        if f == Fmt::Yaml && i % 2 == 0 {
            bytes = corpus::boundary_yaml_text(i / 6).into_bytes();
            acc.count("class_boundary_straddling_yaml");
        } else if i % 4 == 1 {
            // one heavy document: strings and keys whose length sits on the 8- / 16- / 32-bit header boundaries
            // (254..256, 65 533..65 537 bytes), thousands of entries, tens of KiB of multi-byte text
            let d = crate::gen::gen_heavy_doc(&mut rng);
            bytes = crate::spell::spell(f, &d, &mut rng, &mut feats, true);
            acc.count("class_heavy_document");
        }
        if bytes.len() >= 2 << 20 {
            return;
        }
        acc.count("class_valid_large");
        acc.max("largest_input_bytes", bytes.len() as u64);
        acc.distinct(&bytes);
        let to = ALL[(i / 3) % 4];
        let scheds = [Sched::All, Sched::Fixed(8191), Sched::Fixed(8192), Sched::Fixed(8193), Sched::Fixed(4096), Sched::Random(rng.next(), 20000), Sched::Fixed(13)];
        for from in [Some(f), None] {
            let s = run_slice(&bytes, from, to);
            for sc in &scheds {
                compare(&bytes, from, to, sc, "valid_large", &s, acc);
            }
        }
    });
    let mut acc = acc;
    acc.merge(large);
    // single TOML documents of a megabyte and more (TOML from a reader is buffered whole, up to a cap of
    // 2 MiB under detection): sizes below, around and just under that cap
    let big_sizes = [1_000_000usize, 1_999_990, 2_000_100, 2_050_000, (2 << 20) - 70];
    let big = crate::par::run(big_sizes.len(), 1, |i, acc| {
        let bytes = corpus::big_toml(big_sizes[i]);
        acc.count("class_toml_of_a_megabyte_and_more");
        acc.max("largest_input_bytes", bytes.len() as u64);
        acc.distinct(&bytes);
        for from in [Some(Fmt::Toml), None] {
            let to = if i % 2 == 0 { Fmt::Json } else { Fmt::Msgpack };
            let s = run_slice(&bytes, from, to);
            for sc in [Sched::All, Sched::Fixed(65536), Sched::Fixed(8192)] {
                compare(&bytes, from, to, &sc, "big_toml", &s, acc);
            }
        }
    });
    acc.merge(big);
    // deeply nested documents: each format's depth limit is enforced by different code for
    // slices (MessagePack: a size pre-pass) and readers, so the verdict at every depth must agree
    let mut deep_cases = vec![];
    for (f, limit) in crate::c18::LIMITS {
        for shape in [crate::c18::Shape::Arrays, crate::c18::Shape::Maps, crate::c18::Shape::Alternating, crate::c18::Shape::Random(seed.wrapping_add(7))] {
            let mut depths = vec![limit / 2 - 1, limit / 2, limit / 2 + 1, limit - 2, limit - 1, limit, limit + 1];
            if f == Fmt::Msgpack {
                depths.extend([100, 255, 256, 341, 342, 600, 1000]);
            }
            for d in depths {
                deep_cases.push((f, shape, d));
            }
        }
    }
    let deep = crate::par::run(deep_cases.len(), 1, |i, acc| {
        let (f, shape, d) = deep_cases[i];
        let mut inputs = vec![crate::c18::nested(f, shape, d)];
        if f == Fmt::Msgpack {
            for st in crate::c18::MSGPACK_STYLES {
                inputs.push(crate::c18::nested_msgpack_styled(shape, d, st));
            }
        }
        for bytes in inputs {
            if bytes.is_empty() {
                continue;
            }
            acc.count("class_deeply_nested");
            acc.distinct(&bytes);
            for to in [ALL[i % 4], ALL[(i + 1) % 4]] {
                for from in [Some(f), None] {
                    let s = run_slice(&bytes, from, to);
                    for sc in [Sched::All, Sched::Fixed(7), Sched::Fixed(4096)] {
                        compare(&bytes, from, to, &sc, "deeply_nested", &s, acc);
                    }
                }
            }
        }
    });
    acc.merge(deep);
    // every hand-written seed input once, deterministically (tiny and degenerate streams, rare syntax forms,
    // used directives, other line break conventions, ...)
    let seeds = corpus::seeds();
    let seed_acc = crate::par::run(seeds.len(), 4, |i, acc| {
        let it = &seeds[i];
        acc.count("class_seed_inputs");
        acc.distinct(&it.bytes);
        for from in [it.fmt, None] {
            for to in ALL {
                let s = run_slice(&it.bytes, from, to);
                for sc in [Sched::All, Sched::One, Sched::Fixed(3), Sched::Fixed(7)] {
                    compare(&it.bytes, from, to, &sc, "seed", &s, acc);
                }
                compare_interrupted(&it.bytes, from, to, 2 + (i as u64 % 3), "seed", &s, acc);
            }
        }
    });
    acc.merge(seed_acc);
    let n_cli = ctx.size(90, 1500);
    let cli = crate::par::run(n_cli, 1, |i, acc| cli_sources(seed, i, acc));
    acc.merge(cli);
    let rule = format!(
        "{} mixed corpus inputs (valid single/multi-document streams of every format, mutants, splices, seeds, random bytes/tokens) x relevant source selections x 4 targets x schedules [all, one, fixed(n), 2 random, boundary cuts], plus EVERY token sequence of length 1..={} over each format's alphabet x [own format, detect] x 2 targets x [all, one], plus {} large valid streams (50-1500 documents, up to 2 MiB; every fourth one heavy document instead: strings and keys of 254..256 and 65 533..65 537 bytes, thousands of entries) under 7 schedules incl. fixed(8191/8192/8193), plus single TOML documents of 1 000 000 .. 2 MiB - 70 bytes (named and detected, 3 schedules), plus documents nested to half of, just below, at and just beyond each format's depth limit (arrays, maps, mixtures; MessagePack also with 16/32-bit headers and wide collections, and at 100..1000), plus every hand-written seed input (degenerate streams, rare syntax forms, used directives, CR / CRLF line breaks) x [own format, detect] x 4 targets x 4 schedules; plus {} command-line comparisons (the release binary given the same 1-8000 documents as a file operand, on a pipe, as a regular file on standard input at offset 0 and behind bytes already consumed, and through a FIFO; sizes to above 1 MiB); each evaluation is one (slice run, reader run) pair; distinct non-trivial = distinct non-empty input byte strings",
        n_mixed, max_tok, n_large, n_cli
    );
    let mut extra = serde_json::Map::new();
    extra.insert("token_sequences_exhaustive_up_to_length".into(), json!(max_tok));
    ev::finish(
        Finish {
            ctx,
            level: "exploration",
            rule,
            assumptions: vec!["error text is not compared here (C09/C11 do that)".into(), "a reader that fails transiently with ErrorKind::Interrupted may be answered with any error (the properties speak of short reads and of readers that START failing); if xt reports success the output must be the slice's".into(), "the reader never returns 0 before the end and never more than the buffer".into()],
            extra,
            exhaustive: false,
            min_distinct: 1000,
            must_reach: vec![("INPUT_READER_BARE".into(), 100), ("INPUT_READER_CHAINED_PREFIX".into(), 100), ("INPUT_SLICE_FROM_READER_EOF".into(), 100), ("YAML_READER_PATH".into(), 100), ("JSON_READER_PATH".into(), 100), ("MSGPACK_READER_PATH".into(), 100), ("cli_source_comparisons".into(), 30), ("cli_source_comparisons_above_1_mib".into(), 2)],
        },
        acc,
    )
}

pub fn replay(v: &Value) -> i32 {
    let c = &v["case"];
    if c["part"].as_str() == Some("cli_sources") {
        let mut acc = Acc::default();
        cli_sources(c["seed"].as_u64().unwrap_or(0), c["index"].as_u64().unwrap_or(0) as usize, &mut acc);
        return if acc.vio_count > 0 {
            println!("VIOLATION property=C02 replay=<this file> (reproduced): {}", acc.violations[0].observed);
            1
        } else {
            println!("not reproduced");
            0
        };
    }
    let (Some(input), Some(from), Some(to), Some(sched)) = (c["input_hex"].as_str().and_then(unhex), c["from"].as_str().and_then(fmts::parse_from), c["to"].as_str().and_then(Fmt::parse), c["schedule"].as_str().and_then(Sched::parse)) else {
        println!("bad replay case");
        return 2;
    };
    let s = run_slice(&input, from, to);
    let (r, log) = run_reader(&input, &sched, from, to);
    println!("input:  [{}]", preview(&input, 400));
    println!("from={} to={} schedule={}", fmts::from_name(from), to.name(), sched.describe());
    println!("slice:  {} out=[{}]", s.verdict.show(), preview(&s.out, 400));
    println!("reader: {} out=[{}] ({} read calls)", r.verdict.show(), preview(&r.out, 400), log.calls);
    let mut acc = Acc::default();
    compare(&input, from, to, &sched, "replay", &s, &mut acc);
    if acc.vio_count > 0 {
        println!("VIOLATION property=C02 replay=<this file> (reproduced)");
        1
    } else {
        println!("no disagreement (not reproduced, or a listed known finding)");
        0
    }
}

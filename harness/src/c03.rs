//! C03 — multi-document and multi-input output is the ordered concatenation.
//!
//! A sequence of N documents is distributed over 1-4 translate calls on ONE
//! Translator (mixed source formats, slice and reader, explicit and detected,
//! every separator style the source allows). The writer's byte log must equal
//! the concatenation of the fresh single-document translations, and the
//! independent reader of the target must recover exactly N documents.

use serde_json::{json, Value};

use crate::corpus::{join_stream, yaml_stream};
use crate::ev::{self, Acc, Ctx, Finish, Violation};
use crate::fmts::{self, Fmt, STREAMING};
use crate::gen::{gen_doc, tomlify, Classes, GenOpts};
use crate::known;
use crate::model::{hex, preview, unhex, Val};
use crate::mon::{MonWriter, Sched};
use crate::read::read_stream;
use crate::rng::Rng;
use crate::run::{run_history, run_slice, Call, Mode, Verdict};
use crate::spell::{spell, Feats};

fn calls_json(calls: &[Call]) -> Value {
    Value::Array(calls.iter().map(|c| json!({"input_hex": hex(&c.input), "input_preview": preview(&c.input, 160), "from": fmts::from_name(c.from), "mode": c.mode.describe()})).collect())
}

fn parse_calls(v: &Value) -> Option<Vec<Call>> {
    let mut out = vec![];
    for c in v.as_array()? {
        out.push(Call { input: unhex(c["input_hex"].as_str()?)?, from: fmts::parse_from(c["from"].as_str()?)?, mode: Mode::parse(c["mode"].as_str()?)? });
    }
    Some(out)
}

/// A document whose spelling in `f` has exactly `len` bytes (a padded string),
/// used to make documents end on or straddle buffer boundaries.
fn padded_doc(f: Fmt, len: usize) -> Val {
    let overhead = match f {
        Fmt::Json => 2,    // quotes
        Fmt::Msgpack => 3, // str16 header
        _ => 3,            // "x: " style handled by caller; approximate
    };
    Val::Str("a".repeat(len.saturating_sub(overhead).max(32)))
}

pub struct History {
    pub calls: Vec<Call>,
    /// (document, source format of the call it belongs to)
    pub docs: Vec<(Val, Fmt)>,
    pub feats: Feats,
}

pub fn gen_history(seed: u64, idx: usize, to: Fmt, cl: &mut Classes) -> History {
    let mut rng = Rng::derive(seed, 0xc03, idx as u64);
    let n = *rng.pick(&[0usize, 1, 1, 2, 2, 3, 3, 4, 5, 5, 17, 300]);
    let small = GenOpts { max_depth: 3, max_width: 4, ..GenOpts::common() };
    let mut feats = Feats::default();
    let n_calls = if n == 0 { rng.range(1, 2) } else { rng.range(1, 4.min(n.max(1))) };
    // cut points
    let mut cuts: Vec<usize> = (0..n_calls - 1).map(|_| rng.range(0, n)).collect();
    cuts.sort();
    cuts.insert(0, 0);
    cuts.push(n);
    let mut calls = vec![];
    let mut docs: Vec<(Val, Fmt)> = vec![];
    for w in cuts.windows(2) {
        let k = w[1] - w[0];
        let mut src = *rng.pick(&STREAMING);
        let mut call_docs: Vec<Val> = vec![];
        if k == 1 && rng.chance(1, 5) {
            // a TOML input holds exactly one document
            let d = gen_doc(&mut rng, &GenOpts::toml(), cl);
            src = Fmt::Toml;
            call_docs.push(d);
        } else {
            for j in 0..k {
                let d = if n >= 17 {
                    // many small documents, scalars first
                    if j == 0 { Val::Int(j as i128) } else { gen_doc(&mut rng, &GenOpts { max_depth: 1, max_width: 2, ..GenOpts::common() }, cl) }
                } else if idx % 500 == 499 && j == 0 {
                    // a map / array whose entry count is in the upper half of what a 16-bit header holds
                    feats.hit("heavy_document");
                    let n = *rng.pick(&[32768usize, 40000, 65535]);
                    if rng.chance(2, 3) { Val::Map((0..n).map(|i| (Val::Str(format!("k{i}")), Val::Int((i % 5) as i128))).collect()) } else { Val::Seq((0..n).map(|i| Val::Int((i % 5) as i128)).collect()) }
                } else if idx % 250 == 249 && j == 0 {
                    // a document with thousands of entries between ordinary ones: a collection written with a
                    // wrong length would spill into extra top-level documents
                    feats.hit("heavy_document");
                    crate::gen::gen_heavy_doc(&mut rng)
                } else if rng.chance(1, 6) {
                    feats.hit("boundary_padded_document");
                    let target = *rng.pick(&[8192usize, 16384]) + rng.range(0, 4) - 2;
                    padded_doc(src, target)
                } else if rng.chance(1, 4) {
                    // scalar documents (a scalar first in the stream is an untested case)
                    crate::gen::gen_scalar(&mut rng, &small, cl)
                } else {
                    gen_doc(&mut rng, &small, cl)
                };
                call_docs.push(d);
            }
        }
        let plain = rng.chance(1, 4);
        let bytes = match src {
            Fmt::Yaml => {
                if call_docs.is_empty() {
                    (*rng.pick(&[&b""[..], b"\n", b"# nothing here\n", b"\n# c\n\n"])).to_vec()
                } else {
                    yaml_stream(&call_docs, &mut rng, &mut feats, plain)
                }
            }
            Fmt::Json => {
                if call_docs.is_empty() {
                    (*rng.pick(&[&b""[..], b" ", b"\n\n"])).to_vec()
                } else {
                    let sp: Vec<Vec<u8>> = call_docs.iter().map(|d| spell(src, d, &mut rng, &mut feats, plain)).collect();
                    join_stream(src, &sp, &mut rng, &mut feats)
                }
            }
            _ => {
                let sp: Vec<Vec<u8>> = call_docs.iter().map(|d| spell(src, d, &mut rng, &mut feats, plain)).collect();
                join_stream(src, &sp, &mut rng, &mut feats)
            }
        };
        let mode = match rng.below(5) {
            0 | 1 => Mode::Slice,
            2 => Mode::Reader(Sched::One),
            3 => Mode::Reader(Sched::Fixed(*rng.pick(&[2usize, 7, 4096, 8191, 8192, 8193]))),
            _ => Mode::Reader(Sched::Random(rng.next(), 64)),
        };
        // detection only where it names the call's format
        let from = if rng.chance(1, 3) && xt::verif::detect_slice(&bytes).ok().flatten().map(Fmt::from_xt) == Some(src) { None } else { Some(src) };
        // with the format named, one reader in six is also interrupted now and then (what a signal does to a
        // blocking read); under detection an interruption may change the detected format, so not there
        let mode = if from.is_some() && !matches!(mode, Mode::Slice) && rng.chance(1, 6) { Mode::Reader(Sched::Interrupted(*rng.pick(&[1usize, 5, 64, 4096, 70000]), 2 + rng.below(6) as u64)) } else { mode };
        for d in call_docs {
            docs.push((d, src));
        }
        calls.push(Call { input: bytes, from, mode });
    }
    let _ = to;
    History { calls, docs, feats }
}

fn is_documentless_yaml_slice(c: &Call) -> bool {
    let src_yaml = c.from == Some(Fmt::Yaml) || (c.from.is_none() && false);
    src_yaml && matches!(c.mode, Mode::Slice) && crate::read::yaml::read_docs(&c.input).map(|d| d.is_empty()).unwrap_or(false)
}

pub fn judge(h_calls: &[Call], docs: &[(Val, Fmt)], to: Fmt, acc: &mut Acc) {
    acc.evals += 1;
    // one history in three writes to a writer that accepts only 1-3 bytes per call (allowed by the Write
    // contract): the bytes it ends up with must be the same
    let total_len: usize = h_calls.iter().map(|c| c.input.len()).sum();
    let writer = if total_len % 3 == 0 {
        acc.count("histories_with_short_write_writer");
        MonWriter::new().with_short(total_len as u64, 1 + total_len % 3)
    } else {
        MonWriter::new()
    };
    let (verdicts, wlog) = run_history(h_calls, to, writer, true);
    let case = || json!({"to": to.name(), "calls": calls_json(h_calls), "documents": docs.len()});
    // expected: fresh single-document translations
    let mut expected: Vec<u8> = vec![];
    let mut singles: Vec<Vec<u8>> = vec![];
    for (d, src) in docs {
        let mut rng = Rng::new(1);
        let mut f = Feats::default();
        let bytes = spell(*src, d, &mut rng, &mut f, true);
        let o = run_slice(&bytes, Some(*src), to);
        if !o.verdict.is_ok() {
            // every generated document is one that every streaming target accepts: if it does not translate
            // alone (as a slice, conventional spelling), that is an observation, not a harness problem
            acc.violation(Violation { sig: format!("to={}: a generated document does not translate alone ({})", to.name(), ev::truncate(&crate::c02_mask(o.verdict.text()), 60)), case: case(), observed: format!("{} document [{}] as a slice: {}", src.name(), preview(&bytes, 80), o.verdict.show()), expected: "Ok".into() });
            return;
        }
        expected.extend_from_slice(&o.out);
        singles.push(o.out);
    }
    if h_calls.iter().any(|c| matches!(c.mode, Mode::Reader(Sched::Interrupted(..)))) {
        acc.count("histories_with_an_interrupted_reader");
    }
    if let Some(bad) = verdicts.iter().position(|v| !v.is_ok()) {
        if matches!(verdicts[bad], Verdict::Err(_)) && matches!(h_calls[bad].mode, Mode::Reader(Sched::Interrupted(..))) {
            // an error is an allowed answer to an interruption; what was written before it is still judged
            acc.count("interrupted_call_answered_with_an_error");
            if !expected.starts_with(&wlog.bytes) {
                acc.violation(Violation { sig: format!("to={} output before an interrupted call's error is not a prefix of the concatenation", to.name()), case: case(), observed: format!("{} bytes written [{}]", wlog.bytes.len(), preview(&wlog.bytes, 80)), expected: "a prefix of the concatenation of the single-document translations".into() });
            }
            return;
        }
        if matches!(verdicts[bad], Verdict::Err(_)) && is_documentless_yaml_slice(&h_calls[bad]) && known::listed("C03", "C02-yaml-documentless-stream") {
            acc.known("C02-yaml-documentless-stream", || format!("call {} input [{}]", bad, preview(&h_calls[bad].input, 40)));
            return;
        }
        if matches!(verdicts[bad], Verdict::Err(_)) && known::read_ahead_failure("C03", h_calls[bad].from.is_none(), !matches!(h_calls[bad].mode, Mode::Slice), &h_calls[bad].input) {
            acc.known("C09-yaml-trial-depends-on-read-ahead", || format!("call {} ({}) input [{}]: {}", bad, h_calls[bad].mode.describe(), preview(&h_calls[bad].input, 50), verdicts[bad].show()));
            return;
        }
        acc.violation(Violation { sig: format!("to={} call failed: {}", to.name(), ev::truncate(&crate::c02_mask(verdicts[bad].text()), 80)), case: case(), observed: format!("call {} of {}: {}", bad, h_calls.len(), verdicts[bad].show()), expected: "every call succeeds".into() });
        return;
    }
    if wlog.bytes != expected {
        let at = wlog.bytes.iter().zip(expected.iter()).position(|(a, b)| a != b).unwrap_or(wlog.bytes.len().min(expected.len()));
        // which document does the first difference fall into?
        let mut off = 0;
        let mut doc_no = singles.len();
        for (i, s) in singles.iter().enumerate() {
            if at < off + s.len() {
                doc_no = i;
                break;
            }
            off += s.len();
        }
        acc.violation(Violation {
            sig: format!("to={} output differs from per-document concatenation ({})", to.name(), if wlog.bytes.len() < expected.len() { "shorter" } else if wlog.bytes.len() > expected.len() { "longer" } else { "same length" }),
            case: case(),
            observed: format!("{} bytes written, first difference at byte {} (document {} of {}): got [{}] expected [{}]", wlog.bytes.len(), at, doc_no, docs.len(), preview(&wlog.bytes[at.saturating_sub(20)..], 80), preview(&expected[at.saturating_sub(20).min(expected.len())..], 80)),
            expected: format!("{} bytes: the concatenation of {} single-document translations", expected.len(), docs.len()),
        });
        return;
    }
    // framing, judged by the independent reader of the target
    match read_stream(to, &wlog.bytes) {
        Err(e) => acc.violation(Violation { sig: format!("to={} framing: output unreadable", to.name()), case: case(), observed: e, expected: format!("{} readable documents", docs.len()) }),
        Ok(got) => {
            if got.len() != docs.len() {
                acc.violation(Violation { sig: format!("to={} framing: document count", to.name()), case: case(), observed: format!("{} documents recovered", got.len()), expected: format!("{} documents", docs.len()) });
            } else {
                acc.count("framing_checked");
                acc.add("documents_framed", got.len() as u64);
            }
        }
    }
}

/// One command-line invocation over several input files in mixed formats must
/// print exactly what separate invocations on each file print, in order.
pub fn cli_case(seed: u64, idx: usize, acc: &mut Acc) {
    use crate::procmon::{self, Run, Scratch, Status, StdinKind, StdoutKind};
    let mut rng = Rng::derive(seed, 0xc03c, idx as u64);
    let to = STREAMING[idx % 3];
    let sc = Scratch::new();
    let n = rng.range(2, 4);
    let mut cl = Classes::default();
    let mut feats = Feats::default();
    let small = GenOpts { max_depth: 3, max_width: 3, ..GenOpts::common() };
    let mut names: Vec<String> = vec![];
    let mut stdin_bytes: Vec<u8> = vec![];
    for i in 0..n {
        let src = crate::fmts::ALL[rng.below(4)];
        let (bytes, _) = crate::corpus::valid_stream(src, *rng.pick(&[1usize, 2, 3]), &mut rng, &mut feats, &mut cl, &small);
        // a document-less YAML file read as a slice is a recorded C02 finding
        let bytes = if src == Fmt::Yaml && crate::read::yaml::read_docs(&bytes).map(|d| d.is_empty()).unwrap_or(false) { b"a: 1\n".to_vec() } else { bytes };
        let detectable = xt::verif::detect_slice(&bytes).ok().flatten().map(Fmt::from_xt) == Some(src);
        if i == 1 && detectable && rng.chance(1, 2) {
            stdin_bytes = bytes;
            names.push("-".into());
            continue;
        }
        let ext = if detectable && rng.chance(1, 3) { String::new() } else { format!(".{}", match src { Fmt::Yaml => *rng.pick(&["yaml", "yml", "YAML"]), f => f.name() }) };
        let name = format!("in{i}{ext}");
        sc.file(&name, &bytes);
        names.push(name);
    }
    let bin = procmon::release_bin();
    let run1 = |args: Vec<String>, stdin: &[u8]| procmon::run(Run { bin: &bin, argv: args, cwd: sc.path(), stdin: StdinKind::Bytes(stdin.to_vec()), stdout: StdoutKind::Pipe, wall_secs: 60, cpu_secs: 20 });
    let mut expected = vec![];
    for nm in &names {
        let o = run1(vec!["-t".into(), to.name().into(), nm.clone()], &stdin_bytes);
        if o.status != Status::Exit(0) {
            // an input that cannot be translated alone (e.g. a value the target refuses) is not a C03 case
            acc.count("cli_case_skipped_untranslatable_input");
            return;
        }
        expected.extend_from_slice(&o.out_bytes());
    }
    let mut argv: Vec<String> = vec!["-t".into(), to.name().into()];
    argv.extend(names.iter().cloned());
    // in the combined run standard input is, every other time, a regular file whose first bytes (two earlier
    // documents) were consumed by someone else: the documents xt reads through '-' are those from the current offset
    let all = if names.iter().any(|n| n == "-") && idx % 2 == 1 {
        acc.count("cli_stdin_is_a_file_at_a_later_offset");
        let prefix: &[u8] = match xt::verif::detect_slice(&stdin_bytes).ok().flatten().map(Fmt::from_xt) {
            Some(Fmt::Yaml) => b"---\nconsumed: before\n---\nalso: consumed\n",
            Some(Fmt::Msgpack) => b"\x81\xa1c\x01\x92\x01\x02",
            _ => b"{\"consumed\": \"before\"}\n[1, 2]\n",
        };
        let mut whole = prefix.to_vec();
        whole.extend_from_slice(&stdin_bytes);
        procmon::run(Run { bin: &bin, argv: argv.clone(), cwd: sc.path(), stdin: StdinKind::FileAtOffset(whole, prefix.len() as u64), stdout: StdoutKind::Pipe, wall_secs: 60, cpu_secs: 20 })
    } else {
        run1(argv.clone(), &stdin_bytes)
    };
    acc.evals += 1;
    acc.count("cli_multi_input_invocations");
    if matches!(all.status, Status::Timeout | Status::SpawnError(_)) {
        acc.inconclusive += 1;
        return;
    }
    if all.status != Status::Exit(0) || all.stdout != expected {
        acc.violation(Violation { sig: format!("CLI to={}: several inputs in one invocation differ from the inputs translated one by one", to.name()), case: json!({"part": "cli", "seed": seed, "index": idx}), observed: format!("argv {:?}: status {}, {} bytes [{}]; stderr [{}]", argv, all.status.show(), all.stdout.len(), preview(&all.stdout, 120), preview(&all.stderr, 160)), expected: format!("exit 0 and the {} bytes of the separate invocations [{}]", expected.len(), preview(&expected, 120)) });
    }
}

/// Two detected inputs on one Translator: a first input of each format, then a multi-document stream that
/// another format's trial would also accept (or read differently). The second input's documents must come
/// out as they do on a fresh translator - same count, same bytes.
pub fn after_detected_input(idx: usize, acc: &mut Acc) {
    let streams: [&[u8]; 10] = [b"[1]\n[2]\n[3]\n", b"[\"a\"]\n[\"b\"]\n", b"[a]\n[b]\n", b"{\"a\": 1}\n{\"b\": 2}\n", b"1\n2\n3\n", b"[[1]]\n[[2]]\n", b"- 1\n---\n- 2\n", b"a: 1\n---\nb: 2\n", b"\x91\x01\x91\x02", b"{\"n\": -0}\n{\"n\": 1E+2}\n"];
    let (wname, warm) = crate::run::WARM_UPS[idx % 6];
    let stream = streams[(idx / 6) % 10];
    let to = STREAMING[(idx / 60) % 3];
    let mode = if (idx / 180) % 2 == 0 { Mode::Slice } else { Mode::Reader(Sched::Fixed(3)) };
    let fresh = crate::run::run_mode(stream, &mode, None, to);
    let got = crate::run::run_after(&[warm], stream, &mode, None, to);
    acc.evals += 1;
    acc.count("streams_after_a_detected_input_of_another_format");
    if got.verdict.class() != fresh.verdict.class() || got.out != fresh.out {
        acc.violation(Violation { sig: format!("to={}: after a detected {wname} input a stream is translated differently than on a fresh translator", to.name()), case: json!({"part": "after_detected", "index": idx}), observed: format!("stream [{}] {}: {} [{}]; fresh: {} [{}]", preview(stream, 40), mode.describe(), got.verdict.show(), preview(&got.out, 100), fresh.verdict.show(), preview(&fresh.out, 100)), expected: "the same documents in the same order".into() });
    }
}

pub fn run(ctx: &Ctx) -> i32 {
    let n = ctx.size(40000, 1500000);
    let seed = ctx.seed;
    let acc = crate::par::run(n, 8, |i, acc| {
        let to = STREAMING[i % 3];
        let mut cl = Classes::default();
        let h = gen_history(seed, i, to, &mut cl);
        cl.add_to(acc);
        acc.count(&format!("n_docs_{}", match h.docs.len() { 0 => "0".to_string(), 1 => "1".into(), 2..=5 => "2-5".into(), 6..=17 => "17".into(), _ => "300".into() }));
        acc.count(&format!("n_calls_{}", h.calls.len()));
        acc.count(&format!("target_{}", to.name()));
        for c in &h.calls {
            acc.count(&format!("call_from_{}", fmts::from_name(c.from)));
            acc.count(&format!("call_mode_{}", c.mode.describe().split(':').take(2).collect::<Vec<_>>().join(":")));
        }
        for (k, v) in &h.feats.0 {
            acc.add(&format!("spelling_{k}"), *v as u64);
        }
        if h.docs.len() >= 2 {
            acc.distinct(&(h.calls.iter().map(|c| c.input.clone()).collect::<Vec<_>>(), to.name()));
        }
        acc.sample_every(499, || json!({"to": to.name(), "documents": h.docs.len(), "calls": h.calls.iter().map(|c| json!({"from": fmts::from_name(c.from), "mode": c.mode.describe(), "input_preview": preview(&c.input, 100)})).collect::<Vec<_>>()}));
        judge(&h.calls, &h.docs, to, acc);
    });
    let mut acc = acc;
    let n_cli = ctx.size(400, 8000);
    let cli = crate::par::run(n_cli, 4, |i, acc| cli_case(seed, i, acc));
    acc.merge(cli);
    let mut acc = acc;
    let ad = crate::par::run(360, 8, |i, acc| after_detected_input(i, acc));
    acc.merge(ad);
    let rule = format!("{} histories: N in {{0,1,2,3,4,5,17,300}} documents (scalars first, empty and large collections, strings padded so documents end at 8192/16384 +-2) distributed over 1-4 translate calls on one Translator, each call in its own source format (JSON/MessagePack/YAML, or TOML for one document), slice or reader under a schedule (one named-format reader in six also fails every 2nd-7th call with ErrorKind::Interrupted), explicit or detected, with every separator style the source allows (JSON none/blank/newlines; YAML '---', '--- value', '...'+'---', comments, blank lines, %YAML directives), targets JSON/MessagePack/YAML in turn; plus {} command-line invocations of the release binary over 2-4 input files in mixed formats (by extension or detected, one possibly on stdin - a pipe, or a regular file whose first documents were already consumed) compared with separate invocations per file; plus 360 pairs (a detected input of each format, then a detected multi-document stream that several formats' trials accept) whose second member must come out as on a fresh translator; distinct non-trivial = distinct (inputs, target) with >= 2 documents", n, n_cli);
    ev::finish(
        Finish {
            ctx,
            level: "exploration",
            rule,
            assumptions: vec!["the translation of a document alone is obtained from a conventional spelling of the same value in the same source format".into()],
            extra: serde_json::Map::new(),
            exhaustive: false,
            min_distinct: 500,
            must_reach: vec![("cli_multi_input_invocations".into(), 100), ("framing_checked".into(), 1000), ("n_docs_300".into(), 10), ("n_docs_0".into(), 10), ("n_calls_3".into(), 10), ("histories_with_short_write_writer".into(), 1000), ("histories_with_an_interrupted_reader".into(), 500), ("cli_stdin_is_a_file_at_a_later_offset".into(), 20)],
        },
        acc,
    )
}

pub fn replay(v: &Value) -> i32 {
    let c = &v["case"];
    if c["part"].as_str() == Some("after_detected") {
        let mut acc = Acc::default();
        after_detected_input(c["index"].as_u64().unwrap_or(0) as usize, &mut acc);
        return if acc.vio_count > 0 { println!("VIOLATION property=C03 replay=<this file> (reproduced): {}", acc.violations[0].observed); 1 } else { println!("not reproduced"); 0 };
    }
    if c["part"].as_str() == Some("cli") {
        let mut acc = Acc::default();
        cli_case(c["seed"].as_u64().unwrap_or(0), c["index"].as_u64().unwrap_or(0) as usize, &mut acc);
        return if acc.vio_count > 0 {
            println!("VIOLATION property=C03 replay=<this file> (reproduced): {}", acc.violations[0].observed);
            1
        } else {
            println!("not reproduced");
            0
        };
    }
    let (Some(calls), Some(to)) = (parse_calls(&c["calls"]), c["to"].as_str().and_then(Fmt::parse)) else {
        println!("bad replay case");
        return 2;
    };
    // recover the documents from the inputs with the independent readers
    let mut docs: Vec<(Val, Fmt)> = vec![];
    for call in &calls {
        let src = call.from.or_else(|| xt::verif::detect_slice(&call.input).ok().flatten().map(Fmt::from_xt));
        let Some(src) = src else {
            println!("cannot determine the source format of a call");
            return 2;
        };
        let ds = match src {
            Fmt::Json => crate::read::json::read_many(&call.input).map(|v| v.into_iter().map(|x| x.0).collect::<Vec<_>>()),
            Fmt::Msgpack => crate::read::msgpack::read_all(&call.input),
            Fmt::Yaml => crate::read::yaml::read_docs(&call.input).map(|v| v.into_iter().map(|d| d.val).collect()),
            Fmt::Toml => crate::read::toml::read(&call.input).map(|v| vec![v]),
        };
        match ds {
            Ok(ds) => docs.extend(ds.into_iter().map(|d| (d, src))),
            Err(e) => {
                println!("cannot re-read a call's input: {e}");
                return 2;
            }
        }
    }
    let (verdicts, wlog) = run_history(&calls, to, MonWriter::new(), true);
    for (i, call) in calls.iter().enumerate() {
        println!("call {i}: from={} mode={} input=[{}] -> {}", fmts::from_name(call.from), call.mode.describe(), preview(&call.input, 300), verdicts.get(i).map(|v| v.show()).unwrap_or_else(|| "(not run)".into()));
    }
    println!("output ({} bytes): [{}]", wlog.bytes.len(), preview(&wlog.bytes, 600));
    let mut acc = Acc::default();
    judge(&calls, &docs, to, &mut acc);
    if acc.vio_count > 0 {
        println!("VIOLATION property=C03 replay=<this file> (reproduced): {}", acc.violations[0].observed);
        1
    } else {
        println!("not reproduced (or a listed known finding)");
        0
    }
}

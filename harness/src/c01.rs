//! C01 — cross-format value fidelity.
//!
//! A model document is spelled in the source format (several hostile
//! spellings), translated by xt (slice and scheduled reader, explicit and
//! detected), and the output is read back by the harness's independent reader
//! of the target format. The value read must equal the model value exactly
//! (types, float bits, strings code point for code point, order), modulo TOML's
//! permitted table reordering.

use serde_json::{json, Value};

use crate::ev::{self, Acc, Ctx, Finish, Violation};
use crate::fmts::{self, Fmt, ALL};
use crate::gen::{gen_doc, tomlify, Classes, GenOpts};
use crate::known;
use crate::model::{hex, preview, toml_match, unhex, Val};
use crate::mon::Sched;
use crate::read::read_stream;
use crate::rng::Rng;
use crate::run::{run_mode, Mode, Verdict};
use crate::spell::{spell, Feats};

fn case_json(input: &[u8], from: Option<Fmt>, src: Fmt, to: Fmt, mode: &Mode, doc: &Val) -> Value {
    json!({
        "input_hex": hex(input),
        "input_preview": preview(input, 300),
        "from": fmts::from_name(from),
        "source_format": src.name(),
        "to": to.name(),
        "mode": mode.describe(),
        "model_value": doc.show(),
    })
}

/// The first differing node between the expected and the actual value.
#[derive(Clone, Debug)]
pub struct Diff {
    pub path: String,
    /// "value", "key", "length"
    pub kind: &'static str,
    pub expected: Option<Val>,
    pub actual: Option<Val>,
    pub note: String,
}

impl Diff {
    pub fn show(&self) -> String {
        match (&self.expected, &self.actual) {
            (Some(e), Some(a)) => format!("{}: {} expected {} got {}", self.path, self.kind, ev::truncate(&e.show(), 120), ev::truncate(&a.show(), 120)),
            _ => format!("{}: {}", self.path, self.note),
        }
    }
    /// Shape of the difference without concrete values, for deduplication.
    pub fn shape(&self) -> String {
        fn ty(v: &Val) -> &'static str {
            match v {
                Val::Null => "null",
                Val::Bool(_) => "bool",
                Val::Int(_) => "int",
                Val::Float(_) => "float",
                Val::Str(_) => "str",
                Val::Seq(_) => "seq",
                Val::Map(_) => "map",
                Val::Bytes(_) => "bytes",
                Val::F32(_) => "f32",
                Val::Datetime(_) => "datetime",
                Val::Ext(..) => "ext",
            }
        }
        match (&self.expected, &self.actual) {
            (Some(e), Some(a)) => format!("{} expected <{}> got <{}>", self.kind, ty(e), ty(a)),
            _ => self.note.split(':').next().unwrap_or("").to_string(),
        }
    }
}

pub fn first_diff(e: &Val, a: &Val, path: &mut String) -> Option<Diff> {
    match (e, a) {
        (Val::Seq(x), Val::Seq(y)) => {
            if x.len() != y.len() {
                return Some(Diff { path: path.clone(), kind: "length", expected: None, actual: None, note: format!("array length {} vs {}", x.len(), y.len()) });
            }
            for (i, (p, q)) in x.iter().zip(y).enumerate() {
                let l = path.len();
                path.push_str(&format!("[{i}]"));
                if let Some(d) = first_diff(p, q, path) {
                    return Some(d);
                }
                path.truncate(l);
            }
            None
        }
        (Val::Map(x), Val::Map(y)) => {
            if x.len() != y.len() {
                return Some(Diff { path: path.clone(), kind: "length", expected: None, actual: None, note: format!("map size {} vs {}", x.len(), y.len()) });
            }
            for (i, ((k1, v1), (k2, v2))) in x.iter().zip(y).enumerate() {
                if k1 != k2 {
                    return Some(Diff { path: format!("{path} key #{i}"), kind: "key", expected: Some(k1.clone()), actual: Some(k2.clone()), note: String::new() });
                }
                let l = path.len();
                path.push_str(&format!(".{}", ev::truncate(&k1.show(), 30)));
                if let Some(d) = first_diff(v1, v2, path) {
                    return Some(d);
                }
                path.truncate(l);
            }
            None
        }
        _ => {
            if e == a {
                None
            } else {
                Some(Diff { path: path.clone(), kind: "value", expected: Some(e.clone()), actual: Some(a.clone()), note: String::new() })
            }
        }
    }
}

/// Classifiers for recorded known findings of C01 (none may fire unless listed
/// in known_findings.json).
fn classify(diff: Option<&Diff>, _src: Fmt, to: Fmt) -> Option<&'static str> {
    let d = diff?;
    if to == Fmt::Yaml {
        // A string spelled like a YAML 1.2 float whose magnitude overflows binary64
        // ("1e400") is written unquoted and reads back as an infinite float.
        if let (Some(Val::Str(s)), Some(Val::Float(b))) = (&d.expected, &d.actual) {
            if f64::from_bits(*b).is_infinite() && matches!(crate::read::yaml::resolve_plain(s), Val::Float(x) if f64::from_bits(x).is_infinite()) && !s.contains("inf") && !s.contains("Inf") && !s.contains("INF") {
                return Some("C01-yaml-overflowing-float-lookalike");
            }
        }
    }
    None
}

pub fn judge(input: &[u8], from: Option<Fmt>, src: Fmt, to: Fmt, mode: &Mode, doc: &Val, acc: &mut Acc) {
    let o = run_mode(input, mode, from, to);
    judge_outcome(o, input, from, src, to, mode, doc, acc)
}

/// The same oracle for a reader that is interrupted now and then (ErrorKind::Interrupted, nothing
/// delivered, the next call proceeds): xt may answer with an error, but a success must denote the value.
pub fn judge_interrupted(input: &[u8], src: Fmt, to: Fmt, every: u64, doc: &Val, acc: &mut Acc) {
    let mut out = Vec::new();
    let rd = crate::mon::SchedReader::new(input, Sched::Fixed(7)).with_interrupts(every);
    let verdict = crate::run::guarded(|| xt::translate_reader(rd, Some(src.xt()), to.xt(), &mut out));
    acc.count(&format!("interrupted_reader_{}", verdict.class()));
    if verdict.is_err() {
        return;
    }
    judge_outcome(crate::run::Outcome { verdict, out }, input, Some(src), src, to, &Mode::Reader(Sched::Fixed(7)), doc, acc)
}

fn judge_outcome(o: crate::run::Outcome, input: &[u8], from: Option<Fmt>, src: Fmt, to: Fmt, mode: &Mode, doc: &Val, acc: &mut Acc) {
    acc.evals += 1;
    acc.count(&format!("pair_{}_{}", src.name(), to.name()));
    let mut diff: Option<Diff> = None;
    let problem = match &o.verdict {
        Verdict::Ok if to == Fmt::Toml && o.out.is_empty() && *doc == Val::Map(vec![]) => None,
        Verdict::Ok => match read_stream(to, &o.out) {
            Err(e) => Some((format!("output unreadable by the independent {} reader: {e}; output [{}]", to.name(), preview(&o.out, 200)), "a readable document".to_string(), "unreadable output".to_string())),
            Ok(docs) if docs.len() != 1 => Some((format!("{} documents in the output [{}]", docs.len(), preview(&o.out, 200)), "exactly one document".into(), "document count".into())),
            Ok(docs) => {
                let same = if to == Fmt::Toml { toml_match(doc, &docs[0]) } else { docs[0] == *doc };
                if same {
                    None
                } else if to == Fmt::Toml {
                    let d = crate::model::toml_diff(doc, &docs[0], "$").unwrap_or_else(|| "differs".into());
                    let shape = if d.contains("entry order not permitted") { "toml entry order" } else if d.contains("key sets differ") { "toml key sets differ" } else { "toml value differs" };
                    Some((format!("{d}; output [{}]", preview(&o.out, 200)), "the model value (modulo TOML's table reordering)".into(), shape.to_string()))
                } else {
                    diff = first_diff(doc, &docs[0], &mut String::from("$"));
                    let (text, shape) = match &diff {
                        Some(d) => (d.show(), d.shape()),
                        None => ("differs".to_string(), "differs".to_string()),
                    };
                    Some((format!("{text}; output [{}]", preview(&o.out, 200)), "the model value".into(), shape))
                }
            }
        },
        v => Some((format!("translation did not succeed: {}", v.show()), "Ok".into(), mask(v.text()))),
    };
    if let Some((observed, expected, shape)) = problem {
        if let Some(id) = classify(diff.as_ref(), src, to) {
            if known::listed("C01", id) {
                acc.known(id, || format!("{} -> {}: {}", src.name(), to.name(), ev::truncate(&observed, 160)));
                return;
            }
        }
        if matches!(o.verdict, Verdict::Err(_)) && known::read_ahead_failure("C01", from.is_none(), !matches!(mode, Mode::Slice), input) {
            acc.known("C09-yaml-trial-depends-on-read-ahead", || format!("{} -> {} ({}) input [{}]: {}", src.name(), to.name(), mode.describe(), preview(input, 50), ev::truncate(&observed, 120)));
            return;
        }
        let sig = format!("{}->{} {} :: {}", src.name(), to.name(), if matches!(mode, Mode::Slice) { "slice" } else { "reader" }, ev::truncate(&shape, 90));
        acc.violation(Violation { sig, case: case_json(input, from, src, to, mode, doc), observed, expected });
    }
}

fn mask(s: &str) -> String {
    // keep the shape of the message, drop concrete values
    let mut o = String::new();
    let mut in_num = false;
    for c in s.chars().take(140) {
        if c.is_ascii_digit() {
            if !in_num {
                o.push('#');
            }
            in_num = true;
        } else {
            in_num = false;
            o.push(c);
        }
    }
    o
}

/// Two or three documents, each in its own source format and spelling, go
/// through ONE translator (detection wherever detection of the slice names the
/// right format). Every output document must be the same bytes as when that
/// document is translated alone - whose value the single-document oracle judges.
fn shared_translator_batch(seed: u64, i: usize, base: &Val, acc: &mut Acc) {
    use crate::run::{run_history, Call};
    let mut rng = Rng::derive(seed, 0xc01b, i as u64);
    let to = fmts::STREAMING[i % 3];
    let n = rng.range(2, 3);
    let mut calls: Vec<Call> = vec![];
    let mut srcs = vec![];
    for j in 0..n {
        let mut cl = Classes::default();
        let mut doc = if j == 0 { base.clone() } else { gen_doc(&mut rng, &GenOpts::common(), &mut cl) };
        let mut src = ALL[rng.below(4)];
        if src == Fmt::Toml {
            match tomlify(&doc) {
                Some(d) => doc = d,
                None => src = Fmt::Json,
            }
        }
        let mut feats = Feats::default();
        let plain = rng.chance(1, 2);
        let bytes = spell(src, &doc, &mut rng, &mut feats, plain);
        let from = if rng.chance(2, 3) && detected_as(&bytes) == Some(src) { None } else { Some(src) };
        let mode = match rng.below(4) {
            0 | 1 => Mode::Slice,
            2 => Mode::Reader(Sched::All),
            _ => Mode::Reader(Sched::Fixed(*rng.pick(&[3usize, 7, 4096]))),
        };
        srcs.push(src);
        calls.push(Call { input: bytes, from, mode });
    }
    let alone: Vec<_> = calls.iter().map(|c| run_mode(&c.input, &c.mode, c.from, to)).collect();
    if alone.iter().any(|o| !o.verdict.is_ok()) {
        // the single-document oracle deals with it
        acc.count("shared_translator_batches_skipped");
        return;
    }
    acc.evals += 1;
    acc.count("shared_translator_batches");
    if calls.iter().filter(|c| c.from.is_none()).count() >= 2 {
        acc.count("shared_translator_batches_with_two_detections");
    }
    let (verdicts, wlog) = run_history(&calls, to, crate::mon::MonWriter::new(), true);
    let case = || json!({"part": "shared_translator", "seed": seed, "index": i, "to": to.name(), "calls": calls.iter().zip(&srcs).map(|(c, s)| json!({"source": s.name(), "from": fmts::from_name(c.from), "mode": c.mode.describe(), "input_hex": hex(&c.input), "input_preview": preview(&c.input, 120)})).collect::<Vec<_>>()});
    if let Some(bad) = verdicts.iter().position(|v| !v.is_ok()) {
        acc.violation(Violation { sig: format!("shared translator ->{}: a call fails that succeeds alone: {}", to.name(), ev::truncate(&mask(verdicts[bad].text()), 70)), case: case(), observed: format!("call {bad} of {n}: {}", verdicts[bad].show()), expected: "Ok, as when translated alone".into() });
        return;
    }
    let mut off = 0;
    for (j, o) in alone.iter().enumerate() {
        let got = wlog.bytes.get(off..(off + o.out.len()).min(wlog.bytes.len())).unwrap_or(&[]);
        if got != &o.out[..] {
            acc.violation(Violation { sig: format!("shared translator {}->{}: a document is written differently than when translated alone", srcs[j].name(), to.name()), case: case(), observed: format!("document {j} of {n}: [{}] on the shared translator, [{}] alone", preview(got, 160), preview(&o.out, 160)), expected: "the same bytes (hence the same value) as when translated alone".into() });
            return;
        }
        off += o.out.len();
    }
    if off != wlog.bytes.len() {
        acc.violation(Violation { sig: format!("shared translator ->{}: extra output", to.name()), case: case(), observed: format!("{} bytes beyond the {n} documents: [{}]", wlog.bytes.len() - off, preview(&wlog.bytes[off..], 120)), expected: "nothing else".into() });
    }
}

/// Calls that FAIL in between: 3-5 calls on one Translator, some of them on damaged input (cut short,
/// a stray byte) or through a reader that starts failing, every source format, named or detected. What a
/// call does - verdict and every byte it writes - must be what it does on a fresh Translator: nothing a
/// failed call leaves behind (a buffer, a remembered format, a half-read document) may reach a later one.
fn shared_translator_with_failures(seed: u64, i: usize, acc: &mut Acc) {
    use crate::run::{run_history, Call};
    let mut rng = Rng::derive(seed, 0xc01f, i as u64);
    let to = fmts::STREAMING[i % 3];
    let n = rng.range(3, 5);
    let mut calls: Vec<Call> = vec![];
    let mut kinds: Vec<&'static str> = vec![];
    // one source format dominates a batch, so that consecutive calls often share it
    let main_src = ALL[rng.below(4)];
    for _ in 0..n {
        let mut cl = Classes::default();
        let mut doc = gen_doc(&mut rng, &GenOpts { max_depth: 3, max_width: 4, ..GenOpts::common() }, &mut cl);
        let mut src = if rng.chance(2, 3) { main_src } else { ALL[rng.below(4)] };
        if src == Fmt::Toml {
            match tomlify(&doc) {
                Some(d) => doc = d,
                None => src = Fmt::Json,
            }
        }
        let mut feats = Feats::default();
        let mut bytes = spell(src, &doc, &mut rng, &mut feats, true);
        let mut mode = match rng.below(4) {
            0 => Mode::Slice,
            1 => Mode::Reader(Sched::All),
            _ => Mode::Reader(Sched::Fixed(*rng.pick(&[3usize, 7, 4096]))),
        };
        let kind = match rng.below(5) {
            0 if bytes.len() > 2 => {
                let at = 1 + rng.below(bytes.len() - 1);
                bytes.truncate(at);
                "cut_short"
            }
            1 if !bytes.is_empty() => {
                let at = rng.below(bytes.len() + 1);
                bytes.insert(at, *rng.pick(&[b'}', b']', b'"', 0xff, 0xc1, b'=', b':']));
                "stray_byte"
            }
            2 => {
                mode = Mode::Reader(Sched::FaultAt(*rng.pick(&[3usize, 64, 4096]), rng.below(bytes.len() + 1)));
                "failing_reader"
            }
            _ => "intact",
        };
        let from = if rng.chance(1, 3) && detected_as(&bytes) == Some(src) { None } else { Some(src) };
        kinds.push(kind);
        calls.push(Call { input: bytes, from, mode });
    }
    let alone: Vec<_> = calls.iter().map(|c| run_mode(&c.input, &c.mode, c.from, to)).collect();
    acc.evals += 1;
    acc.count("shared_translator_batches_with_failing_calls");
    let n_fail = alone.iter().filter(|o| !o.verdict.is_ok()).count();
    if n_fail > 0 && alone.last().map(|o| o.verdict.is_ok()).unwrap_or(false) {
        acc.count("successful_calls_after_failed_calls");
    }
    let (verdicts, wlog) = run_history(&calls, to, crate::mon::MonWriter::new(), false);
    if verdicts.len() != calls.len() {
        acc.violation(Violation { sig: "shared translator: panic".into(), case: json!({"part": "shared_translator_with_failures", "seed": seed, "index": i}), observed: verdicts.last().map(|v| v.show()).unwrap_or_default(), expected: "no panic".into() });
        return;
    }
    let case = || json!({"part": "shared_translator_with_failures", "seed": seed, "index": i, "to": to.name(), "calls": calls.iter().zip(&kinds).map(|(c, k)| json!({"kind": k, "from": fmts::from_name(c.from), "mode": c.mode.describe(), "input_hex": hex(&c.input), "input_preview": preview(&c.input, 120)})).collect::<Vec<_>>()});
    let mut off = 0;
    for (j, o) in alone.iter().enumerate() {
        if verdicts[j].class() != o.verdict.class() {
            acc.violation(Violation { sig: format!("shared translator ->{}: after earlier calls (some failed) a call ends differently than on a fresh translator", to.name()), case: case(), observed: format!("call {j} of {n} ({}): {} on the shared translator, {} alone", kinds[j], verdicts[j].show(), o.verdict.show()), expected: "the same verdict as on a fresh translator".into() });
            return;
        }
        let got = wlog.bytes.get(off..(off + o.out.len()).min(wlog.bytes.len())).unwrap_or(&[]);
        if got != &o.out[..] {
            acc.violation(Violation { sig: format!("shared translator ->{}: after earlier calls (some failed) a call writes other bytes than on a fresh translator", to.name()), case: case(), observed: format!("call {j} of {n} ({}): [{}] on the shared translator, [{}] alone", kinds[j], preview(got, 160), preview(&o.out, 160)), expected: "the same bytes as on a fresh translator".into() });
            return;
        }
        off += o.out.len();
    }
    if off != wlog.bytes.len() {
        acc.violation(Violation { sig: format!("shared translator ->{}: extra output", to.name()), case: case(), observed: format!("{} bytes beyond what the {n} calls write alone: [{}]", wlog.bytes.len() - off, preview(&wlog.bytes[off..], 120)), expected: "nothing else".into() });
    }
}

/// MessagePack's 32-bit float spelling of a number, MessagePack to MessagePack: the value that comes out -
/// whichever width it is written in - is the identical binary64 value (every binary32 is one). (To the text
/// formats xt writes such a value with binary32 digits, which is the recorded finding
/// C06-f32-text-not-fixed-point seen from another side; those pairs are not judged here.)
fn float32_spellings(seed: u64, i: usize, acc: &mut Acc) {
    let mut rng = Rng::derive(seed, 0xc01a, i as u64);
    let specials: [f32; 12] = [0.1, 0.2, 0.3, 1.1, f32::MAX, f32::MIN_POSITIVE, 1.0e-45, 3.4028233e38, 16777217.0, 0.33333334, 2.5517221e14, -0.7];
    let vals: Vec<f32> = (0..rng.range(1, 6)).map(|_| if rng.chance(1, 2) { *rng.pick(&specials) } else { f32::from_bits(rng.next() as u32) }).filter(|v| v.is_finite()).collect();
    if vals.is_empty() {
        return;
    }
    let doc = Val::Map(vec![(Val::s("k"), Val::Seq(vals.iter().map(|v| Val::F32(v.to_bits())).collect())), (Val::s("n"), Val::Int(vals.len() as i128))]);
    let mut feats = Feats::default();
    let plain = rng.chance(1, 2);
    let bytes = spell(Fmt::Msgpack, &doc, &mut rng, &mut feats, plain);
    for (mode, from) in [(Mode::Slice, Some(Fmt::Msgpack)), (Mode::Reader(Sched::Fixed(3)), Some(Fmt::Msgpack)), (Mode::Slice, None), (Mode::Reader(Sched::All), None)] {
        acc.evals += 1;
        acc.count("float32_spellings_msgpack_to_msgpack");
        let o = run_mode(&bytes, &mode, from, Fmt::Msgpack);
        let got: Option<Vec<f64>> = if o.verdict.is_ok() {
            match crate::read::msgpack::read_all(&o.out) {
                Ok(d) if d.len() == 1 => match &d[0] {
                    Val::Map(m) if m.len() == 2 => match &m[0].1 {
                        Val::Seq(xs) => xs.iter().map(|x| match x { Val::F32(b) => Some(f32::from_bits(*b) as f64), Val::Float(b) => Some(f64::from_bits(*b)), _ => None }).collect(),
                        _ => None,
                    },
                    _ => None,
                },
                _ => None,
            }
        } else {
            None
        };
        let want: Vec<f64> = vals.iter().map(|v| *v as f64).collect();
        if got.as_ref().map(|g| g.len() == want.len() && g.iter().zip(&want).all(|(a, b)| a.to_bits() == b.to_bits())) != Some(true) {
            acc.violation(Violation { sig: "msgpack->msgpack: a number spelled as a 32-bit float comes out with another binary64 value".into(), case: json!({"part": "float32", "seed": seed, "index": i}), observed: format!("{}; values {:?}", o.verdict.show(), got), expected: format!("{:?}", want) });
            return;
        }
    }
}

fn in_common_model(v: &Val) -> bool {
    match v {
        Val::Null | Val::Bool(_) | Val::Str(_) => true,
        Val::Int(i) => *i >= i64::MIN as i128 && *i <= u64::MAX as i128,
        Val::Float(b) => f64::from_bits(*b).is_finite(),
        Val::Seq(xs) => xs.iter().all(in_common_model),
        Val::Map(m) => m.iter().all(|(k, x)| matches!(k, Val::Str(_)) && in_common_model(x)),
        _ => false,
    }
}

/// Every hand-written seed input (the rare syntax of each format) that holds exactly one document of the
/// common model, as read by the harness's own reader of the SOURCE format: translated to JSON, MessagePack
/// and YAML, the output must denote that value. The generated spellings never produce most of these forms
/// (directives, tags, anchors, merge-key look-alikes, dotted keys, inline tables, radix integers, ...).
fn seed_values(acc: &mut Acc) {
    for s in crate::corpus::seeds() {
        let Some(src) = s.fmt else { continue };
        let r: Result<Vec<Val>, String> = match src {
            Fmt::Json => crate::read::json::read_many(&s.bytes).map(|v| v.into_iter().map(|x| x.0).collect()),
            Fmt::Msgpack => crate::read::msgpack::read_all(&s.bytes),
            Fmt::Yaml => crate::read::yaml::read_docs(&s.bytes).map(|v| v.into_iter().map(|d| d.val).collect()),
            Fmt::Toml => crate::read::toml::read(&s.bytes).map(|v| vec![v]),
        };
        let Ok(docs) = r else { continue };
        if docs.len() != 1 || !in_common_model(&docs[0]) {
            continue;
        }
        acc.count("seed_inputs_inside_the_common_model");
        for to in fmts::STREAMING {
            for mode in [Mode::Slice, Mode::Reader(Sched::Fixed(5))] {
                // the property speaks of what xt translates: a form xt refuses (a tag it does not resolve, ...) is
                // not judged here, a form it accepts must come out with its value
                let o = run_mode(&s.bytes, &mode, Some(src), to);
                if !o.verdict.is_ok() {
                    acc.count("seed_inputs_refused_by_xt");
                    if o.verdict.is_panic() {
                        acc.violation(Violation { sig: format!("seed {}->{}: panic", src.name(), to.name()), case: case_json(&s.bytes, Some(src), src, to, &mode, &docs[0]), observed: o.verdict.show(), expected: "no panic".into() });
                    }
                    continue;
                }
                judge_outcome(o, &s.bytes, Some(src), src, to, &mode, &docs[0], acc);
            }
        }
    }
}

fn detected_as(input: &[u8]) -> Option<Fmt> {
    xt::verif::detect_slice(input).ok().flatten().map(Fmt::from_xt)
}

pub fn run(ctx: &Ctx) -> i32 {
    let n = ctx.size(6000, 300000);
    let seed = ctx.seed;
    let acc = crate::par::run(n, 8, |i, acc| {
        let mut rng = Rng::derive(seed, 0xc01, i as u64);
        let mut cl = Classes::default();
        let heavy = i % 150 == 149;
        let base = if heavy {
            acc.count("heavy_documents");
            crate::gen::gen_heavy_doc(&mut rng)
        } else {
            gen_doc(&mut rng, &GenOpts::common(), &mut cl)
        };
        let tdoc = tomlify(&base).or_else(|| {
            let mut c2 = Classes::default();
            Some(gen_doc(&mut rng, &GenOpts::toml(), &mut c2))
        });
        cl.add_to(acc);
        let nontrivial = cl.hostile() > 0 || base.depth() >= 3;
        if nontrivial {
            acc.distinct(&base.show());
        }
        acc.sample_every(997, || json!({"model_value": ev::truncate(&base.show(), 300), "depth": base.depth(), "nodes": base.nodes()}));
        for src in ALL {
            for to in ALL {
                let doc = if src == Fmt::Toml || to == Fmt::Toml {
                    match &tdoc {
                        Some(d) => d.clone(),
                        None => continue,
                    }
                } else {
                    base.clone()
                };
                acc.max("max_depth", doc.depth() as u64);
                // spellings: one conventional, two hostile
                for sp in 0..(if heavy { 1 } else { 3 }) {
                    let mut feats = Feats::default();
                    let bytes = spell(src, &doc, &mut rng, &mut feats, sp == 0 && !heavy);
                    for (k, v) in &feats.0 {
                        acc.add(&format!("spelling_{k}"), *v as u64);
                    }
                    let modes = [Mode::Slice, Mode::Reader(match if heavy { 1 + rng.below(3) } else { rng.below(4) } {
                        0 => Sched::One,
                        1 => Sched::All,
                        2 => Sched::Fixed(*rng.pick(if heavy { &[4096usize, 8191, 8192, 16384][..] } else { &[2usize, 3, 7, 4096][..] })),
                        _ => Sched::Random(rng.next(), 16),
                    })];
                    // a YAML spelling may also be UTF-16 or UTF-32 text (with a byte order mark)
                    let bytes = match (src == Fmt::Yaml && sp == 2 && i % 3 == 0, std::str::from_utf8(&bytes)) {
                        (true, Ok(t)) => {
                            acc.count("yaml_spelled_in_utf16_or_utf32");
                            // without a byte order mark only where YAML allows it: an ASCII first character
                            let starts_ascii = t.chars().next().map(|c| c.is_ascii() && c != '\0').unwrap_or(false);
                            let bom = !starts_ascii || rng.chance(1, 2);
                            if !bom {
                                acc.count("yaml_spelled_in_utf16_or_utf32_without_bom");
                            }
                            crate::c07::ENCS[rng.below(4)].encode(t, bom)
                        }
                        _ => bytes,
                    };
                    let det = detected_as(&bytes);
                    if sp == 2 && i % 2 == 0 {
                        judge_interrupted(&bytes, src, to, 2 + (i as u64 / 2) % 4, &doc, acc);
                    }
                    for mode in &modes {
                        judge(&bytes, Some(src), src, to, mode, &doc, acc);
                        if det == Some(src) {
                            acc.count("detected_runs");
                            judge(&bytes, None, src, to, mode, &doc, acc);
                        }
                    }
                }
            }
        }
        if !heavy {
            shared_translator_batch(seed, i, &base, acc);
            shared_translator_with_failures(seed, i, acc);
            float32_spellings(seed, i, acc);
        }
        // non-finite floats for the formats that have them
        if i % 4 == 0 {
            let nf = Val::Map(vec![
                (Val::s("nan"), Val::Float(f64::NAN.to_bits())),
                (Val::s("pinf"), Val::Float(f64::INFINITY.to_bits())),
                (Val::s("ninf"), Val::Float(f64::NEG_INFINITY.to_bits())),
                (Val::s("seq"), Val::Seq(vec![Val::Float(f64::INFINITY.to_bits()), Val::Float(f64::NAN.to_bits())])),
            ]);
            for src in [Fmt::Msgpack, Fmt::Toml, Fmt::Yaml] {
                for to in [Fmt::Msgpack, Fmt::Toml, Fmt::Yaml] {
                    let mut feats = Feats::default();
                    let bytes = spell(src, &nf, &mut rng, &mut feats, false);
                    acc.count("nonfinite_float_docs");
                    judge(&bytes, Some(src), src, to, &Mode::Slice, &nf, acc);
                    judge(&bytes, Some(src), src, to, &Mode::Reader(Sched::Fixed(3)), &nf, acc);
                }
            }
        }
    });
    let mut acc = acc;
    seed_values(&mut acc);
    let rule = format!(
        "{} generated documents of the common model (scalar pools aimed at type look-alike strings, YAML indicators, control/BOM/non-character/astral code points, integer boundaries of every width, 17-digit and special floats; depth up to 64; wide collections at MessagePack header thresholds; every 150th document a 'heavy' one: 4 095..70 000 entries, or tens of KiB of multi-byte text) x 16 (source,target) pairs (TOML pairs on the TOML-representable restriction) x 3 spellings (1 conventional, 2 hostile; every third document's last YAML spelling re-encoded as UTF-16/32 with a byte order mark) x [slice, 1 scheduled reader] x [explicit, detected when the detect hook names the source format]; plus one batch per document of 2-3 documents in different source formats through ONE translator (detection where possible), each output document compared with its translation alone, and one batch of 3-5 calls on ONE translator in which some calls fail (input cut short, a stray byte, a reader that starts failing): every call must end, and write, exactly as on a fresh translator; per document one MessagePack document of numbers in the 32-bit float spelling, MessagePack to MessagePack (identical binary64 values); every hand-written seed input that holds one common-model document (as read by the harness's reader of the source format) to the three streaming targets; oracle = independent reader of the target; distinct non-trivial = distinct documents containing >= 1 hostile-class scalar or depth >= 3",
        n
    );
    ev::finish(
        Finish {
            ctx,
            level: "exploration",
            rule,
            assumptions: vec![
                "independent readers: hand-written JSON and MessagePack decoders, libyaml events + own YAML 1.2 core-schema resolution, toml_edit document walk".into(),
                "spellers validated against the readers at start-up (self-check)".into(),
            ],
            extra: serde_json::Map::new(),
            exhaustive: false,
            min_distinct: 200,
            must_reach: vec![("heavy_documents".into(), 10), ("detected_runs".into(), 100), ("class_lookalike_strings".into(), 50), ("class_float_values".into(), 50), ("successful_calls_after_failed_calls".into(), 1000), ("float32_spellings_msgpack_to_msgpack".into(), 1000), ("shared_translator_batches".into(), 1000), ("yaml_spelled_in_utf16_or_utf32".into(), 500), ("interrupted_reader_ok".into(), 500), ("yaml_spelled_in_utf16_or_utf32_without_bom".into(), 100), ("shared_translator_batches_with_two_detections".into(), 100)],
        },
        acc,
    )
}

pub fn replay(v: &Value) -> i32 {
    let c = &v["case"];
    if c["part"].as_str() == Some("float32") {
        let mut acc = Acc::default();
        float32_spellings(c["seed"].as_u64().unwrap_or(0), c["index"].as_u64().unwrap_or(0) as usize, &mut acc);
        return if acc.vio_count > 0 {
            println!("VIOLATION property=C01 replay=<this file> (reproduced): {}", acc.violations[0].observed);
            1
        } else {
            println!("not reproduced");
            0
        };
    }
    if c["part"].as_str() == Some("shared_translator_with_failures") {
        let (Some(seed), Some(i)) = (c["seed"].as_u64(), c["index"].as_u64()) else { return 2 };
        let mut acc = Acc::default();
        shared_translator_with_failures(seed, i as usize, &mut acc);
        return if acc.vio_count > 0 {
            println!("VIOLATION property=C01 replay=<this file> (reproduced): {}", acc.violations[0].observed);
            1
        } else {
            println!("not reproduced");
            0
        };
    }
    if c["part"].as_str() == Some("shared_translator") {
        let (Some(seed), Some(i)) = (c["seed"].as_u64(), c["index"].as_u64()) else { return 2 };
        let mut rng = Rng::derive(seed, 0xc01, i);
        let mut cl = Classes::default();
        let base = gen_doc(&mut rng, &GenOpts::common(), &mut cl);
        let mut acc = Acc::default();
        shared_translator_batch(seed, i as usize, &base, &mut acc);
        return if acc.vio_count > 0 {
            println!("VIOLATION property=C01 replay=<this file> (reproduced): {}", acc.violations[0].observed);
            1
        } else {
            println!("not reproduced");
            0
        };
    }
    let (Some(input), Some(from), Some(src), Some(to), Some(mode)) = (c["input_hex"].as_str().and_then(unhex), c["from"].as_str().and_then(fmts::parse_from), c["source_format"].as_str().and_then(Fmt::parse), c["to"].as_str().and_then(Fmt::parse), c["mode"].as_str().and_then(Mode::parse)) else {
        println!("bad replay case");
        return 2;
    };
    // the model value is recovered by reading the input with the independent reader of the source format
    let doc = match read_source(src, &input) {
        Ok(d) => d,
        Err(e) => {
            println!("cannot re-read the input with the independent reader: {e}");
            return 2;
        }
    };
    let o = run_mode(&input, &mode, from, to);
    println!("input:  [{}]", preview(&input, 600));
    println!("model:  {}", doc.show());
    println!("from={} to={} mode={}", fmts::from_name(from), to.name(), mode.describe());
    println!("xt:     {} out=[{}]", o.verdict.show(), preview(&o.out, 600));
    let mut acc = Acc::default();
    judge(&input, from, src, to, &mode, &doc, &mut acc);
    if acc.vio_count > 0 {
        println!("VIOLATION property=C01 replay=<this file> (reproduced): {}", acc.violations[0].observed);
        1
    } else {
        println!("not reproduced (or a listed known finding)");
        0
    }
}

pub fn read_source(src: Fmt, input: &[u8]) -> Result<Val, String> {
    if src == Fmt::Yaml {
        // replayed inputs may be UTF-16/32 with a BOM: decode with the standard library first
        let units16 = |le: bool, b: &[u8]| -> Option<String> { char::decode_utf16(b.chunks_exact(2).map(|c| if le { u16::from_le_bytes([c[0], c[1]]) } else { u16::from_be_bytes([c[0], c[1]]) })).collect::<Result<String, _>>().ok() };
        let units32 = |le: bool, b: &[u8]| -> Option<String> { b.chunks_exact(4).map(|c| char::from_u32(if le { u32::from_le_bytes([c[0], c[1], c[2], c[3]]) } else { u32::from_be_bytes([c[0], c[1], c[2], c[3]]) })).collect::<Option<String>>() };
        let decoded = if input.starts_with(&[0xff, 0xfe, 0, 0]) {
            units32(true, &input[4..])
        } else if input.starts_with(&[0, 0, 0xfe, 0xff]) {
            units32(false, &input[4..])
        } else if input.starts_with(&[0xff, 0xfe]) {
            units16(true, &input[2..])
        } else if input.starts_with(&[0xfe, 0xff]) {
            units16(false, &input[2..])
        } else {
            None
        };
        if let Some(t) = decoded {
            return crate::selfcheck::read_back(src, t.as_bytes());
        }
    }
    crate::selfcheck::read_back(src, input)
}

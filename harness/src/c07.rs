//! C07 — YAML in UTF-16/UTF-32 translates exactly like the same text in UTF-8.
//!
//! (a) translation level: generated YAML texts in 4 encodings x BOM/no BOM x
//! slice/reader x explicit/detected must give the verdict and output of the
//! UTF-8 text. (b) re-encoder level (hook): EVERY UTF-16 code unit, EVERY
//! surrogate pair and EVERY UTF-32 scalar value, both byte orders, with and
//! without BOM, read through varying buffer sizes, against a reference decoder
//! built on the standard library; ill-formed input must end in an error and
//! never produce a fabricated character.

use std::io::{BufReader, Read};

use serde_json::{json, Value};

use crate::corpus::yaml_stream;
use crate::ev::{self, Acc, Ctx, Finish, Violation};
use crate::fmts::{Fmt, ALL};
use crate::gen::{gen_doc, Classes, GenOpts};
use crate::model::{hex, preview, unhex};
use crate::mon::{Sched, SchedReader};
use crate::rng::Rng;
use crate::run::{guarded_any, run_mode, Mode};
use crate::spell::Feats;

#[derive(Clone, Copy, Debug, PartialEq)]
pub enum Enc {
    U16Le,
    U16Be,
    U32Le,
    U32Be,
}

pub const ENCS: [Enc; 4] = [Enc::U16Le, Enc::U16Be, Enc::U32Le, Enc::U32Be];

impl Enc {
    pub fn name(self) -> &'static str {
        match self {
            Enc::U16Le => "utf16le",
            Enc::U16Be => "utf16be",
            Enc::U32Le => "utf32le",
            Enc::U32Be => "utf32be",
        }
    }
    pub fn parse(s: &str) -> Option<Enc> {
        ENCS.into_iter().find(|e| e.name() == s)
    }
    pub fn unit16(self, u: u16, out: &mut Vec<u8>) {
        match self {
            Enc::U16Le => out.extend_from_slice(&u.to_le_bytes()),
            Enc::U16Be => out.extend_from_slice(&u.to_be_bytes()),
            _ => unreachable!(),
        }
    }
    pub fn unit32(self, u: u32, out: &mut Vec<u8>) {
        match self {
            Enc::U32Le => out.extend_from_slice(&u.to_le_bytes()),
            Enc::U32Be => out.extend_from_slice(&u.to_be_bytes()),
            _ => unreachable!(),
        }
    }
    pub fn is16(self) -> bool {
        matches!(self, Enc::U16Le | Enc::U16Be)
    }
    pub fn encode(self, text: &str, bom: bool) -> Vec<u8> {
        let mut out = vec![];
        let s: String = if bom { format!("\u{feff}{text}") } else { text.to_string() };
        if self.is16() {
            for u in s.encode_utf16() {
                self.unit16(u, &mut out);
            }
        } else {
            for c in s.chars() {
                self.unit32(c as u32, &mut out);
            }
        }
        out
    }
}

// ------------------------------------------------------------------ (a)

pub fn translation_level(text: &str, enc: Enc, bom: bool, mode: &Mode, detect: bool, to: Fmt, acc: &mut Acc) {
    acc.evals += 1;
    let from = if detect { None } else { Some(Fmt::Yaml) };
    let base = run_mode(text.as_bytes(), mode, from, to);
    let encoded = enc.encode(text, bom);
    let got = run_mode(&encoded, mode, from, to);
    acc.count(&format!("texts_{}_{}", enc.name(), if bom { "bom" } else { "nobom" }));
    if matches!(mode, Mode::Slice) {
        acc.count("translation_level_slice");
    } else {
        acc.count("translation_level_reader");
    }
    // error positions are byte offsets in whatever the parser saw and may differ; the class must agree
    let same = base.verdict.class() == got.verdict.class() && if base.verdict.is_ok() { base.out == got.out } else { crate::run::prefix_comparable(&base.out, &got.out) };
    if !same {
        acc.violation(Violation {
            sig: format!("{} {} {} {}: differs from UTF-8", enc.name(), if bom { "bom" } else { "nobom" }, if matches!(mode, Mode::Slice) { "slice" } else { "reader" }, if detect { "detected" } else { "explicit" }),
            case: json!({"part": "translation", "text_hex": hex(text.as_bytes()), "text_preview": preview(text.as_bytes(), 200), "encoding": enc.name(), "bom": bom, "mode": mode.describe(), "detect": detect, "to": to.name()}),
            observed: format!("UTF-8: {} [{}]; {}: {} [{}]", base.verdict.show(), preview(&base.out, 100), enc.name(), got.verdict.show(), preview(&got.out, 100)),
            expected: "the same verdict and output as the UTF-8 text".into(),
        });
    }
}

// ------------------------------------------------------------------ (b)

/// Reads the re-encoder to the end with output buffers of size `out_buf`
/// (0 = sizes cycling 1..=9). Returns the bytes produced and whether the
/// stream ended with an error.
fn drain(mut r: Box<dyn Read + '_>, out_buf: usize) -> (Vec<u8>, Option<String>) {
    let mut out = vec![];
    let mut buf = [0u8; 64];
    let mut i = 0usize;
    loop {
        let n = if out_buf == 0 { 1 + i % 9 } else { out_buf.min(64) };
        i += 1;
        match r.read(&mut buf[..n]) {
            Ok(0) => return (out, None),
            Ok(m) => out.extend_from_slice(&buf[..m]),
            Err(e) => return (out, Some(e.to_string())),
        }
    }
}

pub struct Unit {
    /// raw encoded input
    pub bytes: Vec<u8>,
    /// reference UTF-8 of the well-formed prefix (one leading BOM stripped)
    pub reference: Vec<u8>,
    /// whether the whole input is well-formed
    pub well_formed: bool,
}

/// Reference decoder written with the standard library.
pub fn reference_decode(enc: Enc, bytes: &[u8]) -> Unit {
    let mut chars: Vec<char> = vec![];
    let mut ok = true;
    if enc.is16() {
        let mut units = vec![];
        let mut it = bytes.chunks_exact(2);
        for c in &mut it {
            units.push(match enc {
                Enc::U16Le => u16::from_le_bytes([c[0], c[1]]),
                _ => u16::from_be_bytes([c[0], c[1]]),
            });
        }
        let odd = !it.remainder().is_empty();
        for r in char::decode_utf16(units) {
            match r {
                Ok(c) => chars.push(c),
                Err(_) => {
                    ok = false;
                    break;
                }
            }
        }
        if odd {
            ok = false;
        }
    } else {
        let mut it = bytes.chunks_exact(4);
        for c in &mut it {
            let u = match enc {
                Enc::U32Le => u32::from_le_bytes([c[0], c[1], c[2], c[3]]),
                _ => u32::from_be_bytes([c[0], c[1], c[2], c[3]]),
            };
            match char::from_u32(u) {
                Some(c) => chars.push(c),
                None => {
                    ok = false;
                    break;
                }
            }
        }
        if ok && !it.remainder().is_empty() {
            ok = false;
        }
    }
    let mut s: String = chars.into_iter().collect();
    if s.starts_with('\u{feff}') {
        s.remove(0);
    }
    Unit { bytes: bytes.to_vec(), reference: s.into_bytes(), well_formed: ok }
}

pub fn reencoder_case(enc: Enc, bytes: &[u8], in_cap: usize, out_buf: usize, via_detection: bool, label: &str, acc: &mut Acc) {
    acc.evals += 1;
    let unit = reference_decode(enc, bytes);
    let res = guarded_any(|| {
        let src = BufReader::with_capacity(in_cap.max(1), SchedReader::new(bytes, Sched::Fixed(in_cap.max(1))));
        let r: Box<dyn Read> = if via_detection {
            match xt::verif::yaml_reencoder(src) {
                Ok(r) => r,
                Err(e) => return (vec![], Some(format!("constructor: {e}"))),
            }
        } else {
            xt::verif::yaml_reencoder_as(src, enc.name()).expect("encoding name")
        };
        drain(r, out_buf)
    });
    let case = || json!({"part": "reencoder", "encoding": enc.name(), "input_hex": if bytes.len() <= 4096 { hex(bytes) } else { format!("({} bytes, class {label})", bytes.len()) }, "class": label, "in_cap": in_cap, "out_buf": out_buf, "via_detection": via_detection});
    match res {
        Err(p) => acc.violation(Violation { sig: format!("re-encoder panic ({label})"), case: case(), observed: format!("panic: {p}"), expected: "bytes or an error".into() }),
        Ok((out, err)) => {
            if unit.well_formed {
                acc.count("wellformed_streams");
                acc.add("characters_decoded", String::from_utf8_lossy(&unit.reference).chars().count() as u64);
                if err.is_some() || out != unit.reference {
                    let at = out.iter().zip(unit.reference.iter()).position(|(a, b)| a != b).unwrap_or(out.len().min(unit.reference.len()));
                    acc.violation(Violation { sig: format!("re-encoder output differs from the reference decoder ({} {label})", enc.name()), case: case(), observed: format!("error: {:?}; {} bytes produced, {} expected, first difference at byte {at}: got [{}] expected [{}]", err, out.len(), unit.reference.len(), preview(&out[at.min(out.len())..], 24), preview(&unit.reference[at.min(unit.reference.len())..], 24)), expected: "the reference UTF-8".into() });
                }
            } else {
                acc.count("illformed_streams");
                acc.count(&format!("illformed_{label}"));
                if err.is_none() {
                    acc.violation(Violation { sig: format!("ill-formed {} accepted ({label})", enc.name()), case: case(), observed: format!("no error; produced [{}]", preview(&out, 60)), expected: "an error".into() });
                } else if !crate::run::is_prefix(&out, &unit.reference) {
                    acc.violation(Violation { sig: format!("ill-formed {}: fabricated bytes before the error ({label})", enc.name()), case: case(), observed: format!("produced [{}] before the error; reference prefix is [{}]", preview(&out, 60), preview(&unit.reference, 60)), expected: "only bytes of the well-formed prefix".into() });
                }
            }
        }
    }
}

static THOROUGH: std::sync::atomic::AtomicBool = std::sync::atomic::AtomicBool::new(false);

fn thorough_flag() -> bool {
    THOROUGH.load(std::sync::atomic::Ordering::Relaxed)
}

/// Child-process entry: the exhaustive re-encoder stage, isolated so that an
/// abort inside the decoder (e.g. a failed unsafe precondition) is attributed
/// to this stage instead of killing the whole check.
pub fn enum_main(args: &[String]) -> i32 {
    let tier = args.iter().position(|a| a == "--tier").and_then(|p| args.get(p + 1)).cloned().unwrap_or_else(|| "quick".into());
    let seed = args.iter().position(|a| a == "--seed").and_then(|p| args.get(p + 1)).and_then(|s| s.parse().ok()).unwrap_or(0);
    let ctx = Ctx::new("C07", &tier, seed);
    let mut acc = Acc::default();
    exhaustive_reencoder(&ctx, &mut acc);
    println!("XTV-ACC {}", serde_json::to_string(&acc.to_json()).unwrap());
    0
}

fn exhaustive_reencoder(ctx: &Ctx, acc_total: &mut Acc) {
    THOROUGH.store(ctx.thorough(), std::sync::atomic::Ordering::Relaxed);
    // work items: (kind, enc, index)
    #[derive(Clone, Copy)]
    enum W {
        Bmp(Enc, bool),                 // all non-surrogate BMP units in one stream
        PairsOfLead(Enc, u16),          // all 1024 pairs of one lead surrogate
        Utf32Plane(Enc, u32, bool),     // all scalar values of one plane
        Ill16(Enc, u16),                // ill-formed classes around one surrogate value block
        SurrogateSquare(Enc, u16),      // one first surrogate unit x EVERY second surrogate unit
        Ill32(Enc, u32),
        AfterSpecial(Enc, u32),         // every BMP character directly behind (and in front of) one special character
    }
    let mut work: Vec<W> = vec![];
    for enc in [Enc::U16Le, Enc::U16Be] {
        work.push(W::Bmp(enc, false));
        work.push(W::Bmp(enc, true));
        for lead in 0xD800u16..0xDC00 {
            work.push(W::PairsOfLead(enc, lead));
        }
        for blk in 0..32u16 {
            work.push(W::Ill16(enc, 0xD800 + blk * 64));
        }
        // every ordered pair of surrogate units: the 1 048 576 well-formed pairs are
        // covered above; the other 3 145 728 are ill-formed (quick: every 16th first unit)
        for first in 0xD800u16..0xE000 {
            if thorough_flag() || matches!(first, 0xD800 | 0xDBFF | 0xDC00 | 0xDFFF) || first % 16 == (first >> 4) % 16 {
                work.push(W::SurrogateSquare(enc, first));
            }
        }
    }
    for enc in [Enc::U32Le, Enc::U32Be] {
        for plane in 0..17u32 {
            work.push(W::Utf32Plane(enc, plane, plane % 2 == 0));
        }
        for blk in 0..32u32 {
            work.push(W::Ill32(enc, 0xD800 + blk * 64));
        }
    }
    // context: every BMP character directly after - and before - a character that text machinery tends to
    // treat specially (line breaks of every kind, the byte order mark, NUL, space, quote, backslash)
    for enc in ENCS {
        for special in [0x0Au32, 0x0D, 0x85, 0x2028, 0x2029, 0xFEFF, 0xFFFE, 0x00, 0x20, 0x22, 0x5C, 0x2D] {
            work.push(W::AfterSpecial(enc, special));
        }
    }
    let thorough = ctx.thorough();
    let acc = crate::par::run(work.len(), 1, |i, acc| {
        let variants: Vec<(usize, usize)> = if thorough { (1..=9).map(|o| (o, o)).chain([(8192, 0), (3, 64)]).collect() } else { vec![(1 + i % 7, 0), (8192, 1 + i % 9)] };
        match work[i] {
            W::Bmp(enc, bom) => {
                let mut b = vec![];
                if bom {
                    enc.unit16(0xFEFF, &mut b);
                }
                // two ASCII characters: encoding detection looks at the first four bytes,
                // and a NUL there would be ambiguous (YAML text cannot contain NUL)
                enc.unit16(b'a' as u16, &mut b);
                enc.unit16(b'b' as u16, &mut b);
                for u in 0u32..0x10000 {
                    if !(0xD800..0xE000).contains(&u) {
                        enc.unit16(u as u16, &mut b);
                    }
                }
                acc.distinct(&(enc.name(), "bmp", bom));
                for (ic, ob) in &variants {
                    reencoder_case(enc, &b, *ic, *ob, false, "all_bmp_units", acc);
                }
                // through encoding detection as well (starts with an ASCII character or a BOM)
                reencoder_case(enc, &b, 8192, 0, true, "all_bmp_units_detected", acc);
            }
            W::AfterSpecial(enc, special) => {
                let mut b = vec![];
                let put = |u: u32, b: &mut Vec<u8>| {
                    if enc.is16() {
                        enc.unit16(u as u16, b);
                    } else {
                        enc.unit32(u, b);
                    }
                };
                put(b'a' as u32, &mut b);
                put(b'b' as u32, &mut b);
                for u in 0u32..0x10000 {
                    if !(0xD800..0xE000).contains(&u) {
                        put(special, &mut b);
                        put(u, &mut b);
                    }
                }
                put(special, &mut b);
                acc.distinct(&(enc.name(), "after_special", special));
                acc.add("characters_in_the_context_of_a_special_one", 63488);
                for (ic, ob) in &variants {
                    reencoder_case(enc, &b, *ic, *ob, false, "every_character_next_to_a_special_one", acc);
                }
            }
            W::PairsOfLead(enc, lead) => {
                let mut b = vec![];
                enc.unit16(b'-' as u16, &mut b);
                for trail in 0xDC00u16..0xE000 {
                    enc.unit16(lead, &mut b);
                    enc.unit16(trail, &mut b);
                }
                acc.distinct(&(enc.name(), "pairs", lead));
                acc.add("surrogate_pairs_enumerated", 1024);
                for (ic, ob) in &variants {
                    reencoder_case(enc, &b, *ic, *ob, false, "all_pairs_of_a_lead", acc);
                }
            }
            W::Utf32Plane(enc, plane, bom) => {
                let mut b = vec![];
                if bom {
                    enc.unit32(0xFEFF, &mut b);
                } else {
                    enc.unit32(b'a' as u32, &mut b);
                }
                let mut n = 0u64;
                for u in plane * 0x10000..(plane + 1) * 0x10000 {
                    if char::from_u32(u).is_some() {
                        enc.unit32(u, &mut b);
                        n += 1;
                    }
                }
                acc.add("utf32_scalars_enumerated", n);
                acc.distinct(&(enc.name(), "plane", plane));
                for (ic, ob) in &variants {
                    reencoder_case(enc, &b, *ic, *ob, false, "all_scalars_of_a_plane", acc);
                }
                if plane == 0 {
                    reencoder_case(enc, &b, 8192, 0, true, "plane_detected", acc);
                }
            }
            W::SurrogateSquare(enc, first) => {
                acc.distinct(&(enc.name(), "square", first));
                for second in 0xD800u16..0xE000 {
                    let well_formed = first < 0xDC00 && second >= 0xDC00;
                    if well_formed {
                        continue;
                    }
                    let mut b = vec![];
                    for u in [0x61u16, first, second, 0x62] {
                        enc.unit16(u, &mut b);
                    }
                    acc.add("illformed_surrogate_pairs_enumerated", 1);
                    reencoder_case(enc, &b, 1 + (second as usize % 4), 1 + (second as usize % 9), false, "surrogate_unit_pair", acc);
                }
            }
            W::Ill16(enc, start) => {
                for s in start..start + 64 {
                    let ctxs: Vec<(Vec<u16>, &str)> = if s < 0xDC00 {
                        vec![(vec![0x61, s], "lone_lead_at_eof"), (vec![0x61, s, 0x62, 0x63], "lead_then_non_trail"), (vec![0x61, s, s, 0xDC00], "lead_then_lead"), (vec![0x61, s, 0xFFFF], "lead_then_bmp_max")]
                    } else {
                        vec![(vec![0x61, s, 0x62], "lone_trail"), (vec![0x61, s, 0xD800], "reversed_pair"), (vec![s], "lone_trail_first")]
                    };
                    for (units, label) in ctxs {
                        let mut b = vec![];
                        for u in &units {
                            enc.unit16(*u, &mut b);
                        }
                        acc.distinct(&(enc.name(), label, s));
                        reencoder_case(enc, &b, 1 + (s as usize % 5), 1 + (s as usize % 9), false, label, acc);
                    }
                }
                // truncated units: odd tails
                let mut b = vec![];
                enc.unit16(0x61, &mut b);
                enc.unit16(0x62, &mut b);
                b.push(0x63);
                reencoder_case(enc, &b, 2, 3, false, "truncated_unit", acc);
                let mut b = vec![];
                enc.unit16(0x61, &mut b);
                enc.unit16(0xD83D, &mut b);
                b.push(0x00);
                reencoder_case(enc, &b, 3, 2, false, "truncated_unit_after_lead", acc);
            }
            W::Ill32(enc, start) => {
                for s in start..start + 64 {
                    let mut b = vec![];
                    enc.unit32(0x61, &mut b);
                    enc.unit32(s, &mut b);
                    enc.unit32(0x62, &mut b);
                    acc.distinct(&(enc.name(), "surrogate32", s));
                    reencoder_case(enc, &b, 1 + (s as usize % 7), 1 + (s as usize % 9), false, "utf32_surrogate_value", acc);
                }
                for big in [0x110000u32, 0x110001, 0x1FFFFF, 0x7FFFFFFF, 0x80000000, 0xFFFFFFFF, 0x00FFFFFF, start.wrapping_mul(0x9E3779B1) | 0x110000] {
                    let mut b = vec![];
                    enc.unit32(0x61, &mut b);
                    enc.unit32(big, &mut b);
                    reencoder_case(enc, &b, 4, 1, false, "utf32_above_10ffff", acc);
                }
                for tail in 1..4usize {
                    let mut b = vec![];
                    enc.unit32(0x61, &mut b);
                    enc.unit32(0x62, &mut b);
                    b.truncate(4 + tail);
                    reencoder_case(enc, &b, 3, 2, false, "truncated_unit", acc);
                }
            }
        }
    });
    acc_total.merge(acc);
}

pub fn run(ctx: &Ctx) -> i32 {
    let n_texts = ctx.size(10000, 300000);
    let seed = ctx.seed;
    let mut acc = crate::par::run(n_texts, 8, |i, acc| {
        let mut rng = Rng::derive(seed, 0xc07, i as u64);
        let mut cl = Classes::default();
        let mut feats = Feats::default();
        let n_docs = *rng.pick(&[1usize, 1, 2, 3]);
        let o = GenOpts { max_depth: 3, max_width: 4, ..GenOpts::common() };
        let docs: Vec<_> = (0..n_docs).map(|_| gen_doc(&mut rng, &o, &mut cl)).collect();
        let bytes = yaml_stream(&docs, &mut rng, &mut feats, i % 5 == 0);
        let text = match String::from_utf8(bytes) {
            Ok(t) => t,
            Err(_) => return,
        };
        // an ASCII-only variant as well: it is valid UTF-8 in every encoding
        let ascii_only = text.is_ascii();
        if ascii_only {
            acc.count("ascii_only_texts");
        }
        acc.distinct(&text);
        acc.sample_every(499, || json!({"text_preview": preview(text.as_bytes(), 120), "ascii_only": ascii_only}));
        let enc = ENCS[i % 4];
        let to = ALL[(i / 4) % 4];
        let starts_ascii = text.chars().next().map(|c| c.is_ascii() && c != '\0').unwrap_or(false);
        let modes = [Mode::Slice, Mode::Reader(Sched::Fixed(1 + i % 9)), Mode::Reader(Sched::Random(rng.next(), 13))];
        for bom in [true, false] {
            if !bom && !starts_ascii {
                continue; // YAML requires a BOM or an ASCII first character
            }
            // the detected variant only where the UTF-8 text itself is detected as YAML
            // (a text that is also valid JSON is JSON in UTF-8 and cannot be in UTF-16)
            let yaml_detected = xt::verif::detect_slice(text.as_bytes()).ok().flatten().map(Fmt::from_xt) == Some(Fmt::Yaml);
            for mode in &modes {
                translation_level(&text, enc, bom, mode, false, to, acc);
                if yaml_detected {
                    acc.count("detected_variants");
                    translation_level(&text, enc, bom, mode, true, to, acc);
                }
            }
        }
    });
    // long texts (tens of KiB) with multi-byte characters on every alignment around the 8 / 16 / 24 / 32 KiB
    // read sizes: several characters are split across consecutive buffer ends of the re-encoder
    let n_long = ctx.size(8, 200);
    let long_acc = crate::par::run(n_long, 1, |i, acc| {
        let text = crate::corpus::boundary_yaml_text(i + (seed as usize % 97));
        acc.count("long_boundary_texts");
        let enc = ENCS[i % 4];
        let to = [Fmt::Json, Fmt::Yaml, Fmt::Msgpack][i % 3];
        for bom in [true, false] {
            for mode in [Mode::Slice, Mode::Reader(Sched::All), Mode::Reader(Sched::Fixed(8191 + i % 3))] {
                translation_level(&text, enc, bom, &mode, false, to, acc);
                translation_level(&text, enc, bom, &mode, true, to, acc);
            }
        }
    });
    acc.merge(long_acc);
    // texts of more than a million characters whose FIRST document is one long flow sequence or one long
    // quoted scalar (cut anywhere, such a document does not parse): 2.4 MB in UTF-16, 4.8 MB in UTF-32
    let mega: Vec<String> = vec![
        format!("[{}z]\n", "abcdefgh, ".repeat(if ctx.thorough() { 300_000 } else { 120_000 })),
        format!("k: \"{}\"\nn: 1\n", "0123456789 ".repeat(if ctx.thorough() { 250_000 } else { 110_000 })),
    ];
    let mega_acc = crate::par::run(mega.len() * 4, 1, |i, acc| {
        let text = &mega[i / 4];
        let enc = ENCS[i % 4];
        acc.count("texts_of_more_than_a_million_characters");
        for mode in [Mode::Reader(Sched::All), Mode::Reader(Sched::Fixed(65536)), Mode::Slice] {
            for detect in [true, false] {
                translation_level(text, enc, i % 8 >= 4, &mode, detect, Fmt::Json, acc);
            }
        }
    });
    acc.merge(mega_acc);
    // ill-formed units DEEP in a stream: behind 16 384 x k - 8 .. + 2 ASCII characters (k = 1, 2, 3), so that the
    // bad unit is met at every position relative to the end of the consumer's 16 KiB request and of the
    // re-encoder's own buffers - at the hook (large output buffers) and through the whole translation
    let mut deep = vec![];
    for k in 1..=3usize {
        for d in 0..11usize {
            for enc in ENCS {
                deep.push((k * 16384 + d - 8, enc));
            }
        }
    }
    let deep_acc = crate::par::run(deep.len(), 4, |i, acc| {
        let (pos, enc) = deep[i];
        let bad_units: &[u32] = if enc.is16() { &[0xD800, 0xDC00, 0xDBFF] } else { &[0x110000, 0xD800, 0xFFFF_FFFF] };
        for (bi, bad) in bad_units.iter().enumerate() {
            let head = format!("k: \"{}", "x".repeat(pos - 4));
            let mut bytes = enc.encode(&head, (i + bi) % 2 == 0);
            if enc.is16() {
                enc.unit16(*bad as u16, &mut bytes);
            } else {
                enc.unit32(*bad, &mut bytes);
            }
            let tail = enc.encode("yz\"\n", false);
            let cut_tail = bi == 2 && i % 3 == 0; // sometimes the bad unit is the last thing in the stream
            if !cut_tail {
                bytes.extend_from_slice(&tail);
            }
            acc.count("illformed_units_deep_in_a_stream");
            for out_buf in [16384usize, 4096, 65536] {
                reencoder_case(enc, &bytes, 8192, out_buf, false, "deep_in_stream", acc);
            }
            for mode in [Mode::Slice, Mode::Reader(Sched::All), Mode::Reader(Sched::Fixed(4096))] {
                for from in [Some(Fmt::Yaml), None] {
                    acc.evals += 1;
                    let o = run_mode(&bytes, &mode, from, Fmt::Json);
                    if o.verdict.is_ok() {
                        acc.violation(Violation { sig: format!("ill-formed {} deep in a stream: the translation succeeds", enc.name()), case: json!({"part": "illformed_deep", "encoding": enc.name(), "characters_before": pos, "bad_unit": format!("{bad:#x}"), "mode": mode.describe(), "detect": from.is_none(), "input_bytes": bytes.len()}), observed: format!("Ok; output [{}...] ({} bytes)", preview(&o.out[..o.out.len().min(40)], 40), o.out.len()), expected: "an error: the input is not well-formed".into() });
                    } else {
                        acc.count("illformed_deep_translation_refused");
                    }
                }
            }
        }
    });
    acc.merge(deep_acc);
    // streams shorter than the four bytes that encoding detection would like to see: one-character
    // documents, with and without the mark (document-less texts are left out: for them the UTF-8 slice
    // path differs from every other path - the recorded finding C02-yaml-documentless-stream)
    for text in ["7", "a", "-", "~", "x", "[1]", "a: 1", "\u{e9}", "\u{65e5}", "\u{1f600}"] {
        let starts_ascii = text.chars().next().map(|c| c.is_ascii() && c != '\0').unwrap_or(false);
        let yaml_detected = xt::verif::detect_slice(text.as_bytes()).ok().flatten().map(Fmt::from_xt) == Some(Fmt::Yaml);
        for enc in ENCS {
            for bom in [true, false] {
                if !bom && !starts_ascii {
                    continue;
                }
                for mode in [Mode::Slice, Mode::Reader(Sched::Fixed(1)), Mode::Reader(Sched::All)] {
                    for to in [Fmt::Json, Fmt::Yaml] {
                        acc.count("tiny_streams");
                        translation_level(text, enc, bom, &mode, false, to, &mut acc);
                        if yaml_detected {
                            translation_level(text, enc, bom, &mode, true, to, &mut acc);
                        }
                    }
                }
            }
        }
    }
    // every hand-written YAML seed (directives that are used, tags, anchors, merge keys, explicit document ends
    // with and without a final line break, block scalars with indicators, ...) in every encoding
    let yaml_seeds: Vec<String> = crate::corpus::seeds().into_iter().filter(|s| s.fmt == Some(Fmt::Yaml)).filter_map(|s| String::from_utf8(s.bytes).ok()).filter(|t| !t.is_empty() && !t.contains('\0') && crate::read::yaml::read_docs(t.as_bytes()).map(|d| !d.is_empty()).unwrap_or(true)).collect();
    let seed_acc = crate::par::run(yaml_seeds.len(), 4, |i, acc| {
        let text = &yaml_seeds[i];
        let starts_ascii = text.chars().next().map(|c| c.is_ascii()).unwrap_or(false);
        let yaml_detected = xt::verif::detect_slice(text.as_bytes()).ok().flatten().map(Fmt::from_xt) == Some(Fmt::Yaml);
        acc.count("yaml_seed_texts_in_every_encoding");
        for enc in ENCS {
            for bom in [true, false] {
                if !bom && !starts_ascii {
                    continue;
                }
                for mode in [Mode::Slice, Mode::Reader(Sched::All), Mode::Reader(Sched::Fixed(5))] {
                    translation_level(text, enc, bom, &mode, false, [Fmt::Json, Fmt::Yaml, Fmt::Msgpack][i % 3], acc);
                    if yaml_detected {
                        translation_level(text, enc, bom, &mode, true, Fmt::Json, acc);
                    }
                }
            }
        }
    });
    acc.merge(seed_acc);
    ev::run_isolated("c07-enum", &["--tier".into(), ctx.tier.clone(), "--seed".into(), ctx.seed.to_string()], "exhaustive re-encoder enumeration", &mut acc);
    let rule = format!("(a) {} generated YAML streams (1-3 documents, hostile scalars, every spelling feature) x one encoding in turn x [BOM, no BOM when the text starts with ASCII] x [slice, reader fixed(1..9), reader random] x [explicit, detected], compared with the same text in UTF-8; texts of tens of KiB with multi-byte characters around the read sizes; 2 texts of more than a million characters (one flow sequence, one quoted scalar) x 4 encodings x [reader whole, reader 64 KiB, slice] x [detected, explicit]; one-character streams; every hand-written YAML seed text (used %TAG / %YAML directives, tags, anchors and aliases, merge keys, explicit document ends with and without a final line break, block scalars) in all four encodings; ill-formed units behind 16 384 x k - 8 .. + 2 characters (k = 1..3) x 4 encodings x 3 bad units, at the hook with 4 / 16 / 64 KiB output buffers and through the translation (slice, reader; named, detected); (b) exhaustive at the re-encoder hook: all 63 488 non-surrogate UTF-16 units, all 1 048 576 surrogate pairs, all 1 112 064 UTF-32 scalar values, both byte orders, with/without BOM, every BMP character directly behind and in front of each of 12 special characters (line breaks of every kind, U+FEFF, U+FFFE, NUL, space, quote, backslash, hyphen) in all four encodings, input buffer capacities and output buffer sizes varied ({} variants each), against a std-based reference decoder; ill-formed classes: EVERY ordered pair of surrogate units that is not a well-formed pair (thorough: all 3 145 728; quick: a sixteenth of the first units x all second units), every surrogate value as lone lead / lead+non-trail / lead+lead / lone trail / reversed pair, truncated units, every UTF-32 value in D800..DFFF, values >= 0x110000; distinct non-trivial = distinct texts plus distinct enumeration blocks", n_texts, if ctx.thorough() { 11 } else { 2 });
    let mut extra = serde_json::Map::new();
    extra.insert("reencoder_enumeration_complete".into(), json!(true));
    ev::finish(
        Finish { ctx, level: "exploration", rule, assumptions: vec!["reference decoder: char::decode_utf16 / char::from_u32 from the standard library".into(), "for failing texts only the verdict class and prefix-comparable output are compared (error positions are byte offsets of what the parser saw)".into()], extra, exhaustive: false, min_distinct: 1000, must_reach: vec![("surrogate_pairs_enumerated".into(), 2 * 1_048_576), ("utf32_scalars_enumerated".into(), 2 * 1_112_064), ("illformed_streams".into(), 10000), ("illformed_surrogate_pairs_enumerated".into(), 100000), ("translation_level_slice".into(), 1000), ("ascii_only_texts".into(), 20), ("detected_variants".into(), 500), ("YAML_SLICE_REENCODE_PATH".into(), 500), ("texts_of_more_than_a_million_characters".into(), 8), ("yaml_seed_texts_in_every_encoding".into(), 100), ("illformed_deep_translation_refused".into(), 1000), ("characters_in_the_context_of_a_special_one".into(), 48 * 63488)] },
        acc,
    )
}

pub fn replay(v: &Value) -> i32 {
    let c = &v["case"];
    let mut acc = Acc::default();
    if c["part"].as_str() == Some("translation") {
        let (Some(text), Some(enc), Some(mode), Some(to)) = (c["text_hex"].as_str().and_then(unhex).and_then(|b| String::from_utf8(b).ok()), c["encoding"].as_str().and_then(Enc::parse), c["mode"].as_str().and_then(Mode::parse), c["to"].as_str().and_then(Fmt::parse)) else {
            println!("bad replay case");
            return 2;
        };
        translation_level(&text, enc, c["bom"].as_bool().unwrap_or(false), &mode, c["detect"].as_bool().unwrap_or(false), to, &mut acc);
    } else {
        let (Some(enc), Some(bytes)) = (c["encoding"].as_str().and_then(Enc::parse), c["input_hex"].as_str().and_then(unhex)) else {
            println!("replay of whole-plane enumeration cases: re-run the check (input too large to embed)");
            return 2;
        };
        reencoder_case(enc, &bytes, c["in_cap"].as_u64().unwrap_or(1) as usize, c["out_buf"].as_u64().unwrap_or(1) as usize, c["via_detection"].as_bool().unwrap_or(false), "replay", &mut acc);
    }
    if acc.vio_count > 0 {
        println!("VIOLATION property=C07 replay=<this file> (reproduced): {}", acc.violations[0].observed);
        1
    } else {
        println!("not reproduced");
        0
    }
}

//! Monitors at the I/O boundary: scheduling / fault-injecting readers and
//! recording / fault-injecting writers. The harness owns every `Read` and
//! `Write` that xt sees, so every call is observable here.

use std::cell::RefCell;
use std::io::{self, Read, Write};
use std::rc::Rc;

use crate::rng::Rng;

pub const READ_MARK: &str = "XTV-INJECTED-READ-FAULT";
pub const WRITE_MARK: &str = "XTV-INJECTED-WRITE-FAULT";
pub const FLUSH_MARK: &str = "XTV-INJECTED-FLUSH-FAULT";

/// How a reader cuts its data into successive read() results.
#[derive(Clone, Debug, PartialEq)]
pub enum Sched {
    /// As much as the caller's buffer takes.
    All,
    /// One byte per read.
    One,
    /// At most n bytes per read.
    Fixed(usize),
    /// Random sizes in 1..=max from a seed.
    Random(u64, usize),
    /// Reads never cross these absolute offsets (sorted); otherwise as large as possible.
    Cuts(Vec<usize>),
    /// At most n bytes per read, and every k-th call fails once with ErrorKind::Interrupted.
    Interrupted(usize, u64),
    /// At most n bytes per read; from offset k on every read fails (and keeps failing).
    FaultAt(usize, usize),
}

impl Sched {
    pub fn describe(&self) -> String {
        match self {
            Sched::All => "all".into(),
            Sched::One => "one".into(),
            Sched::Fixed(n) => format!("fixed:{n}"),
            Sched::Random(s, m) => format!("random:{s}:{m}"),
            Sched::Cuts(c) => format!("cuts:{}", c.iter().map(|x| x.to_string()).collect::<Vec<_>>().join(",")),
            Sched::Interrupted(n, k) => format!("interrupted:{n}:{k}"),
            Sched::FaultAt(n, k) => format!("faultat:{n}:{k}"),
        }
    }
    pub fn parse(s: &str) -> Option<Sched> {
        let parts: Vec<&str> = s.split(':').collect();
        match parts[0] {
            "all" => Some(Sched::All),
            "one" => Some(Sched::One),
            "fixed" => Some(Sched::Fixed(parts.get(1)?.parse().ok()?)),
            "random" => Some(Sched::Random(parts.get(1)?.parse().ok()?, parts.get(2)?.parse().ok()?)),
            "faultat" => Some(Sched::FaultAt(parts.get(1)?.parse().ok()?, parts.get(2)?.parse().ok()?)),
            "interrupted" => Some(Sched::Interrupted(parts.get(1)?.parse().ok()?, parts.get(2)?.parse().ok()?)),
            "cuts" => {
                let v = parts.get(1).copied().unwrap_or("");
                let mut c = vec![];
                for x in v.split(',').filter(|x| !x.is_empty()) {
                    c.push(x.parse().ok()?);
                }
                Some(Sched::Cuts(c))
            }
            _ => None,
        }
    }
}

/// Counters shared between a reader handed to xt and the monitor outside.
#[derive(Default, Debug, Clone)]
pub struct ReadLog {
    pub calls: u64,
    pub zero_len_bufs: u64,
    pub delivered: usize,
    pub reads_after_eof: u64,
    pub faults_returned: u64,
    pub max_buf: usize,
}

/// A reader over a byte slice that follows a schedule, optionally fails from
/// offset `fault_at` on (and keeps failing), and logs every call.
pub struct SchedReader<'a> {
    data: &'a [u8],
    pos: usize,
    sched: Sched,
    rng: Rng,
    fault_at: Option<usize>,
    fault_kind: io::ErrorKind,
    /// how the injected error is built: 0 = io::Error::new(kind, text) (a boxed custom payload),
    /// 1 = io::Error::from_raw_os_error(EIO) (what a real device gives), 2 = a bare ErrorKind (no payload)
    fault_repr: u8,
    /// Some(n): every n-th call fails once with ErrorKind::Interrupted and delivers nothing; the
    /// call after it proceeds normally (what a signal does to a blocking read).
    interrupt_every: Option<u64>,
    pub log: Rc<RefCell<ReadLog>>,
}

/// The text an injected reader error of the given representation displays.
pub fn fault_text(repr: u8, kind: io::ErrorKind) -> String {
    match repr {
        1 => io::Error::from_raw_os_error(libc::EIO).to_string(),
        2 => io::Error::from(kind).to_string(),
        _ => READ_MARK.to_string(),
    }
}

/// Text of the transient error injected by `with_interrupts`.
pub const INTERRUPT_MARK: &str = "xtv: transient interruption (EINTR)";

/// Bound on reads after EOF before the reader starts failing, so that a
/// consumer that never stops asking cannot hang the harness.
pub const EOF_READ_LIMIT: u64 = 100_000;

impl<'a> SchedReader<'a> {
    pub fn new(data: &'a [u8], sched: Sched) -> Self {
        let seed = match &sched {
            Sched::Random(s, _) => *s,
            _ => 0,
        };
        let interrupt_every = match &sched {
            Sched::Interrupted(_, k) => Some((*k).max(2)),
            _ => None,
        };
        let fault_at = match &sched {
            Sched::FaultAt(_, k) => Some(*k),
            _ => None,
        };
        SchedReader { data, pos: 0, sched, rng: Rng::new(seed), fault_at, fault_kind: io::ErrorKind::Other, fault_repr: 0, interrupt_every, log: Rc::new(RefCell::new(ReadLog::default())) }
    }
    pub fn with_interrupts(mut self, every: u64) -> Self {
        self.interrupt_every = Some(every.max(2));
        self
    }
    pub fn with_fault(mut self, k: usize) -> Self {
        self.fault_at = Some(k);
        self
    }
    pub fn with_fault_kind(mut self, kind: io::ErrorKind) -> Self {
        self.fault_kind = kind;
        self
    }
    /// See `fault_repr`. The text such an error displays is `fault_text(repr, kind)`.
    pub fn with_fault_repr(mut self, repr: u8) -> Self {
        self.fault_repr = repr;
        self
    }
    pub fn log_handle(&self) -> Rc<RefCell<ReadLog>> {
        self.log.clone()
    }
}

impl<'a> Read for SchedReader<'a> {
    fn read(&mut self, buf: &mut [u8]) -> io::Result<usize> {
        let mut log = self.log.borrow_mut();
        log.calls += 1;
        log.max_buf = log.max_buf.max(buf.len());
        if buf.is_empty() {
            log.zero_len_bufs += 1;
            return Ok(0);
        }
        if let Some(n) = self.interrupt_every {
            if log.calls % n == 0 {
                return Err(io::Error::new(io::ErrorKind::Interrupted, INTERRUPT_MARK));
            }
        }
        let mut limit = self.data.len();
        if let Some(k) = self.fault_at {
            if self.pos >= k {
                log.faults_returned += 1;
                return Err(match self.fault_repr {
                    1 => io::Error::from_raw_os_error(libc::EIO),
                    2 => io::Error::from(self.fault_kind),
                    _ => io::Error::new(self.fault_kind, READ_MARK),
                });
            }
            limit = limit.min(k);
        }
        if self.pos >= self.data.len() {
            log.reads_after_eof += 1;
            if log.reads_after_eof > EOF_READ_LIMIT {
                return Err(io::Error::new(io::ErrorKind::Other, "XTV-HANG-GUARD: consumer keeps reading after EOF"));
            }
            return Ok(0);
        }
        let avail = limit - self.pos;
        let want = match &self.sched {
            Sched::All => avail,
            Sched::One => 1,
            Sched::Fixed(n) | Sched::Interrupted(n, _) | Sched::FaultAt(n, _) => (*n).max(1),
            Sched::Random(_, max) => 1 + self.rng.below((*max).max(1)),
            Sched::Cuts(c) => {
                // up to the next cut strictly after pos
                match c.iter().find(|&&x| x > self.pos) {
                    Some(&x) => x - self.pos,
                    None => avail,
                }
            }
        };
        let n = want.min(avail).min(buf.len()).max(1);
        buf[..n].copy_from_slice(&self.data[self.pos..self.pos + n]);
        self.pos += n;
        log.delivered = self.pos;
        Ok(n)
    }
}

/// What a writer does when the fault offset is reached.
#[derive(Clone, Copy, Debug, PartialEq)]
pub enum FaultStyle {
    /// Accept the bytes up to the fault offset (short write), fail afterwards.
    ShortThenFail,
    /// Reject the whole write call that would cross the fault offset.
    RejectCrossing,
    /// Accept the bytes up to the fault offset, then accept nothing more: every later write
    /// returns Ok(0) (what a full fixed-size buffer such as `&mut [u8]` does).
    ZeroLen,
    /// Accept the bytes up to the fault offset, then fail ONE write call with this kind of error;
    /// later calls are accepted again (a transient condition: WouldBlock, Interrupted, TimedOut...).
    TransientOnce(io::ErrorKind),
}

#[derive(Default, Debug, Clone)]
pub struct WriteLog {
    pub bytes: Vec<u8>,
    pub write_calls: u64,
    pub flush_calls: u64,
    pub faults_returned: u64,
    pub writes_after_fault: u64,
    pub zero_len_writes: u64,
}

/// A writer that records everything it accepts, optionally accepts at most
/// `short` bytes per call, optionally fails once `fault_at` bytes were accepted.
pub struct MonWriter {
    pub log: Rc<RefCell<WriteLog>>,
    fault_at: Option<usize>,
    style: FaultStyle,
    short: Option<(Rng, usize)>,
    fail_flush: bool,
    faulted: bool,
}

impl MonWriter {
    pub fn new() -> MonWriter {
        MonWriter { log: Rc::new(RefCell::new(WriteLog::default())), fault_at: None, style: FaultStyle::ShortThenFail, short: None, fail_flush: false, faulted: false }
    }
    pub fn with_fault(mut self, k: usize, style: FaultStyle) -> Self {
        self.fault_at = Some(k);
        self.style = style;
        self
    }
    pub fn with_short(mut self, seed: u64, max: usize) -> Self {
        self.short = Some((Rng::new(seed), max.max(1)));
        self
    }
    pub fn with_failing_flush(mut self) -> Self {
        self.fail_flush = true;
        self
    }
    pub fn log_handle(&self) -> Rc<RefCell<WriteLog>> {
        self.log.clone()
    }
}

impl Write for MonWriter {
    fn write(&mut self, buf: &[u8]) -> io::Result<usize> {
        let mut log = self.log.borrow_mut();
        log.write_calls += 1;
        if buf.is_empty() {
            log.zero_len_writes += 1;
            return Ok(0);
        }
        if self.faulted {
            log.writes_after_fault += 1;
        }
        let mut n = buf.len();
        if let Some((rng, max)) = &mut self.short {
            n = n.min(1 + rng.below(*max));
        }
        if let Some(k) = self.fault_at {
            let room = k.saturating_sub(log.bytes.len());
            if room == 0 || (self.style == FaultStyle::RejectCrossing && n > room) {
                log.faults_returned += 1;
                self.faulted = true;
                match self.style {
                    FaultStyle::ZeroLen => return Ok(0),
                    FaultStyle::TransientOnce(kind) => {
                        self.fault_at = None;
                        return Err(io::Error::new(kind, WRITE_MARK));
                    }
                    _ => return Err(io::Error::new(io::ErrorKind::Other, WRITE_MARK)),
                }
            }
            n = n.min(room);
        }
        log.bytes.extend_from_slice(&buf[..n]);
        Ok(n)
    }
    fn flush(&mut self) -> io::Result<()> {
        let mut log = self.log.borrow_mut();
        log.flush_calls += 1;
        if self.fail_flush {
            return Err(io::Error::new(io::ErrorKind::Other, FLUSH_MARK));
        }
        Ok(())
    }
}

/// A reader that violates the Read contract by claiming `excess` more bytes
/// than it was given room for (after really filling the buffer).
pub struct OverReportReader<'a> {
    pub data: &'a [u8],
    pub pos: usize,
    pub excess: usize,
    /// Over-report on the n-th call (0-based); honest before that.
    pub on_call: u64,
    pub calls: u64,
}

impl<'a> Read for OverReportReader<'a> {
    fn read(&mut self, buf: &mut [u8]) -> io::Result<usize> {
        let n = buf.len().min(self.data.len() - self.pos);
        buf[..n].copy_from_slice(&self.data[self.pos..self.pos + n]);
        self.pos += n;
        let call = self.calls;
        self.calls += 1;
        if call >= self.on_call {
            Ok(buf.len() + self.excess)
        } else {
            Ok(n)
        }
    }
}

/// A reader written in safe code that treats the buffer it is handed as initialised memory, which a
/// `&mut [u8]` always is: it may look at the buffer's old contents before filling it (`inspect`), and
/// it may report n bytes while having stored only n-1 of them (`skip_last`: a contract slip that is
/// harmless as long as the buffer really is initialised - the consumer then sees a stale byte).
pub struct LazyReader<'a> {
    pub data: &'a [u8],
    pub pos: usize,
    pub max_read: usize,
    pub inspect: bool,
    pub skip_last: bool,
    pub checksum: u64,
}

impl<'a> Read for LazyReader<'a> {
    fn read(&mut self, buf: &mut [u8]) -> io::Result<usize> {
        if self.inspect {
            for b in buf.iter() {
                self.checksum = self.checksum.wrapping_mul(31).wrapping_add(*b as u64);
            }
        }
        let n = buf.len().min(self.max_read.max(1)).min(self.data.len() - self.pos);
        let stored = if self.skip_last && n >= 2 { n - 1 } else { n };
        buf[..stored].copy_from_slice(&self.data[self.pos..self.pos + stored]);
        self.pos += n;
        Ok(n)
    }
}

/// A reader that, inside `read`, after storing its bytes in the caller's buffer, runs ANOTHER complete
/// YAML translation on the same thread (a reader that decodes, decrypts or fetches through code that
/// itself uses xt), and then checks that the buffer it was lent still holds what it stored. A `&mut [u8]`
/// is exclusive for the duration of the call: if the bytes changed, two parsers share memory.
pub struct NestingReader<'a> {
    pub data: &'a [u8],
    pub pos: usize,
    pub max_read: usize,
    pub inner: &'a [u8],
    pub nest_on_call: u64,
    pub calls: u64,
    pub clobbered: Rc<RefCell<u64>>,
}

impl<'a> Read for NestingReader<'a> {
    fn read(&mut self, buf: &mut [u8]) -> io::Result<usize> {
        let n = buf.len().min(self.max_read.max(1)).min(self.data.len() - self.pos);
        buf[..n].copy_from_slice(&self.data[self.pos..self.pos + n]);
        let call = self.calls;
        self.calls += 1;
        if call >= self.nest_on_call && call < self.nest_on_call + 3 {
            let mut sink = Vec::new();
            let _ = xt::translate_reader(SchedReader::new(self.inner, Sched::Fixed(4096)), Some(xt::Format::Yaml), xt::Format::Json, &mut sink);
            if buf[..n] != self.data[self.pos..self.pos + n] {
                *self.clobbered.borrow_mut() += 1;
            }
        }
        self.pos += n;
        Ok(n)
    }
}

/// A reader with a hostile life cycle: it can panic inside `read` on a chosen
/// call, and it can panic in its destructor (only when no panic is already in
/// flight, so that the process never aborts on a double panic). Reads are
/// limited to `max_read` bytes.
pub struct PanickyReader<'a> {
    pub data: &'a [u8],
    pub pos: usize,
    pub max_read: usize,
    /// Panic inside the n-th `read` call (0-based).
    pub panic_on_read: Option<u64>,
    pub panic_in_drop: bool,
    pub calls: u64,
}

impl<'a> Read for PanickyReader<'a> {
    fn read(&mut self, buf: &mut [u8]) -> io::Result<usize> {
        let call = self.calls;
        self.calls += 1;
        if self.panic_on_read == Some(call) {
            panic!("xtv: reader panics inside read");
        }
        let n = buf.len().min(self.max_read.max(1)).min(self.data.len() - self.pos);
        buf[..n].copy_from_slice(&self.data[self.pos..self.pos + n]);
        self.pos += n;
        Ok(n)
    }
}

impl<'a> Drop for PanickyReader<'a> {
    fn drop(&mut self) {
        if self.panic_in_drop && !std::thread::panicking() {
            panic!("xtv: reader panics in its destructor");
        }
    }
}

//! The four formats, mirrored so that the harness can compare and print them
//! (xt::Format has neither PartialEq nor Debug).

#[derive(Clone, Copy, Debug, PartialEq, Eq, Hash, PartialOrd, Ord)]
pub enum Fmt {
    Json,
    Msgpack,
    Toml,
    Yaml,
}

pub const ALL: [Fmt; 4] = [Fmt::Json, Fmt::Msgpack, Fmt::Toml, Fmt::Yaml];
/// Targets that accept several documents.
pub const STREAMING: [Fmt; 3] = [Fmt::Json, Fmt::Msgpack, Fmt::Yaml];

impl Fmt {
    pub fn xt(self) -> xt::Format {
        match self {
            Fmt::Json => xt::Format::Json,
            Fmt::Msgpack => xt::Format::Msgpack,
            Fmt::Toml => xt::Format::Toml,
            Fmt::Yaml => xt::Format::Yaml,
        }
    }
    pub fn from_xt(f: xt::Format) -> Fmt {
        match f {
            xt::Format::Json => Fmt::Json,
            xt::Format::Msgpack => Fmt::Msgpack,
            xt::Format::Toml => Fmt::Toml,
            xt::Format::Yaml => Fmt::Yaml,
            _ => panic!("unknown xt::Format variant"),
        }
    }
    pub fn name(self) -> &'static str {
        match self {
            Fmt::Json => "json",
            Fmt::Msgpack => "msgpack",
            Fmt::Toml => "toml",
            Fmt::Yaml => "yaml",
        }
    }
    pub fn letter(self) -> &'static str {
        match self {
            Fmt::Json => "j",
            Fmt::Msgpack => "m",
            Fmt::Toml => "t",
            Fmt::Yaml => "y",
        }
    }
    pub fn parse(s: &str) -> Option<Fmt> {
        match s {
            "json" | "j" => Some(Fmt::Json),
            "msgpack" | "m" => Some(Fmt::Msgpack),
            "toml" | "t" => Some(Fmt::Toml),
            "yaml" | "y" => Some(Fmt::Yaml),
            _ => None,
        }
    }
    pub fn idx(self) -> usize {
        self as usize
    }
}

/// Source selection: an explicit format or detection.
pub fn from_name(f: Option<Fmt>) -> &'static str {
    match f {
        Some(f) => f.name(),
        None => "detect",
    }
}

pub fn parse_from(s: &str) -> Option<Option<Fmt>> {
    if s == "detect" {
        Some(None)
    } else {
        Fmt::parse(s).map(Some)
    }
}

pub const ALL_FROM: [Option<Fmt>; 5] = [Some(Fmt::Json), Some(Fmt::Msgpack), Some(Fmt::Toml), Some(Fmt::Yaml), None];

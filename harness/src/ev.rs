//! Evidence, violations and exit discipline shared by all checks.

use std::collections::{BTreeMap, HashSet};
use std::hash::{Hash, Hasher};
use std::time::Instant;

use serde_json::{json, Map, Value};

pub const MAX_SAMPLES: usize = 12;
pub const MAX_VIOLATIONS_KEPT: usize = 40;

#[derive(Clone, Debug)]
pub struct Violation {
    /// Deduplication key: violations with equal signatures are reported once.
    pub sig: String,
    /// Self-contained, replayable case description.
    pub case: Value,
    pub observed: String,
    pub expected: String,
}

#[derive(Default)]
pub struct Acc {
    pub evals: u64,
    pub counts: BTreeMap<String, u64>,
    pub distinct: HashSet<u64>,
    pub samples: Vec<Value>,
    pub violations: Vec<Violation>,
    pub vio_sigs: HashSet<String>,
    pub vio_count: u64,
    /// known finding id -> (occurrences, one example)
    pub known: BTreeMap<String, (u64, String)>,
    pub inconclusive: u64,
    pub harness_errors: Vec<String>,
    pub hits: BTreeMap<String, u64>,
    pub maxes: BTreeMap<String, u64>,
}

pub fn hash_of<T: Hash>(t: &T) -> u64 {
    let mut h = std::collections::hash_map::DefaultHasher::new();
    t.hash(&mut h);
    h.finish()
}

impl Acc {
    pub fn count(&mut self, key: &str) {
        *self.counts.entry(key.to_string()).or_insert(0) += 1;
    }
    pub fn add(&mut self, key: &str, n: u64) {
        *self.counts.entry(key.to_string()).or_insert(0) += n;
    }
    pub fn max(&mut self, key: &str, n: u64) {
        let e = self.maxes.entry(key.to_string()).or_insert(0);
        if n > *e {
            *e = n;
        }
    }
    pub fn distinct<T: Hash>(&mut self, t: &T) {
        self.distinct.insert(hash_of(t));
    }
    pub fn sample(&mut self, v: Value) {
        if self.samples.len() < MAX_SAMPLES {
            self.samples.push(v);
        }
    }
    /// Keeps a sample with probability ~1/every (deterministic on the counter).
    pub fn sample_every(&mut self, every: u64, v: impl FnOnce() -> Value) {
        if self.samples.len() < MAX_SAMPLES && self.evals % every.max(1) == 0 {
            self.samples.push(v());
        }
    }
    pub fn violation(&mut self, v: Violation) {
        self.vio_count += 1;
        if self.vio_sigs.insert(v.sig.clone()) && self.violations.len() < MAX_VIOLATIONS_KEPT {
            self.violations.push(v);
        }
    }
    pub fn known(&mut self, id: &str, example: impl FnOnce() -> String) {
        let e = self.known.entry(id.to_string()).or_insert_with(|| (0, String::new()));
        e.0 += 1;
        if e.1.is_empty() {
            e.1 = example();
        }
    }
    pub fn absorb_hits(&mut self) {
        for (name, n) in crate::run::hits() {
            if n > 0 {
                *self.hits.entry(name.to_string()).or_insert(0) += n;
            }
        }
        xt::verif::reset_hits();
    }
    pub fn merge(&mut self, o: Acc) {
        self.evals += o.evals;
        for (k, v) in o.counts {
            *self.counts.entry(k).or_insert(0) += v;
        }
        for (k, v) in o.hits {
            *self.hits.entry(k).or_insert(0) += v;
        }
        for (k, v) in o.maxes {
            let e = self.maxes.entry(k).or_insert(0);
            if v > *e {
                *e = v;
            }
        }
        self.distinct.extend(o.distinct);
        for s in o.samples {
            if self.samples.len() < MAX_SAMPLES {
                self.samples.push(s);
            }
        }
        self.vio_count += o.vio_count;
        for v in o.violations {
            if self.vio_sigs.insert(v.sig.clone()) && self.violations.len() < MAX_VIOLATIONS_KEPT {
                self.violations.push(v);
            }
        }
        for (k, (n, ex)) in o.known {
            let e = self.known.entry(k).or_insert_with(|| (0, String::new()));
            e.0 += n;
            if e.1.is_empty() {
                e.1 = ex;
            }
        }
        self.inconclusive += o.inconclusive;
        self.harness_errors.extend(o.harness_errors);
    }
}

impl Acc {
    /// Serialises what a child process observed so that the parent can merge it
    /// (distinct cases travel as their hashes).
    pub fn to_json(&self) -> Value {
        json!({
            "evals": self.evals,
            "counts": self.counts,
            "maxes": self.maxes,
            "hits": self.hits,
            "distinct": self.distinct.iter().collect::<Vec<_>>(),
            "samples": self.samples,
            "vio_count": self.vio_count,
            "violations": self.violations.iter().map(|v| json!({"sig": v.sig, "case": v.case, "observed": v.observed, "expected": v.expected})).collect::<Vec<_>>(),
            "known": self.known.iter().map(|(k, (n, e))| json!({"id": k, "n": n, "example": e})).collect::<Vec<_>>(),
            "inconclusive": self.inconclusive,
            "harness_errors": self.harness_errors,
        })
    }
    pub fn from_json(v: &Value) -> Acc {
        let mut a = Acc::default();
        a.evals = v["evals"].as_u64().unwrap_or(0);
        let map = |x: &Value| -> BTreeMap<String, u64> { x.as_object().map(|o| o.iter().map(|(k, v)| (k.clone(), v.as_u64().unwrap_or(0))).collect()).unwrap_or_default() };
        a.counts = map(&v["counts"]);
        a.maxes = map(&v["maxes"]);
        a.hits = map(&v["hits"]);
        a.distinct = v["distinct"].as_array().map(|x| x.iter().filter_map(|h| h.as_u64()).collect()).unwrap_or_default();
        a.samples = v["samples"].as_array().cloned().unwrap_or_default();
        a.vio_count = v["vio_count"].as_u64().unwrap_or(0);
        for x in v["violations"].as_array().cloned().unwrap_or_default() {
            let viol = Violation { sig: x["sig"].as_str().unwrap_or("").to_string(), case: x["case"].clone(), observed: x["observed"].as_str().unwrap_or("").to_string(), expected: x["expected"].as_str().unwrap_or("").to_string() };
            a.vio_sigs.insert(viol.sig.clone());
            a.violations.push(viol);
        }
        for x in v["known"].as_array().cloned().unwrap_or_default() {
            a.known.insert(x["id"].as_str().unwrap_or("").to_string(), (x["n"].as_u64().unwrap_or(0), x["example"].as_str().unwrap_or("").to_string()));
        }
        a.inconclusive = v["inconclusive"].as_u64().unwrap_or(0);
        a.harness_errors = v["harness_errors"].as_array().map(|x| x.iter().filter_map(|e| e.as_str().map(String::from)).collect()).unwrap_or_default();
        a
    }
}

/// Runs `xtv <subcommand> ...` as a child process and merges the Acc it prints
/// as its last stdout line ("XTV-ACC {json}"). A child that dies (abort, stack
/// overflow, signal) becomes a violation attributed to `what`.
pub fn run_isolated(subcommand: &str, args: &[String], what: &str, acc: &mut Acc) {
    let exe = match std::env::current_exe() {
        Ok(e) => e,
        Err(e) => {
            acc.harness_errors.push(format!("current_exe: {e}"));
            return;
        }
    };
    let out = std::process::Command::new(exe).arg(subcommand).args(args).stdin(std::process::Stdio::null()).stderr(std::process::Stdio::piped()).stdout(std::process::Stdio::piped()).output();
    match out {
        Err(e) => acc.harness_errors.push(format!("cannot start isolated stage {subcommand}: {e}")),
        Ok(o) => {
            let so = String::from_utf8_lossy(&o.stdout);
            let parsed = so.lines().rev().find_map(|l| l.strip_prefix("XTV-ACC ")).and_then(|j| serde_json::from_str::<Value>(j).ok());
            match parsed {
                Some(v) if o.status.success() => acc.merge(Acc::from_json(&v)),
                _ => {
                    use std::os::unix::process::ExitStatusExt;
                    let se = String::from_utf8_lossy(&o.stderr);
                    acc.violation(Violation { sig: format!("{what}: isolated stage died"), case: json!({"isolated_stage": subcommand, "args": args}), observed: format!("the child process running '{what}' ended with exit {:?} signal {:?}; stderr [{}]", o.status.code(), o.status.signal(), truncate(&se, 400)), expected: "the stage runs to completion (an abort here is a crash of xt's code under the workload)".into() });
                }
            }
        }
    }
}

pub struct Ctx {
    pub prop: &'static str,
    pub tier: String,
    pub seed: u64,
    pub start: Instant,
    pub verif_dir: String,
}

impl Ctx {
    pub fn new(prop: &'static str, tier: &str, seed: u64) -> Ctx {
        let verif_dir = std::env::var("XTV_VERIF_DIR").unwrap_or_else(|_| "/verif".into());
        Ctx { prop, tier: tier.to_string(), seed, start: Instant::now(), verif_dir }
    }
    pub fn thorough(&self) -> bool {
        self.tier == "thorough"
    }
    /// quick / thorough sizing helper.
    pub fn size(&self, quick: usize, thorough: usize) -> usize {
        let base = if self.thorough() { thorough } else { quick };
        // XTV_SCALE (percent) allows local experiments; registered commands do not set it.
        match std::env::var("XTV_SCALE").ok().and_then(|s| s.parse::<usize>().ok()) {
            Some(p) => (base * p / 100).max(1),
            None => base,
        }
    }
}

pub struct Finish<'a> {
    pub ctx: &'a Ctx,
    pub level: &'static str,
    pub rule: String,
    pub assumptions: Vec<String>,
    pub extra: Map<String, Value>,
    pub exhaustive: bool,
    /// Minimum number of distinct non-trivial cases below which the run is
    /// inconclusive (a monitor that observed nothing must not pass).
    pub min_distinct: u64,
    /// (counter or hit name, minimum) pairs that must have been reached.
    pub must_reach: Vec<(String, u64)>,
}

/// Writes evidence and replay files, prints VIOLATION / KNOWN-FINDING lines and
/// returns the process exit code (0 held, 1 violated, 2 inconclusive).
pub fn finish(f: Finish, acc: Acc) -> i32 {
    let ctx = f.ctx;
    let wall = ctx.start.elapsed().as_secs_f64();
    let replay_dir = format!("{}/out/replay", ctx.verif_dir);
    let _ = std::fs::create_dir_all(&replay_dir);
    // drop stale replay files of an earlier run with the same (property, tier, seed)
    if let Ok(rd) = std::fs::read_dir(&replay_dir) {
        let prefix = format!("{}-{}-s{}-", ctx.prop, ctx.tier, ctx.seed);
        for e in rd.flatten() {
            if e.file_name().to_string_lossy().starts_with(&prefix) {
                let _ = std::fs::remove_file(e.path());
            }
        }
    }
    let mut vio_paths = vec![];
    for (i, v) in acc.violations.iter().enumerate() {
        let path = format!("{}/{}-{}-s{}-{:03}.json", replay_dir, ctx.prop, ctx.tier, ctx.seed, i);
        let body = json!({
            "property": ctx.prop,
            "seed": ctx.seed,
            "tier": ctx.tier,
            "signature": v.sig,
            "case": v.case,
            "observed": v.observed,
            "expected": v.expected,
        });
        let _ = std::fs::write(&path, serde_json::to_string_pretty(&body).unwrap());
        vio_paths.push(path);
    }

    let mut inconclusive_reasons: Vec<String> = acc.harness_errors.clone();
    let distinct = acc.distinct.len() as u64;
    if distinct < f.min_distinct.max(2) {
        inconclusive_reasons.push(format!("only {} distinct non-trivial cases observed (minimum {})", distinct, f.min_distinct.max(2)));
    }
    for (name, min) in &f.must_reach {
        let got = acc.counts.get(name).copied().or_else(|| acc.hits.get(name).copied()).unwrap_or(0);
        if got < *min {
            inconclusive_reasons.push(format!("monitor point '{}' reached {} times (minimum {})", name, got, min));
        }
    }

    // many cases that could not be judged (watchdog, spawn failure) mean the run says little: not "held"
    if acc.inconclusive > 20 && acc.inconclusive as i64 > acc.evals.max(0) as i64 / 100 {
        inconclusive_reasons.push(format!("{} of {} cases could not be judged (watchdog timeouts, spawn errors, unusable baselines)", acc.inconclusive, acc.evals.max(0)));
    }

    let mut coverage = Map::new();
    coverage.insert("evaluations".into(), json!(acc.evals.max(0)));
    coverage.insert("distinct_nontrivial".into(), json!(distinct));
    coverage.insert("rule".into(), json!(f.rule));
    coverage.insert("samples".into(), Value::Array(acc.samples.clone()));
    coverage.insert("exhaustive".into(), json!(f.exhaustive));
    coverage.insert("counts".into(), json!(acc.counts));
    if !acc.maxes.is_empty() {
        coverage.insert("maxima".into(), json!(acc.maxes));
    }
    coverage.insert("xt_path_counters".into(), json!(acc.hits));
    coverage.insert("cases_inconclusive".into(), json!(acc.inconclusive));
    coverage.insert(
        "known_findings_observed".into(),
        Value::Object(acc.known.iter().map(|(k, (n, ex))| (k.clone(), json!({"occurrences": n, "example": ex}))).collect()),
    );
    if f.level == "other" {
        coverage.insert("explanation".into(), json!(f.rule));
    }
    for (k, v) in f.extra {
        coverage.insert(k, v);
    }
    let verdict = if !acc.violations.is_empty() {
        "violated"
    } else if !inconclusive_reasons.is_empty() {
        "inconclusive"
    } else {
        "held-on-observed"
    };
    coverage.insert("verdict".into(), json!(verdict));
    coverage.insert("inconclusive_reasons".into(), json!(inconclusive_reasons));
    coverage.insert("violation_replays".into(), json!(vio_paths));

    let evidence = json!({
        "property_id": ctx.prop,
        "tier": ctx.tier,
        "seed": ctx.seed,
        "level": f.level,
        "coverage": Value::Object(coverage),
        "assumptions": f.assumptions,
        "wall_s": wall,
        "violations": acc.vio_count,
    });
    let ev_dir = format!("{}/evidence", ctx.verif_dir);
    let _ = std::fs::create_dir_all(&ev_dir);
    let ev_path = format!("{}/{}.json", ev_dir, ctx.prop);
    if let Err(e) = std::fs::write(&ev_path, serde_json::to_string_pretty(&evidence).unwrap() + "\n") {
        eprintln!("cannot write evidence {ev_path}: {e}");
        return 2;
    }

    for (id, (n, ex)) in &acc.known {
        println!("KNOWN-FINDING: property={} {} (observed {} times this run; e.g. {})", ctx.prop, crate::known::describe(id), n, ex);
    }
    println!(
        "{} {} seed={} evaluations={} distinct_nontrivial={} violations={} known_finding_hits={} wall={:.1}s",
        ctx.prop,
        ctx.tier,
        ctx.seed,
        acc.evals,
        distinct,
        acc.vio_count,
        acc.known.values().map(|x| x.0).sum::<u64>(),
        wall
    );
    if !acc.violations.is_empty() {
        for (v, p) in acc.violations.iter().zip(vio_paths.iter()) {
            println!("VIOLATION property={} replay={}", ctx.prop, p);
            println!("  signature: {}", v.sig);
            println!("  observed:  {}", truncate(&v.observed, 400));
            println!("  expected:  {}", truncate(&v.expected, 400));
        }
        return 1;
    }
    if !inconclusive_reasons.is_empty() {
        for r in &inconclusive_reasons {
            println!("INCONCLUSIVE property={} {}", ctx.prop, r);
        }
        return 2;
    }
    0
}

pub fn truncate(s: &str, n: usize) -> String {
    if s.len() <= n {
        s.to_string()
    } else {
        let mut end = n;
        while !s.is_char_boundary(end) {
            end -= 1;
        }
        format!("{}...(+{} bytes)", &s[..end], s.len() - end)
    }
}

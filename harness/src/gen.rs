//! Seeded generators for documents of the common model (and its extensions),
//! aimed at the hostile classes the properties name.

use crate::model::Val;
use crate::rng::Rng;

pub const LOOKALIKES: &[&str] = &[
    "true", "false", "True", "FALSE", "yes", "no", "Yes", "NO", "on", "off", "y", "n", "~", "null", "Null", "NULL", "nil", "1e3", "1E3", "0x1F", "0o7", "0b1", "007", "+1", "-0", "1", "-1", "0", "1.0", "1.", ".5", "+.5", "1_000", "1,000", ".inf", "-.inf", ".nan", ".NaN", "inf", "nan", "NaN", "Infinity", "2001-01-01", "2001-01-01T00:00:00Z", "12:30:45", "=", "<<", "1:20", "190:20:30", "0.1", "1e-7", "1e400", "-", "+", ".", "..", "...", "---", "0x", "0o", "1e", "e1", "1__0", "_1", "0_1", "+0x1", "-0x1", "0X1F", "1e+3", "١٢٣", "123abc", "0.0.0", "1.2.3", "null ", " null", "true\n", "[]", "{}", "[1]", "{a: 1}", "''", "\"\"", "\"a\"", "'a'",
];

pub const INDICATOR_STRINGS: &[&str] = &[
    "- a", "-a", "a: b", "a:b", "a :b", " #c", "a #c", "a#c", "#c", "[", "]", "{", "}", "[a", "{a", "&a", "*a", "!t", "!!str", "|", ">", "|-", ">+", "%", "%YAML", "@", "@a", "`", "`a", "? ", "?", "? a", ": ", ":", ":a", ", ", ",", ",a", "a, b", "a]", "a}", "'", "\"", "a'b", "a\"b", "\\", "\\n", "a\\b", "--- a", "... a", "a\n...\nb", "a\n---\nb", "key: value\nother: 2", "- 1\n- 2", " a", "a ", "  a  ", "\ta", "a\t", "a\tb", "\n", "\n\n", "a\n", "a\n\n", "\na", "a\nb", " \n ", "a \nb", "a\n b", "a\r\nb", "a\rb", "\r", "x\n  y\n z", "a  b", "a   b",
];

fn special_chars() -> Vec<char> {
    let mut v: Vec<char> = (0u32..0x20).filter_map(char::from_u32).collect();
    v.extend(['\u{7f}', '\u{80}', '\u{85}', '\u{9f}', '\u{a0}', '\u{ad}', '\u{2028}', '\u{2029}', '\u{feff}', '\u{fffe}', '\u{ffff}', '\u{fffd}', '\u{d7ff}', '\u{e000}', '\u{10000}', '\u{1f600}', '\u{10ffff}', '\u{1fffe}', '\u{700}', '\u{7ff}', '\u{800}', '\u{e9}', '\u{4e2d}', '\u{202e}', '\u{200b}', '\u{301}', '"', '\'', '\\', '/', ' ', ':', '#', '-', '\u{1f9d1}', '\u{200d}', '\u{1f4bb}']);
    v
}

#[derive(Clone, Copy, PartialEq, Debug)]
pub enum StrClass {
    Lookalike,
    Indicator,
    SpecialChar,
    Random,
    Word,
    Empty,
    Long,
}

pub fn gen_string(rng: &mut Rng) -> (String, StrClass) {
    match rng.below(16) {
        0 | 1 | 2 => (rng.pick(LOOKALIKES).to_string(), StrClass::Lookalike),
        3 | 4 | 5 => (rng.pick(INDICATOR_STRINGS).to_string(), StrClass::Indicator),
        6 | 7 | 8 => {
            let sc = special_chars();
            let n = rng.range(1, 4);
            let mut s = String::new();
            for _ in 0..n {
                match rng.below(3) {
                    0 => s.push(*rng.pick(&sc)),
                    1 => s.push((b'a' + rng.below(26) as u8) as char),
                    _ => s.push(*rng.pick(&sc)),
                }
            }
            (s, StrClass::SpecialChar)
        }
        9 | 10 => {
            // random scalar values from anywhere
            let n = rng.range(1, 8);
            let mut s = String::new();
            for _ in 0..n {
                let c = loop {
                    let u = match rng.below(4) {
                        0 => rng.below(0x80) as u32,
                        1 => rng.below(0x800) as u32,
                        2 => rng.below(0x10000) as u32,
                        _ => rng.below(0x110000) as u32,
                    };
                    if let Some(c) = char::from_u32(u) {
                        break c;
                    }
                };
                s.push(c);
            }
            (s, StrClass::Random)
        }
        11 => (String::new(), StrClass::Empty),
        12 => {
            // byte lengths on both sides of every MessagePack str header class (fixstr 31, str8 255), hit exactly
            let n = *rng.pick(&[31usize, 32, 33, 254, 255, 256, 257, 1000, 5000]);
            let unit = *rng.pick(&["a", "ab ", "é", "x\n", "😀"]);
            let mut s = String::new();
            while s.len() + unit.len() <= n {
                s.push_str(unit);
            }
            while s.len() < n {
                s.push('a');
            }
            (s, StrClass::Long)
        }
        _ => {
            let words = ["alpha", "beta", "gamma", "key", "value", "name", "xt", "serde", "a", "b", "c", "id", "item", "absolutely 🧑‍💻", "naïve", "中文"];
            (rng.pick(&words).to_string(), StrClass::Word)
        }
    }
}

pub fn int_boundaries() -> Vec<i128> {
    let mut v = vec![0i128, 1, -1, 9001, -13];
    for p in [7u32, 8, 15, 16, 31, 32, 53, 63, 64] {
        let b = 1i128 << p;
        for d in [-1i128, 0, 1] {
            v.push(b + d);
            v.push(-(b + d));
        }
    }
    v.push(-32);
    v.push(-33);
    v.push(127);
    v.push(128);
    v.retain(|i| *i >= -(1i128 << 63) && *i < (1i128 << 64));
    v.sort();
    v.dedup();
    v
}

pub fn gen_int(rng: &mut Rng) -> i128 {
    match rng.below(4) {
        0 | 1 => *rng.pick(&int_boundaries()),
        2 => (rng.next() as i64) as i128,
        _ => {
            // random width
            let bits = rng.range(1, 64) as u32;
            let v = (rng.next() >> (64 - bits)) as i128;
            if rng.chance(1, 2) && v <= (1i128 << 63) {
                -v
            } else {
                v
            }
        }
    }
}

pub const FLOAT_SPECIALS: &[f64] = &[
    0.0, -0.0, 1.0, -1.0, 0.1, 0.2, 0.30000000000000004, 1.5, 42.1337, 1e15, 1e16, 1e17, 1e21, 1e22, 1e-5, 1e-6, 1e-7, 123456789012345.67, 2.2250738585072011e-308, 2.2250738585072014e-308, 5e-324, 1.7976931348623157e308, 9007199254740992.0, 9007199254740993.0, 18446744073709551616.0, 9223372036854775808.0, -9223372036854775808.0, 4.35, 0.000001, 1e100, 1.0e-100, 3.141592653589793, 2.718281828459045, 100.0, 1e3, 255.0, 65536.0, 0.5, 0.25,
];

pub fn gen_float_bits(rng: &mut Rng) -> u64 {
    loop {
        let bits = match rng.below(5) {
            0 | 1 => rng.pick(FLOAT_SPECIALS).to_bits(),
            2 => rng.next(),
            3 => {
                // 17-significant-digit decimals
                let m = 1_0000_0000_0000_0000u64 + rng.next() % 9_0000_0000_0000_0000u64;
                let e = rng.below(40) as i32 - 30;
                let s = format!("{}e{}", m, e);
                s.parse::<f64>().unwrap().to_bits()
            }
            _ => {
                // short decimals like 12.34
                let a = rng.below(100000) as f64;
                let d = 10f64.powi(rng.below(6) as i32);
                let x = a / d;
                (if rng.chance(1, 2) { -x } else { x }).to_bits()
            }
        };
        if f64::from_bits(bits).is_finite() {
            return bits;
        }
    }
}

#[derive(Clone, Debug)]
pub struct GenOpts {
    pub max_depth: usize,
    pub max_width: usize,
    /// Allow null values.
    pub nulls: bool,
    /// Integers above i64::MAX allowed.
    pub big_uints: bool,
    /// Root must be a map (TOML).
    pub root_map: bool,
    /// Root must be a collection.
    pub root_collection: bool,
    /// Allow extension nodes (bytes, f32, non-finite, non-string keys).
    pub extensions: bool,
}

impl GenOpts {
    pub fn common() -> GenOpts {
        GenOpts { max_depth: 5, max_width: 5, nulls: true, big_uints: true, root_map: false, root_collection: false, extensions: false }
    }
    pub fn toml() -> GenOpts {
        GenOpts { max_depth: 5, max_width: 5, nulls: false, big_uints: false, root_map: true, root_collection: true, extensions: false }
    }
}

/// Per-document class tallies, so evidence can say which hostile classes were
/// really exercised.
#[derive(Default, Clone, Debug)]
pub struct Classes {
    pub lookalike_strings: u32,
    pub indicator_strings: u32,
    pub special_char_strings: u32,
    pub random_strings: u32,
    pub long_strings: u32,
    pub int_boundaries: u32,
    pub floats: u32,
    pub empty_collections: u32,
    pub nulls: u32,
}

impl Classes {
    pub fn hostile(&self) -> u32 {
        self.lookalike_strings + self.indicator_strings + self.special_char_strings + self.random_strings + self.long_strings + self.int_boundaries + self.floats + self.empty_collections
    }
    pub fn add_to(&self, acc: &mut crate::ev::Acc) {
        acc.add("class_lookalike_strings", self.lookalike_strings as u64);
        acc.add("class_indicator_strings", self.indicator_strings as u64);
        acc.add("class_special_char_strings", self.special_char_strings as u64);
        acc.add("class_random_strings", self.random_strings as u64);
        acc.add("class_long_strings", self.long_strings as u64);
        acc.add("class_int_values", self.int_boundaries as u64);
        acc.add("class_float_values", self.floats as u64);
        acc.add("class_empty_collections", self.empty_collections as u64);
        acc.add("class_nulls", self.nulls as u64);
    }
}

fn note_str(c: StrClass, cl: &mut Classes) {
    match c {
        StrClass::Lookalike => cl.lookalike_strings += 1,
        StrClass::Indicator => cl.indicator_strings += 1,
        StrClass::SpecialChar => cl.special_char_strings += 1,
        StrClass::Random => cl.random_strings += 1,
        StrClass::Long => cl.long_strings += 1,
        _ => {}
    }
}

pub fn gen_scalar(rng: &mut Rng, o: &GenOpts, cl: &mut Classes) -> Val {
    match rng.below(12) {
        0 if o.nulls => {
            cl.nulls += 1;
            Val::Null
        }
        0 | 1 => Val::Bool(rng.chance(1, 2)),
        2 | 3 | 4 => {
            let mut i = gen_int(rng);
            if !o.big_uints && i > i64::MAX as i128 {
                i = i64::MAX as i128;
            }
            cl.int_boundaries += 1;
            Val::Int(i)
        }
        5 | 6 | 7 => {
            cl.floats += 1;
            Val::Float(gen_float_bits(rng))
        }
        _ => {
            let (s, c) = gen_string(rng);
            note_str(c, cl);
            Val::Str(s)
        }
    }
}

fn gen_key(rng: &mut Rng, used: &mut Vec<String>, cl: &mut Classes) -> String {
    for _ in 0..20 {
        let (s, c) = gen_string(rng);
        if s.len() > 300 {
            continue;
        }
        if !used.contains(&s) {
            note_str(c, cl);
            used.push(s.clone());
            return s;
        }
    }
    let s = format!("k{}", used.len());
    used.push(s.clone());
    s
}

pub fn gen_node(rng: &mut Rng, o: &GenOpts, depth: usize, cl: &mut Classes) -> Val {
    let want_coll = depth < o.max_depth && rng.chance(2, 5);
    if !want_coll {
        return gen_scalar(rng, o, cl);
    }
    let m = rng_bool(rng);
    gen_collection(rng, o, depth, cl, m)
}

fn rng_bool(rng: &mut Rng) -> bool {
    rng.chance(1, 2)
}

pub fn gen_collection(rng: &mut Rng, o: &GenOpts, depth: usize, cl: &mut Classes, map: bool) -> Val {
    let width = if rng.chance(1, 6) { 0 } else { rng.range(1, o.max_width.max(1)) };
    if width == 0 {
        cl.empty_collections += 1;
    }
    if map {
        let mut used = vec![];
        let mut m = vec![];
        for _ in 0..width {
            let k = gen_key(rng, &mut used, cl);
            // arrays of tables every now and then
            let v = if depth + 2 <= o.max_depth && rng.chance(1, 8) {
                let n = rng.range(1, 3);
                Val::Seq((0..n).map(|_| gen_collection(rng, o, depth + 2, cl, true)).collect())
            } else {
                gen_node(rng, o, depth + 1, cl)
            };
            m.push((Val::Str(k), v));
        }
        Val::Map(m)
    } else {
        Val::Seq((0..width).map(|_| gen_node(rng, o, depth + 1, cl)).collect())
    }
}

/// One document of the common model.
pub fn gen_doc(rng: &mut Rng, o: &GenOpts, cl: &mut Classes) -> Val {
    if o.root_map {
        return gen_collection(rng, o, 0, cl, true);
    }
    if o.root_collection {
        let m = rng_bool(rng);
        return gen_collection(rng, o, 0, cl, m);
    }
    match rng.below(10) {
        0 | 1 => gen_scalar(rng, o, cl),
        2 => {
            // deep narrow chain up to depth 64
            let d = rng.range(6, 64);
            let mut v = gen_scalar(rng, o, cl);
            for i in 0..d {
                v = if (i + rng.below(2)) % 2 == 0 { Val::Seq(vec![v]) } else { Val::Map(vec![(Val::Str(format!("d{i}")), v)]) };
            }
            v
        }
        3 => {
            // wide: MessagePack header thresholds
            let n = *rng.pick(&[15usize, 16, 17, 255, 256, 300]);
            if rng_bool(rng) {
                Val::Seq((0..n).map(|i| Val::Int(i as i128)).collect())
            } else {
                Val::Map((0..n).map(|i| (Val::Str(format!("k{i}")), Val::Int(i as i128))).collect())
            }
        }
        _ => {
            let m = rng_bool(rng);
            gen_collection(rng, o, 0, cl, m)
        }
    }
}

/// Rare, expensive shapes that only some checks opt into: very wide collections
/// (around serializer size-hint caps and the 16-bit MessagePack header limit)
/// and documents of tens of KiB full of multi-byte characters (so that reads of
/// 8 KiB / 16 KiB end inside characters).
pub fn gen_heavy_doc(rng: &mut Rng) -> Val {
    if rng.chance(1, 6) {
        // KEYS whose byte length sits on a header or parser boundary: MessagePack str8/str16/str32, YAML's
        // 1024-character limit for implicit keys (longer ones need the explicit '? ' form), 64 KiB
        let mut m = vec![];
        for n in [31usize, 32, 255, 256, 1023, 1024, 1025, 1030, 4096, 65535, 65536] {
            if rng.chance(1, 2) {
                let unit = *rng.pick(&["k", "ab", "é", "日"]);
                let mut s = String::new();
                while s.len() + unit.len() <= n {
                    s.push_str(unit);
                }
                while s.len() < n {
                    s.push('k');
                }
                m.push((Val::Str(s), Val::Int(n as i128)));
            }
        }
        m.push((Val::Str("end".into()), Val::Seq(vec![Val::Int(1)])));
        return Val::Map(m);
    }
    if rng.chance(1, 4) {
        // strings whose byte length sits on the str16/str32 header boundary (and the str8 one)
        let mut m = vec![];
        for (i, n) in [65533usize, 65534, 65535, 65536, 65537, 254, 255, 256].iter().enumerate() {
            if rng.chance(2, 3) {
                let unit = *rng.pick(&["a", "xy", "é"]);
                let mut s = String::new();
                while s.len() + unit.len() <= *n {
                    s.push_str(unit);
                }
                while s.len() < *n {
                    s.push('a');
                }
                m.push((Val::Str(format!("s{i}")), Val::Str(s)));
            }
        }
        m.push((Val::Str("end".into()), Val::Int(1)));
        return Val::Map(m);
    }
    if rng.chance(1, 2) {
        let n = *rng.pick(&[4095usize, 4096, 4097, 5000, 32767, 32768, 40000, 65535, 65536, 70000]);
        if rng_bool(rng) {
            Val::Seq((0..n).map(|i| Val::Int((i % 251) as i128)).collect())
        } else {
            Val::Map((0..n).map(|i| (Val::Str(format!("k{i}")), Val::Int((i % 7) as i128))).collect())
        }
    } else {
        let n = rng.range(300, 700);
        let pad = rng.below(4);
        let mut m = vec![(Val::Str("pad".into()), Val::Str("x".repeat(pad)))];
        for i in 0..n {
            let unit = *rng.pick(&["é", "中文", "😀", "aé", "ß-"]);
            m.push((Val::Str(format!("key{i}")), Val::Str(unit.repeat(rng.range(5, 30)))));
        }
        Val::Map(m)
    }
}

/// Restricts a document to what TOML can hold: root table, no nulls, ints
/// within i64. Returns None if the root is not a map.
pub fn tomlify(v: &Val) -> Option<Val> {
    fn fix(v: &Val) -> Val {
        match v {
            Val::Null => Val::Str("was-null".into()),
            Val::Int(i) if *i > i64::MAX as i128 => Val::Int(i64::MAX as i128),
            Val::Seq(x) => Val::Seq(x.iter().map(fix).collect()),
            Val::Map(m) => Val::Map(m.iter().map(|(k, v)| (k.clone(), fix(v))).collect()),
            o => o.clone(),
        }
    }
    if v.is_map() {
        Some(fix(v))
    } else {
        None
    }
}

/// Extension scalars outside the common model (for C06 / C08 / C11).
pub fn gen_extension_scalar(rng: &mut Rng) -> Val {
    match rng.below(5) {
        0 => {
            let n = rng.below(6);
            Val::Bytes(rng.bytes(n))
        }
        1 => Val::F32((rng.next() as u32) & 0x7f7f_ffff),
        2 => Val::Float(f64::NAN.to_bits()),
        3 => Val::Float(f64::INFINITY.to_bits()),
        _ => Val::Float(f64::NEG_INFINITY.to_bits()),
    }
}

/// A JSON document (one map with a padding string and a few other entries) whose translation to `to` is
/// EXACTLY `len` bytes long, if the padding can be chosen that way (found by translating once and
/// correcting the padding by the difference). Returns the JSON input.
pub fn exact_output_doc(to: crate::fmts::Fmt, len: usize) -> Option<Vec<u8>> {
    let build = |n: usize| -> Vec<u8> { format!("{{\"first\": 1, \"pad\": \"{}\", \"last\": [true, \"end\"]}}\n", "p".repeat(n)).into_bytes() };
    let mut n = len.saturating_sub(64).max(1);
    for _ in 0..4 {
        let o = crate::run::run_slice(&build(n), Some(crate::fmts::Fmt::Json), to);
        if !o.verdict.is_ok() {
            return None;
        }
        if o.out.len() == len {
            return Some(build(n));
        }
        let next = n as i64 + len as i64 - o.out.len() as i64;
        if next < 1 {
            return None;
        }
        n = next as usize;
    }
    None
}

//! ProcMonitor: runs the real `xt` binary built from the working tree and
//! records what a user would observe: wait status (exit code or signal),
//! stdout and stderr bytes. Stdout can be a pipe, a file, a pseudo-terminal, a
//! consumer that closes after k bytes, or /dev/full.

use std::ffi::CString;
use std::fs::File;
use std::io::{Read, Write};
use std::os::unix::io::{FromRawFd, RawFd};
use std::os::unix::process::{CommandExt, ExitStatusExt};

/// No core dumps from children (inherited).
pub fn no_core_dumps() {
    unsafe {
        let core = libc::rlimit { rlim_cur: 0, rlim_max: 0 };
        libc::setrlimit(libc::RLIMIT_CORE, &core);
    }
}
use std::path::{Path, PathBuf};
use std::process::{Command, Stdio};
use std::sync::atomic::{AtomicBool, AtomicU64, Ordering};
use std::sync::Arc;
use std::time::Duration;

#[derive(Clone, Debug, PartialEq)]
pub enum Status {
    Exit(i32),
    Signal(i32),
    /// The wall-clock watchdog fired: inconclusive, never a verdict.
    Timeout,
    SpawnError(String),
}

impl Status {
    pub fn show(&self) -> String {
        match self {
            Status::Exit(c) => format!("exit {c}"),
            Status::Signal(s) => format!("killed by signal {s}"),
            Status::Timeout => "watchdog timeout".into(),
            Status::SpawnError(e) => format!("spawn error: {e}"),
        }
    }
}

#[derive(Clone, Debug)]
pub struct ProcOut {
    pub status: Status,
    pub stdout: Vec<u8>,
    pub stderr: Vec<u8>,
}

impl ProcOut {
    pub fn out_bytes(&self) -> Vec<u8> {
        self.stdout.clone()
    }
}

#[derive(Clone, Debug, PartialEq)]
pub enum StdoutKind {
    Pipe,
    File,
    Pty,
    /// The consumer reads exactly k bytes, then closes its end.
    CloseAfter(usize),
    DevFull,
    /// A regular file on which the process may not grow past this many bytes
    /// (RLIMIT_FSIZE with SIGXFSZ ignored, as under `trap '' XFSZ; ulimit -f`):
    /// write(2) beyond the limit fails with EFBIG, like a full or over-quota
    /// file system would fail it with ENOSPC/EDQUOT.
    FileLimited(u64),
    /// The write end of a pipe that is in non-blocking mode and already full, with a reader that
    /// takes nothing while the process runs (what a busy Node.js / ssh parent leaves behind):
    /// write(2) fails with EAGAIN. The captured stdout is what the process managed to add.
    FullNonBlockingPipe,
    /// Standard output is a connected AF_UNIX stream socket whose peer reads exactly k bytes and
    /// then closes (ksh93 pipelines, socat, inetd-style services): the next write fails with EPIPE.
    SocketCloseAfter(usize),
    /// The slave side of a pseudo-terminal whose master is already closed (a terminal that hung up):
    /// write(2) fails with EIO.
    HungUpPty,
}

#[derive(Clone, Debug)]
pub enum StdinKind {
    /// Nothing connected (/dev/null).
    Null,
    Bytes(Vec<u8>),
    /// Delivered only after the stdout consumer has read its k bytes and closed
    /// (only meaningful with StdoutKind::CloseAfter).
    BytesAfterConsumerLeft(Vec<u8>),
    /// Standard input is a regular file holding these bytes, with its file
    /// offset already advanced to the given position (as after a shell's
    /// `(head -c N >/dev/null; xt) < file`).
    FileAtOffset(Vec<u8>, u64),
    /// The bytes arrive on a pipe in separate bursts, with a pause (milliseconds)
    /// after each burst; the pipe is closed after the last one.
    Bursts(Vec<Vec<u8>>, u64),
    /// Standard input is an open directory (`xt < /some/dir`): every read fails with EISDIR.
    Directory,
}

pub struct Run<'a> {
    pub bin: &'a Path,
    pub argv: Vec<String>,
    pub cwd: &'a Path,
    pub stdin: StdinKind,
    pub stdout: StdoutKind,
    pub wall_secs: u64,
    pub cpu_secs: u64,
}

static SCRATCH_N: AtomicU64 = AtomicU64::new(0);

/// File names and arguments are handled as Rust strings throughout the harness. To put a name that is
/// NOT valid UTF-8 on the command line (legal on Unix), every U+FFFD in a name or argument is materialised
/// as the single byte 0xE9 when it is handed to the operating system. xt prints such a name lossily,
/// i.e. with U+FFFD again, so messages still compare.
pub fn os_name(s: &str) -> std::ffi::OsString {
    use std::os::unix::ffi::OsStringExt;
    let b = s.as_bytes();
    let mut out = Vec::with_capacity(b.len());
    let mut i = 0;
    while i < b.len() {
        if b[i..].starts_with("\u{fffd}".as_bytes()) {
            out.push(0xe9);
            i += 3;
        } else {
            out.push(b[i]);
            i += 1;
        }
    }
    std::ffi::OsString::from_vec(out)
}

/// A fresh scratch directory under $XTV_OUT/scratch (removed by Drop).
pub struct Scratch(pub PathBuf);

impl Scratch {
    pub fn new() -> Scratch {
        let base = std::env::var("XTV_OUT").unwrap_or_else(|_| "/verif/out".into());
        let n = SCRATCH_N.fetch_add(1, Ordering::Relaxed);
        let p = PathBuf::from(format!("{base}/scratch/{}-{}", std::process::id(), n));
        let _ = std::fs::create_dir_all(&p);
        Scratch(p)
    }
    pub fn path(&self) -> &Path {
        &self.0
    }
    pub fn file(&self, name: &str, content: &[u8]) -> PathBuf {
        let p = self.0.join(os_name(name));
        std::fs::write(&p, content).expect("write scratch file");
        p
    }
    pub fn fifo(&self, name: &str) -> PathBuf {
        use std::os::unix::ffi::OsStrExt;
        let p = self.0.join(os_name(name));
        let c = CString::new(p.as_os_str().as_bytes()).unwrap();
        unsafe {
            libc::mkfifo(c.as_ptr(), 0o600);
        }
        p
    }
}

impl Drop for Scratch {
    fn drop(&mut self) {
        let _ = std::fs::remove_dir_all(&self.0);
    }
}

/// Feeds a FIFO from a background thread (open blocks until xt opens it too).
pub fn feed_fifo(path: PathBuf, content: Vec<u8>) -> std::thread::JoinHandle<()> {
    std::thread::spawn(move || {
        // open non-blocking in a retry loop so that a reader that never comes cannot hang us forever
        let c = { use std::os::unix::ffi::OsStrExt; CString::new(path.as_os_str().as_bytes()).unwrap() };
        let mut fd = -1;
        for _ in 0..2000 {
            fd = unsafe { libc::open(c.as_ptr(), libc::O_WRONLY | libc::O_NONBLOCK) };
            if fd >= 0 {
                break;
            }
            std::thread::sleep(Duration::from_millis(5));
        }
        if fd < 0 {
            return;
        }
        unsafe {
            let flags = libc::fcntl(fd, libc::F_GETFL);
            libc::fcntl(fd, libc::F_SETFL, flags & !libc::O_NONBLOCK);
        }
        let mut f = unsafe { File::from_raw_fd(fd) };
        let _ = f.write_all(&content);
    })
}

/// Like `feed_fifo`, but the content arrives in bursts with a pause after each.
pub fn feed_fifo_bursts(path: PathBuf, bursts: Vec<Vec<u8>>, pause_ms: u64) -> std::thread::JoinHandle<()> {
    std::thread::spawn(move || {
        let c = { use std::os::unix::ffi::OsStrExt; CString::new(path.as_os_str().as_bytes()).unwrap() };
        let mut fd = -1;
        for _ in 0..2000 {
            fd = unsafe { libc::open(c.as_ptr(), libc::O_WRONLY | libc::O_NONBLOCK) };
            if fd >= 0 {
                break;
            }
            std::thread::sleep(Duration::from_millis(5));
        }
        if fd < 0 {
            return;
        }
        unsafe {
            let flags = libc::fcntl(fd, libc::F_GETFL);
            libc::fcntl(fd, libc::F_SETFL, flags & !libc::O_NONBLOCK);
        }
        let mut f = unsafe { File::from_raw_fd(fd) };
        for b in bursts {
            if f.write_all(&b).is_err() {
                break;
            }
            std::thread::sleep(Duration::from_millis(pause_ms));
        }
    })
}

fn open_pty() -> Option<(RawFd, File)> {
    unsafe {
        let master = libc::posix_openpt(libc::O_RDWR | libc::O_NOCTTY | libc::O_CLOEXEC);
        if master < 0 {
            return None;
        }
        if libc::grantpt(master) != 0 || libc::unlockpt(master) != 0 {
            libc::close(master);
            return None;
        }
        let mut buf = [0i8; 128];
        if libc::ptsname_r(master, buf.as_mut_ptr(), buf.len()) != 0 {
            libc::close(master);
            return None;
        }
        let slave = libc::open(buf.as_ptr(), libc::O_RDWR | libc::O_NOCTTY);
        if slave < 0 {
            libc::close(master);
            return None;
        }
        // raw-ish output: no NL -> CRNL translation, so bytes can be compared
        let mut t: libc::termios = std::mem::zeroed();
        if libc::tcgetattr(slave, &mut t) == 0 {
            t.c_oflag &= !libc::OPOST;
            libc::tcsetattr(slave, libc::TCSANOW, &t);
        }
        Some((master, File::from_raw_fd(slave)))
    }
}

/// What the process inherits for SIGPIPE.
#[derive(Clone, Copy, Debug, PartialEq)]
pub enum SigEnv {
    Default,
    /// SIGPIPE ignored (SIG_IGN survives exec): what most language runtimes leave to their children.
    PipeIgnored,
    /// SIGPIPE blocked in the signal mask (the mask survives exec): raising it does not terminate.
    PipeBlocked,
}

thread_local! {
    static SIG_ENV: std::cell::Cell<SigEnv> = std::cell::Cell::new(SigEnv::Default);
    static NOFILE: std::cell::Cell<Option<u64>> = std::cell::Cell::new(None);
    static STDERR: std::cell::Cell<StderrKind> = std::cell::Cell::new(StderrKind::Pipe);
}

/// Where the process's standard error goes.
#[derive(Clone, Copy, Debug, PartialEq)]
pub enum StderrKind {
    /// a pipe the harness reads to the end (the default)
    Pipe,
    /// /dev/full: every write fails with ENOSPC
    DevFull,
    /// a pipe whose read end is already closed: writes fail with EPIPE (and raise SIGPIPE unless ignored)
    ClosedPipe,
}

/// Like `run`, with standard error connected as given (nothing is captured from it then).
pub fn run_stderr(r: Run, kind: StderrKind) -> ProcOut {
    let _g = EXCLUSIVE.read().unwrap_or_else(|e| e.into_inner());
    STDERR.with(|c| c.set(kind));
    let out = run_inner(r, None);
    STDERR.with(|c| c.set(StderrKind::Pipe));
    out
}

/// Like `run`, with the process limited to `n` open descriptors (RLIMIT_NOFILE, set from outside
/// right after the spawn: the dynamic loader and the runtime have what they need by then or get it
/// within the limit, and every later open() of the program counts against it).
pub fn run_nofile(r: Run, n: u64) -> ProcOut {
    let _g = EXCLUSIVE.read().unwrap_or_else(|e| e.into_inner());
    NOFILE.with(|c| c.set(Some(n)));
    let out = run_inner(r, None);
    NOFILE.with(|c| c.set(None));
    out
}

/// Like `run`, with the given SIGPIPE disposition / mask inherited by the process.
pub fn run_sig(r: Run, env: SigEnv) -> ProcOut {
    let _g = EXCLUSIVE.read().unwrap_or_else(|e| e.into_inner());
    SIG_ENV.with(|c| c.set(env));
    let out = run_inner(r, None);
    SIG_ENV.with(|c| c.set(SigEnv::Default));
    out
}

/// `run_sig` while no other process of this harness is being spawned or running (see `run_exclusive`).
pub fn run_sig_exclusive(r: Run, env: SigEnv) -> ProcOut {
    let _g = EXCLUSIVE.write().unwrap_or_else(|e| e.into_inner());
    std::thread::sleep(Duration::from_millis(100));
    SIG_ENV.with(|c| c.set(env));
    let out = run_inner(r, None);
    SIG_ENV.with(|c| c.set(SigEnv::Default));
    out
}

/// Ordinary runs share this lock; `run_exclusive` takes it alone.
static EXCLUSIVE: std::sync::RwLock<()> = std::sync::RwLock::new(());

/// For process drivers outside this module: hold this while a child of theirs runs, so that
/// `run_exclusive` keeps its meaning.
pub fn shared_guard() -> std::sync::RwLockReadGuard<'static, ()> {
    EXCLUSIVE.read().unwrap_or_else(|e| e.into_inner())
}

pub fn run(r: Run) -> ProcOut {
    let _g = EXCLUSIVE.read().unwrap_or_else(|e| e.into_inner());
    run_inner(r, None)
}

/// Like `run`, with the program name (argv[0]) the process sees chosen by the
/// caller; U+FFFD is materialised as the byte 0xE9 as in `os_name`.
pub fn run_as(r: Run, arg0: &str) -> ProcOut {
    let _g = EXCLUSIVE.read().unwrap_or_else(|e| e.into_inner());
    run_inner(r, Some(arg0))
}

/// Runs one process while no other process of this harness is being spawned or
/// is running. Used to confirm an observation that depends on "nobody else holds
/// this pipe": a child spawned concurrently by another thread holds copies of
/// every descriptor of this process (close-on-exec ones included) until its exec
/// has closed them - and with vfork-style spawning the parent is resumed slightly
/// BEFORE that point - so for a moment a pipe whose read end the harness has
/// closed can still have a reader. Confirming under exclusion removes that
/// harness-made race; a real defect repeats.
pub fn run_exclusive(r: Run) -> ProcOut {
    let _g = EXCLUSIVE.write().unwrap_or_else(|e| e.into_inner());
    // let children that were just spawned finish their exec
    std::thread::sleep(Duration::from_millis(100));
    run_inner(r, None)
}

fn run_inner(r: Run, arg0: Option<&str>) -> ProcOut {
    let mut cmd = Command::new(r.bin);
    cmd.args(r.argv.iter().map(|a| os_name(a))).current_dir(r.cwd).stderr(Stdio::piped());
    // keep argv[0] stable so that usage text is comparable
    cmd.arg0(os_name(arg0.unwrap_or("xt")));
    cmd.env_clear();
    match &r.stdin {
        StdinKind::Null => {
            cmd.stdin(Stdio::null());
        }
        StdinKind::Bytes(_) | StdinKind::BytesAfterConsumerLeft(_) | StdinKind::Bursts(..) => {
            cmd.stdin(Stdio::piped());
        }
        StdinKind::Directory => match File::open(r.cwd) {
            Ok(f) => {
                cmd.stdin(Stdio::from(f));
            }
            Err(e) => return ProcOut { status: Status::SpawnError(e.to_string()), stdout: vec![], stderr: vec![] },
        },
        StdinKind::FileAtOffset(b, off) => {
            use std::io::{Seek, SeekFrom};
            let p = r.cwd.join(format!(".stdin-{}", SCRATCH_N.fetch_add(1, Ordering::Relaxed)));
            let opened = std::fs::write(&p, b).and_then(|_| File::open(&p)).and_then(|mut f| f.seek(SeekFrom::Start(*off)).map(|_| f));
            let _ = std::fs::remove_file(&p);
            match opened {
                Ok(f) => {
                    cmd.stdin(Stdio::from(f));
                }
                Err(e) => return ProcOut { status: Status::SpawnError(e.to_string()), stdout: vec![], stderr: vec![] },
            }
        }
    }
    match STDERR.with(|c| c.get()) {
        StderrKind::Pipe => {}
        StderrKind::DevFull => {
            if let Ok(f) = std::fs::OpenOptions::new().write(true).open("/dev/full") {
                cmd.stderr(Stdio::from(f));
            }
        }
        StderrKind::ClosedPipe => {
            let mut fds = [0 as RawFd; 2];
            if unsafe { libc::pipe2(fds.as_mut_ptr(), libc::O_CLOEXEC) } == 0 {
                unsafe {
                    libc::close(fds[0]);
                    cmd.stderr(Stdio::from(File::from_raw_fd(fds[1])));
                }
            }
        }
    }
    let mut pty_master: Option<RawFd> = None;
    let mut out_file: Option<PathBuf> = None;
    // (read end, number of filler bytes) of a pre-filled non-blocking pipe
    let mut full_pipe: Option<(File, usize)> = None;
    let mut sock_peer: Option<std::os::unix::net::UnixStream> = None;
    match SIG_ENV.with(|c| c.get()) {
        SigEnv::Default => {}
        env => {
            use std::os::unix::process::CommandExt as _;
            // SAFETY: only async-signal-safe calls between fork and exec
            unsafe {
                cmd.pre_exec(move || {
                    if env == SigEnv::PipeIgnored {
                        libc::signal(libc::SIGPIPE, libc::SIG_IGN);
                    } else {
                        let mut set: libc::sigset_t = std::mem::zeroed();
                        libc::sigemptyset(&mut set);
                        libc::sigaddset(&mut set, libc::SIGPIPE);
                        libc::sigprocmask(libc::SIG_BLOCK, &set, std::ptr::null_mut());
                    }
                    Ok(())
                });
            }
        }
    }
    match &r.stdout {
        StdoutKind::Pipe | StdoutKind::CloseAfter(_) => {
            cmd.stdout(Stdio::piped());
        }
        StdoutKind::File => {
            let p = r.cwd.join(format!(".stdout-{}", SCRATCH_N.fetch_add(1, Ordering::Relaxed)));
            match File::create(&p) {
                Ok(f) => {
                    cmd.stdout(Stdio::from(f));
                    out_file = Some(p);
                }
                Err(e) => return ProcOut { status: Status::SpawnError(e.to_string()), stdout: vec![], stderr: vec![] },
            }
        }
        StdoutKind::HungUpPty => match open_pty() {
            Some((m, slave)) => {
                unsafe {
                    libc::close(m);
                }
                cmd.stdout(Stdio::from(slave));
            }
            None => return ProcOut { status: Status::SpawnError("cannot open a pseudo-terminal".into()), stdout: vec![], stderr: vec![] },
        },
        StdoutKind::SocketCloseAfter(_) => match std::os::unix::net::UnixStream::pair() {
            Ok((a, b)) => {
                cmd.stdout(Stdio::from(std::os::fd::OwnedFd::from(b)));
                sock_peer = Some(a);
            }
            Err(e) => return ProcOut { status: Status::SpawnError(e.to_string()), stdout: vec![], stderr: vec![] },
        },
        StdoutKind::FullNonBlockingPipe => {
            let mut fds = [0 as RawFd; 2];
            if unsafe { libc::pipe2(fds.as_mut_ptr(), libc::O_CLOEXEC) } != 0 {
                return ProcOut { status: Status::SpawnError("pipe2 failed".into()), stdout: vec![], stderr: vec![] };
            }
            let (rd, wr) = unsafe { (File::from_raw_fd(fds[0]), File::from_raw_fd(fds[1])) };
            let mut filler = 0usize;
            unsafe {
                // non-blocking is a property of the open file description: the child inherits it
                let fl = libc::fcntl(fds[1], libc::F_GETFL);
                libc::fcntl(fds[1], libc::F_SETFL, fl | libc::O_NONBLOCK);
                let chunk = [0u8; 4096];
                loop {
                    let n = libc::write(fds[1], chunk.as_ptr() as *const libc::c_void, chunk.len());
                    if n <= 0 {
                        break;
                    }
                    filler += n as usize;
                }
                // top up byte by byte so that not even a short write fits
                let one = [0u8; 1];
                while libc::write(fds[1], one.as_ptr() as *const libc::c_void, 1) == 1 {
                    filler += 1;
                }
            }
            cmd.stdout(Stdio::from(wr));
            full_pipe = Some((rd, filler));
        }
        StdoutKind::FileLimited(limit) => {
            use std::os::unix::process::CommandExt as _;
            let p = r.cwd.join(format!(".stdout-{}", SCRATCH_N.fetch_add(1, Ordering::Relaxed)));
            match File::create(&p) {
                Ok(f) => {
                    cmd.stdout(Stdio::from(f));
                    out_file = Some(p);
                    let limit = *limit;
                    // SAFETY: only async-signal-safe calls between fork and exec
                    unsafe {
                        cmd.pre_exec(move || {
                            libc::signal(libc::SIGXFSZ, libc::SIG_IGN);
                            let lim = libc::rlimit { rlim_cur: limit, rlim_max: limit };
                            if libc::setrlimit(libc::RLIMIT_FSIZE, &lim) != 0 {
                                return Err(std::io::Error::last_os_error());
                            }
                            Ok(())
                        });
                    }
                }
                Err(e) => return ProcOut { status: Status::SpawnError(e.to_string()), stdout: vec![], stderr: vec![] },
            }
        }
        StdoutKind::Pty => match open_pty() {
            Some((m, slave)) => {
                cmd.stdout(Stdio::from(slave));
                pty_master = Some(m);
            }
            None => return ProcOut { status: Status::SpawnError("cannot open a pseudo-terminal".into()), stdout: vec![], stderr: vec![] },
        },
        StdoutKind::DevFull => match std::fs::OpenOptions::new().write(true).open("/dev/full") {
            Ok(f) => {
                cmd.stdout(Stdio::from(f));
            }
            Err(e) => return ProcOut { status: Status::SpawnError(e.to_string()), stdout: vec![], stderr: vec![] },
        },
    }
    let mut child = match cmd.spawn() {
        Ok(c) => c,
        Err(e) => return ProcOut { status: Status::SpawnError(e.to_string()), stdout: vec![], stderr: vec![] },
    };
    drop(cmd); // closes the parent's copy of the pty slave / files
    let pid = child.id() as i32;
    // CPU-time limit on the child (set from outside so that spawning can use the
    // fast posix_spawn path; the tiny window before it applies does not matter)
    unsafe {
        let lim = libc::rlimit { rlim_cur: r.cpu_secs, rlim_max: r.cpu_secs + 1 };
        libc::prlimit(pid, libc::RLIMIT_CPU, &lim, std::ptr::null_mut());
        if let Some(n) = NOFILE.with(|c| c.get()) {
            let lim = libc::rlimit { rlim_cur: n, rlim_max: n };
            libc::prlimit(pid, libc::RLIMIT_NOFILE, &lim, std::ptr::null_mut());
        }
    }
    let done = Arc::new(AtomicBool::new(false));
    let timed_out = Arc::new(AtomicBool::new(false));
    {
        let done = done.clone();
        let timed_out = timed_out.clone();
        let wall = r.wall_secs;
        std::thread::spawn(move || {
            let mut waited = 0u64;
            while waited < wall * 20 {
                std::thread::sleep(Duration::from_millis(50));
                if done.load(Ordering::Relaxed) {
                    return;
                }
                waited += 1;
            }
            timed_out.store(true, Ordering::Relaxed);
            unsafe {
                libc::kill(pid, libc::SIGKILL);
            }
        });
    }
    // stdin writer
    let (gate_tx, gate_rx) = std::sync::mpsc::channel::<()>();
    let stdin_thread = match &r.stdin {
        StdinKind::Bytes(b) => {
            let mut si = child.stdin.take().unwrap();
            let b = b.clone();
            Some(std::thread::spawn(move || {
                let _ = si.write_all(&b);
            }))
        }
        StdinKind::BytesAfterConsumerLeft(b) => {
            let mut si = child.stdin.take().unwrap();
            let b = b.clone();
            Some(std::thread::spawn(move || {
                // wait until the consumer is gone (or the run is over)
                let _ = gate_rx.recv_timeout(Duration::from_secs(120));
                let _ = si.write_all(&b);
            }))
        }
        StdinKind::Bursts(bursts, pause_ms) => {
            let mut si = child.stdin.take().unwrap();
            let bursts = bursts.clone();
            let pause = *pause_ms;
            Some(std::thread::spawn(move || {
                for b in bursts {
                    if si.write_all(&b).and_then(|_| si.flush()).is_err() {
                        break;
                    }
                    std::thread::sleep(Duration::from_millis(pause));
                }
            }))
        }
        StdinKind::Null | StdinKind::FileAtOffset(..) | StdinKind::Directory => None,
    };
    // stderr reader
    let se = child.stderr.take();
    let stderr_thread = std::thread::spawn(move || {
        let mut v = vec![];
        if let Some(mut se) = se {
            let _ = se.read_to_end(&mut v);
        }
        v
    });
    // stdout
    let mut stdout = vec![];
    match &r.stdout {
        StdoutKind::Pipe => {
            let mut so = child.stdout.take().unwrap();
            let _ = so.read_to_end(&mut stdout);
        }
        StdoutKind::CloseAfter(k) => {
            let mut so = child.stdout.take().unwrap();
            let mut buf = vec![0u8; *k];
            let mut got = 0;
            while got < *k {
                match so.read(&mut buf[got..]) {
                    Ok(0) => break,
                    Ok(n) => got += n,
                    Err(_) => break,
                }
            }
            buf.truncate(got);
            stdout = buf;
            drop(so); // the consumer goes away
            let _ = gate_tx.send(());
        }
        StdoutKind::SocketCloseAfter(k) => {
            let mut so = sock_peer.take().unwrap();
            let mut buf = vec![0u8; *k];
            let mut got = 0;
            while got < *k {
                match so.read(&mut buf[got..]) {
                    Ok(0) => break,
                    Ok(n) => got += n,
                    Err(_) => break,
                }
            }
            buf.truncate(got);
            stdout = buf;
            // the consumer stops reading: further writes fail with EPIPE. (The descriptor itself is kept
            // until the process is gone: CLOSING a socket that still holds unread data resets the connection,
            // and the writer would see ECONNRESET instead - a different failure than the one meant here.)
            let _ = so.shutdown(std::net::Shutdown::Read);
            sock_peer = Some(so);
            let _ = gate_tx.send(());
        }
        StdoutKind::Pty => {
            let m = pty_master.unwrap();
            let mut f = unsafe { File::from_raw_fd(m) };
            let mut buf = [0u8; 4096];
            loop {
                match f.read(&mut buf) {
                    Ok(0) => break,
                    Ok(n) => stdout.extend_from_slice(&buf[..n]),
                    Err(_) => break, // EIO once the slave side is closed
                }
                if stdout.len() > 64 << 20 {
                    break;
                }
            }
        }
        _ => {}
    }
    let _ = gate_tx.send(());
    let status = child.wait();
    drop(sock_peer);
    done.store(true, Ordering::Relaxed);
    if let Some(t) = stdin_thread {
        let _ = t.join();
    }
    let stderr = stderr_thread.join().unwrap_or_default();
    if let Some(p) = out_file {
        stdout = std::fs::read(&p).unwrap_or_default();
        let _ = std::fs::remove_file(&p);
    }
    if let Some((mut rd, filler)) = full_pipe {
        // the process is gone and the parent's write end was dropped with `cmd`: drain to EOF
        let mut all = vec![];
        let _ = rd.read_to_end(&mut all);
        stdout = all.split_off(filler.min(all.len()));
    }
    let status = if timed_out.load(Ordering::Relaxed) {
        Status::Timeout
    } else {
        match status {
            Ok(s) => match (s.code(), s.signal()) {
                (Some(c), _) => Status::Exit(c),
                (None, Some(sig)) => {
                    if sig == libc::SIGXCPU || sig == libc::SIGKILL {
                        // CPU limit: the case is judged by the caller (C04 treats it as a hang)
                        Status::Signal(sig)
                    } else {
                        Status::Signal(sig)
                    }
                }
                _ => Status::SpawnError("no status".into()),
            },
            Err(e) => Status::SpawnError(e.to_string()),
        }
    };
    ProcOut { status, stdout, stderr }
}

pub fn release_bin() -> PathBuf {
    PathBuf::from(std::env::var("XTV_XT_RELEASE").unwrap_or_else(|_| "/verif/out/xtbin/release/xt".into()))
}

pub fn debug_bin() -> PathBuf {
    PathBuf::from(std::env::var("XTV_XT_DEBUG").unwrap_or_else(|_| "/verif/out/xtbin/debug/xt".into()))
}

/// Convenience: run with default limits.
pub fn simple(bin: &Path, cwd: &Path, argv: &[&str], stdin: StdinKind, stdout: StdoutKind) -> ProcOut {
    run(Run { bin, argv: argv.iter().map(|s| s.to_string()).collect(), cwd, stdin, stdout, wall_secs: 60, cpu_secs: 30 })
}

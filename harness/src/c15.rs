//! C15 — output of earlier inputs survives a later failure.
//!
//! Lists of 1-6 inputs of sizes from a few bytes (far below the 8 KiB stdout
//! buffer) to megabytes, with the failing input at EVERY position and every
//! failure kind; exit status must be 1 and stdout must start with the complete
//! translations of all earlier inputs; without a failure exit 0 and every byte.

use std::collections::BTreeMap;

use serde_json::{json, Value};

use crate::climodel::{self, PathKind};
use crate::ev::{self, Acc, Ctx, Finish, Violation};
use crate::fmts::{Fmt, ALL};
use crate::model::preview;
use crate::procmon::{self, Run, Scratch, StdinKind, StdoutKind};
use crate::rng::Rng;

pub const FAILURES: &[&str] = &["missing_file", "syntax_error_at_depth", "undetectable", "value_target_refuses", "second_document_for_toml", "second_use_of_stdin", "directory"];

/// A translatable JSON input of roughly `size` bytes (one or more documents).
/// Sizes from this value up mean "exactly (size - EXACT_DOCS) small documents".
pub const EXACT_DOCS: usize = 1_000_000_000;

fn good_input(size: usize, rng: &mut Rng, single_doc: bool) -> Vec<u8> {
    if size >= EXACT_DOCS && !single_doc {
        // an exact number of one-line documents (round numbers: anything done "every N documents" shows here)
        let mut s = String::new();
        for i in 0..size - EXACT_DOCS {
            s.push_str(&format!("{{\"n\":{}}}\n", (i as u64 + rng.next() % 7) % 1000));
        }
        return s.into_bytes();
    }
    let size = if size >= EXACT_DOCS { 200 } else { size };
    if size <= 8 {
        return b"[1]\n".to_vec();
    }
    let mut s = String::new();
    if single_doc {
        s.push_str("{\"k\":[");
        let mut i = 0u64;
        while s.len() + 4 < size {
            if i > 0 {
                s.push(',');
            }
            s.push_str(&(rng.next() % 100000).to_string());
            i += 1;
        }
        s.push_str("]}\n");
    } else {
        while s.len() < size {
            s.push_str(&format!("{{\"id\":{},\"name\":\"item {}\"}}\n", rng.next() % 1000, rng.next() % 100000));
        }
    }
    s.into_bytes()
}

/// A small translatable input from the document generator, in a random source
/// format and spelling, whose LAST value is chosen from the values that
/// serializers write in unusual ways (empty string, empty collections, ...), so
/// that the bytes of this input end in every kind of final write. Returns the
/// content and the file extension that names its format.
fn generated_input(rng: &mut Rng, to: Fmt) -> (Vec<u8>, &'static str) {
    use crate::gen::{gen_doc, tomlify, Classes, GenOpts};
    use crate::model::Val;
    let mut cl = Classes::default();
    let o = GenOpts { max_depth: 3, max_width: 3, ..GenOpts::common() };
    let body = gen_doc(rng, &o, &mut cl);
    let tail = match rng.below(14) {
        // strings that end in line breaks (YAML writes them as block scalars with a chomping indicator,
        // '|+' for more than one) or consist of white space only
        10 => Val::s("line\n\n"),
        11 => Val::s("two\nlines\n"),
        12 => Val::s("\n"),
        13 => Val::s("keep\n\n\n"),
        0 | 1 => Val::s(""),
        2 => Val::Seq(vec![]),
        3 => Val::Map(vec![]),
        4 => Val::Seq(vec![Val::s("")]),
        5 => Val::Map(vec![(Val::s("x"), Val::s(""))]),
        6 => Val::Seq(vec![Val::Seq(vec![]), Val::Map(vec![])]),
        7 => Val::Int(0),
        8 => Val::Bool(false),
        _ => Val::s("\u{e9}"),
    };
    let as_map = to == Fmt::Toml || rng.chance(1, 2);
    let mut doc = if as_map { Val::Map(vec![(Val::s("body"), body), (Val::s("tail"), tail)]) } else { Val::Seq(vec![body, tail]) };
    let mut src = [Fmt::Json, Fmt::Yaml, Fmt::Msgpack, Fmt::Toml][rng.below(4)];
    if to == Fmt::Toml || src == Fmt::Toml {
        match tomlify(&doc) {
            Some(d) => doc = d,
            None => src = Fmt::Json,
        }
    }
    let mut feats = crate::spell::Feats::default();
    let plain = rng.chance(1, 2);
    let bytes = crate::spell::spell(src, &doc, rng, &mut feats, plain);
    (bytes, match src { Fmt::Json => "json", Fmt::Yaml => "yaml", Fmt::Msgpack => "msgpack", Fmt::Toml => "toml" })
}

#[derive(Clone, Debug)]
pub struct Case {
    pub to: Fmt,
    pub sizes: Vec<usize>,
    pub fail_at: Option<usize>,
    pub failure: &'static str,
    pub stdout_file: bool,
    /// stdout is a full pipe in non-blocking mode: nothing can be written (EAGAIN)
    pub stdout_full_pipe: bool,
    pub seed: u64,
}

impl Case {
    fn json(&self) -> Value {
        json!({"to": self.to.name(), "sizes": self.sizes, "fail_at": self.fail_at, "failure": self.failure, "stdout_file": self.stdout_file, "stdout_full_pipe": self.stdout_full_pipe, "seed": self.seed})
    }
    fn parse(v: &Value) -> Option<Case> {
        let failure = FAILURES.iter().copied().chain(["none"]).find(|f| Some(*f) == v["failure"].as_str())?;
        Some(Case { to: Fmt::parse(v["to"].as_str()?)?, sizes: v["sizes"].as_array()?.iter().filter_map(|x| x.as_u64().map(|x| x as usize)).collect(), fail_at: v["fail_at"].as_u64().map(|x| x as usize), failure, stdout_file: v["stdout_file"].as_bool()?, stdout_full_pipe: v["stdout_full_pipe"].as_bool().unwrap_or(false), seed: v["seed"].as_u64()? })
    }
}

pub fn judge(case: &Case, acc: &mut Acc) {
    acc.evals += 1;
    let mut rng = Rng::new(case.seed);
    let sc = Scratch::new();
    let mut files: BTreeMap<String, PathKind> = BTreeMap::new();
    let mut argv: Vec<String> = vec!["-t".into(), case.to.name().into()];
    let mut stdin: Vec<u8> = vec![];
    let mut stdin_used = false;
    // (position among the path operands, name, content) of FIFO inputs
    let mut fifos: Vec<(usize, String, Vec<u8>)> = vec![];
    for (i, size) in case.sizes.iter().enumerate() {
        let failing = case.fail_at == Some(i);
        // one name in six is not valid UTF-8 (see procmon::os_name): such a file is an input like any other
        let name = if rng.chance(1, 6) {
            acc.count("input_names_not_utf8");
            format!("r\u{fffd}sum\u{fffd}{i}.json")
        } else {
            format!("f{i}.json")
        };
        // TOML output takes a single document: good inputs for it are single tables
        let single = case.to == Fmt::Toml;
        if failing {
            match case.failure {
                "missing_file" => {
                    files.insert(name.clone(), PathKind::Missing);
                    argv.push(name);
                }
                "directory" => {
                    let _ = std::fs::create_dir_all(sc.path().join(procmon::os_name(&name)));
                    files.insert(name.clone(), PathKind::Directory);
                    argv.push(name);
                }
                "syntax_error_at_depth" => {
                    let mut b = good_input(*size, &mut rng, true);
                    // damage near the end, deep inside the structure, after plenty of output was produced
                    let at = b.len().saturating_sub(4);
                    b.truncate(at);
                    b.extend_from_slice(b",,]}");
                    sc.file(&name, &b);
                    files.insert(name.clone(), PathKind::Regular(b));
                    argv.push(name);
                }
                "undetectable" => {
                    let n2 = format!("f{i}");
                    let b = b"\x01\x02 no known format {{{\n".to_vec();
                    sc.file(&n2, &b);
                    files.insert(n2.clone(), PathKind::Regular(b));
                    argv.push(n2);
                }
                "value_target_refuses" => {
                    let b: Vec<u8> = match case.to {
                        Fmt::Toml => b"{\"a\": null}\n".to_vec(),
                        Fmt::Json => {
                            let n2 = format!("f{i}.yaml");
                            let b = b"? [1, 2]\n: x\n".to_vec();
                            sc.file(&n2, &b);
                            files.insert(n2.clone(), PathKind::Regular(b));
                            argv.push(n2);
                            continue;
                        }
                        Fmt::Yaml => {
                            let n2 = format!("f{i}.msgpack");
                            let b = b"\x91\xc4\x02hi".to_vec();
                            sc.file(&n2, &b);
                            files.insert(n2.clone(), PathKind::Regular(b));
                            argv.push(n2);
                            continue;
                        }
                        Fmt::Msgpack => b"{\"a\": [1, 2,, ]}".to_vec(), // MessagePack refuses nothing JSON can say: fall back to a syntax error
                    };
                    sc.file(&name, &b);
                    files.insert(name.clone(), PathKind::Regular(b));
                    argv.push(name);
                }
                "second_document_for_toml" => {
                    // for TOML any further document fails; for other targets this is an ordinary good input
                    let b = b"{\"second\": 2}\n".to_vec();
                    sc.file(&name, &b);
                    files.insert(name.clone(), PathKind::Regular(b));
                    argv.push(name);
                }
                _ => {
                    // second use of stdin: name '-' here and once before if not yet used
                    if !stdin_used {
                        stdin = good_input(64, &mut rng, single);
                        argv.push("-".into());
                    }
                    argv.push("-".into());
                    stdin_used = true;
                }
            }
        } else if i % 5 == 3 && !stdin_used && case.failure != "second_use_of_stdin" {
            stdin = good_input(*size, &mut rng, single);
            stdin_used = true;
            argv.push("-".into());
        } else if *size <= 200 && rng.chance(1, 4) {
            // a zero-length (or blank) regular file: no document for JSON / YAML readers, one empty table for TOML
            // (which is also what detection makes of it)
            let n2 = format!("e{i}{}", *rng.pick(&["", ".toml", ".json", ".TOML"]));
            let b: Vec<u8> = (*rng.pick(&[&b""[..], b"", b"\n", b"# nothing\n"])).to_vec();
            acc.count("zero_length_or_blank_input");
            sc.file(&n2, &b);
            files.insert(n2.clone(), PathKind::Regular(b));
            argv.push(n2);
        } else if *size <= 3000 && i % 2 == 1 {
            // generated content in any source format, ending in an empty string / empty collection / ...,
            // delivered as a regular file, on standard input (format detected) or through a FIFO
            let (b, ext) = generated_input(&mut rng, case.to);
            acc.count(&format!("generated_input_{ext}"));
            match rng.below(4) {
                0 if !stdin_used && case.failure != "second_use_of_stdin" => {
                    acc.count("generated_input_on_stdin");
                    stdin = b;
                    stdin_used = true;
                    argv.push("-".into());
                }
                1 => {
                    // a FIFO, named with or without the telling extension
                    let n2 = if rng.chance(1, 2) { format!("p{i}.{ext}") } else { format!("p{i}") };
                    acc.count("generated_input_through_fifo");
                    sc.fifo(&n2);
                    files.insert(n2.clone(), PathKind::Fifo(b.clone()));
                    fifos.push((argv.len() - 2, n2.clone(), b));
                    argv.push(n2);
                }
                _ => {
                    let n2 = format!("f{i}.{ext}");
                    sc.file(&n2, &b);
                    files.insert(n2.clone(), PathKind::Regular(b));
                    argv.push(n2);
                }
            }
        } else {
            let b = good_input(*size, &mut rng, single);
            sc.file(&name, &b);
            files.insert(name.clone(), PathKind::Regular(b));
            argv.push(name);
        }
    }
    let paths: Vec<String> = argv[2..].to_vec();
    let kind = if case.stdout_full_pipe { StdoutKind::FullNonBlockingPipe } else if case.stdout_file { StdoutKind::File } else { StdoutKind::Pipe };
    let exp = climodel::emulate(None, case.to, &paths, &files, &stdin, &kind);
    // FIFOs are fed only as far as the model says xt will get (a FIFO nobody opens would block its feeder)
    let reached = exp.inputs.len() + 1;
    let mut feeders = vec![];
    for (pos, name, content) in &fifos {
        if *pos < reached {
            feeders.push(procmon::feed_fifo(sc.path().join(name), content.clone()));
        }
    }
    let r = Run { bin: &procmon::release_bin(), argv: argv.clone(), cwd: sc.path(), stdin: StdinKind::Bytes(stdin.clone()), stdout: kind, wall_secs: 120, cpu_secs: 60 };
    // with hundreds of operands the process may hold only 16 descriptors at a time: every input has to be
    // closed (and unmapped) before the next one is opened
    let out = if case.sizes.len() >= 100 {
        acc.count("invocations_under_a_descriptor_limit");
        procmon::run_nofile(r, 16)
    } else {
        procmon::run(r)
    };
    acc.count(&format!("expected_exit_{}", exp.exit));
    acc.count(&format!("failure_{}", if case.fail_at.is_some() { case.failure } else { "none" }));
    if let Some(p) = case.fail_at {
        acc.count(&format!("failing_position_{p}"));
    }
    acc.max("max_floor_bytes", exp.stdout_floor.len() as u64);
    if exp.exit == 1 && !exp.stdout_floor.is_empty() {
        acc.count("failures_with_earlier_output_to_preserve");
        if exp.stdout_floor.len() < 8192 {
            acc.count("failures_with_earlier_output_below_buffer_size");
        }
    }
    if matches!(out.status, procmon::Status::Timeout | procmon::Status::SpawnError(_)) {
        acc.inconclusive += 1;
        return;
    }
    if case.stdout_full_pipe {
        // nothing can be written: a run that has output to deliver must end - at the first input whose output
        // cannot be delivered - with status 1 and a message; it may not end with status 0, and it may not go on
        // and blame a LATER input while an earlier input's output was dropped
        acc.count("runs_with_stdout_a_full_nonblocking_pipe");
        let has_output = !exp.stdout_ceiling.is_empty();
        let err = String::from_utf8_lossy(&out.stderr).into_owned();
        let verdict: Result<(), String> = if !has_output {
            climodel::judge_run(&out, &exp)
        } else if out.status != procmon::Status::Exit(1) || !err.starts_with("xt error") {
            Err(format!("wait status {} with output that cannot be written (expected exit 1 and a message beginning 'xt error')", out.status.show()))
        } else if !exp.stdout_floor.is_empty() && exp.names.as_ref().map(|n| err.lines().next().unwrap_or("").contains(n.as_str())).unwrap_or(false) {
            Err(format!("the run went on to a later input and blames it ({}), although the {} bytes of earlier inputs could not be written", exp.names.clone().unwrap_or_default(), exp.stdout_floor.len()))
        } else {
            acc.count("full_pipe_failure_reported_at_the_input_whose_output_was_lost");
            Ok(())
        };
        if let Err(e) = verdict {
            acc.violation(Violation { sig: format!("{} full non-blocking pipe: {}", case.failure, ev::truncate(&crate::c02_mask(&e), 80)), case: case.json(), observed: format!("{e}; argv {:?}; status {}, stderr [{}]", argv, out.status.show(), preview(&out.stderr, 160)), expected: "exit 1 with a message about the write failure (or about the input being written when it happened)".into() });
        }
        return;
    }
    if let Err(e) = climodel::judge_run(&out, &exp) {
        acc.violation(Violation { sig: format!("{} {}: {}", case.failure, if case.stdout_file { "file" } else { "pipe" }, ev::truncate(&crate::c02_mask(&e), 80)), case: case.json(), observed: format!("{e}; argv {:?}; status {}, {} bytes on stdout, stderr [{}]", argv, out.status.show(), out.stdout.len(), preview(&out.stderr, 160)), expected: format!("exit {} ({}), stdout starting with the {} bytes of the inputs before the failing one", exp.exit, exp.why, exp.stdout_floor.len()) });
    }
}

/// The output of an input that is DONE is on standard output before the next input is touched: with a
/// later input that is still pending (a FIFO nobody writes to yet, a pipe on standard input that stays
/// silent), the earlier input's translation must arrive (bounded wait), whatever happens afterwards -
/// the later input may never come, the process may be killed.
fn visible_once(to: Fmt, later_is_stdin: bool, n_docs: usize, wait_secs: u64) -> Result<bool, String> {
    use std::process::{Command, Stdio};
    use std::sync::atomic::{AtomicU64, Ordering};
    use std::sync::Arc;
    let first: Vec<u8> = (0..n_docs).flat_map(|i| format!("{{\"done\": {i}}}\n").into_bytes()).collect();
    let later = b"{\"later\": true}\n".to_vec();
    let want_first = crate::run::run_slice(&first, Some(Fmt::Json), to);
    let want_later = crate::run::run_slice(&later, Some(Fmt::Json), to);
    if !want_first.verdict.is_ok() || !want_later.verdict.is_ok() {
        return Ok(false);
    }
    let sc = Scratch::new();
    sc.file("done.json", &first);
    sc.fifo("later.json");
    let _g = procmon::shared_guard();
    let mut cmd = Command::new(procmon::release_bin());
    cmd.current_dir(sc.path()).env_clear().arg("-t").arg(to.name()).arg("done.json").stdout(Stdio::piped()).stderr(Stdio::piped());
    if later_is_stdin {
        cmd.arg("-f").arg("json").arg("-").stdin(Stdio::piped());
    } else {
        cmd.arg("later.json").stdin(Stdio::null());
    }
    let Ok(mut child) = cmd.spawn() else { return Ok(false) };
    drop(cmd);
    let got = Arc::new(AtomicU64::new(0));
    let all = Arc::new(std::sync::Mutex::new(Vec::new()));
    let mut so = child.stdout.take().unwrap();
    let (g2, a2) = (got.clone(), all.clone());
    let reader = std::thread::spawn(move || {
        use std::io::Read;
        let mut buf = [0u8; 65536];
        loop {
            match so.read(&mut buf) {
                Ok(0) | Err(_) => break,
                Ok(n) => {
                    a2.lock().unwrap().extend_from_slice(&buf[..n]);
                    g2.fetch_add(n as u64, Ordering::SeqCst);
                }
            }
        }
    });
    let need = want_first.out.len() as u64;
    let mut waited = 0u64;
    let mut verdict: Result<bool, String> = Ok(true);
    while got.load(Ordering::SeqCst) < need {
        std::thread::sleep(std::time::Duration::from_millis(20));
        waited += 20;
        if waited >= wait_secs * 1000 {
            verdict = Err(format!("{} of the {} bytes of the finished first input arrived within {} s while the later input was still pending", got.load(Ordering::SeqCst), need, wait_secs));
            break;
        }
    }
    if verdict.is_ok() {
        // now the later input arrives
        use std::io::Write;
        if later_is_stdin {
            let mut si = child.stdin.take().unwrap();
            let _ = si.write_all(&later);
        } else if let Ok(mut f) = std::fs::OpenOptions::new().write(true).open(sc.path().join("later.json")) {
            let _ = f.write_all(&later);
        }
    } else {
        let _ = child.kill();
    }
    let mut waited = 0;
    loop {
        match child.try_wait() {
            Ok(Some(_)) => break,
            Ok(None) if waited < 30_000 => {
                std::thread::sleep(std::time::Duration::from_millis(20));
                waited += 20;
            }
            _ => {
                let _ = child.kill();
                let _ = child.wait();
                break;
            }
        }
    }
    let _ = reader.join();
    if verdict.is_ok() {
        let mut want = want_first.out.clone();
        want.extend_from_slice(&want_later.out);
        if *all.lock().unwrap() != want {
            return Err(format!("after the later input arrived the output is {} bytes, expected {}", all.lock().unwrap().len(), want.len()));
        }
    }
    verdict
}

pub fn visible_before_later_input(to: Fmt, later_is_stdin: bool, n_docs: usize, acc: &mut Acc) {
    acc.evals += 1;
    let mut r = visible_once(to, later_is_stdin, n_docs, 20);
    if r.is_err() {
        r = visible_once(to, later_is_stdin, n_docs, 90); // a wall-clock wait decided: repeat with a long one
    }
    match r {
        Ok(true) => acc.count("earlier_output_visible_while_a_later_input_is_pending"),
        Ok(false) => acc.inconclusive += 1,
        Err(e) => acc.violation(Violation { sig: format!("the finished first input's output is withheld while a later input ({}) is pending", if later_is_stdin { "standard input" } else { "a FIFO" }), case: json!({"visible": true, "to": to.name(), "later_is_stdin": later_is_stdin, "documents": n_docs}), observed: e, expected: "the translation of an input that is done is on standard output before the next input is waited for".into() }),
    }
}

pub fn run(ctx: &Ctx) -> i32 {
    let n = ctx.size(1500, 150000);
    let seed = ctx.seed;
    let acc = crate::par::run(n, 4, |i, acc| {
        let mut rng = Rng::derive(seed, 0xc15, i as u64);
        let to = ALL[i % 4];
        // one invocation in forty names hundreds of (small) inputs
        let many = i % 40 == 7;
        let n_in = if many { rng.range(100, 400) } else { rng.range(1, 6) };
        if many {
            acc.count("invocations_with_hundreds_of_inputs");
        }
        let big_ok = i % 40 == 0 && !many;
        let mut sizes: Vec<usize> = (0..n_in).map(|_| *rng.pick(if big_ok { &[5usize, 200, 8190, 70000, 1 << 20, 4 << 20][..] } else if many { &[5usize, 5, 40, 200][..] } else { &[5usize, 5, 200, 200, 3000, 8150, 8200, 70000][..] })).collect();
        if i % 5 == 2 {
            // one input holds an exact, round number of documents
            let at = rng.below(n_in);
            sizes[at] = EXACT_DOCS + *rng.pick(&[256usize, 512, 1000, 1023, 1024, 1025, 2048, 3072, 4096, 8192, 10000, 16384]);
            acc.count("inputs_with_an_exact_round_number_of_documents");
        }
        // failing position: every position in turn, or none
        let fail_at = if i % 7 == 6 { None } else if many { Some(n_in - 1 - rng.below(3)) } else { Some((i / 4) % n_in) };
        let failure = FAILURES[(i / 28) % FAILURES.len()];
        let case = Case { to, sizes, fail_at, failure: if fail_at.is_some() { failure } else { "none" }, stdout_file: (i / 2) % 2 == 0, stdout_full_pipe: i % 9 == 4 && !many, seed: rng.next() };
        acc.distinct(&format!("{:?}", case));
        acc.sample_every(149, || case.json());
        judge(&case, acc);
    });
    let mut acc = acc;
    let mut vis = vec![];
    for to in [Fmt::Json, Fmt::Yaml, Fmt::Msgpack] {
        for later_is_stdin in [false, true] {
            for n_docs in [1usize, 40, 2000] {
                vis.push((to, later_is_stdin, n_docs));
            }
        }
    }
    let v_acc = crate::par::run(vis.len(), 1, |i, acc| {
        let (to, s, n) = vis[i];
        visible_before_later_input(to, s, n, acc);
    });
    acc.merge(v_acc);
    let rule = format!("{} invocations: 1-6 inputs (one invocation in forty: 100-400 small inputs with the failing one near the end, under a limit of 16 open descriptors) with sizes from 5 B to 4 MiB (mostly below the 8 KiB stdout buffer, some straddling it, some far above), the failing input at every position in turn (or none), failure kinds {:?}, all four targets, stdout a pipe or a file (one run in nine: a full pipe in non-blocking mode, where the run must stop with status 1 at the first input whose output cannot be delivered instead of going on and blaming a later one), some inputs through standard input, some zero-length or blank files, one invocation in five with an input of exactly 256 / 512 / 1000 / 1023 / 1024 / 1025 / 2048 / 3072 / 4096 / 8192 / 10000 / 16384 one-line documents, one name in six not valid UTF-8; every second small input is a generated document in a random source format and spelling (named by its extension) whose last value is an empty string, an empty collection, a string ending in one or several line breaks, or another value that serializers finish with an unusual final write, delivered as a regular file, on standard input (format detected) or through a FIFO (named with or without its extension); expectation computed with the library; plus 18 runs in which a first input is done and a later one (a FIFO, a pipe on standard input) is still pending: the first input's translation must arrive before the later input does (bounded wait, repeated with a long wait before it counts); distinct non-trivial = distinct invocations", n, FAILURES);
    ev::finish(
        Finish { ctx, level: "fault_enumeration", rule, assumptions: vec!["how much of the FAILING input's own partial output reaches stdout is left open (anything between nothing and all of it)".into()], extra: serde_json::Map::new(), exhaustive: false, min_distinct: 300, must_reach: vec![("failures_with_earlier_output_below_buffer_size".into(), 100), ("expected_exit_0".into(), 50), ("failing_position_0".into(), 20), ("failing_position_3".into(), 20), ("generated_input_msgpack".into(), 30), ("generated_input_yaml".into(), 30), ("generated_input_json".into(), 30), ("generated_input_on_stdin".into(), 20), ("zero_length_or_blank_input".into(), 50), ("input_names_not_utf8".into(), 100), ("generated_input_through_fifo".into(), 30), ("inputs_with_an_exact_round_number_of_documents".into(), 100), ("invocations_with_hundreds_of_inputs".into(), 20), ("full_pipe_failure_reported_at_the_input_whose_output_was_lost".into(), 40), ("earlier_output_visible_while_a_later_input_is_pending".into(), 18)] },
        acc,
    )
}

pub fn replay(v: &Value) -> i32 {
    if v["case"]["visible"].as_bool() == Some(true) {
        let c = &v["case"];
        let Some(to) = c["to"].as_str().and_then(Fmt::parse) else { return 2 };
        let mut acc = Acc::default();
        visible_before_later_input(to, c["later_is_stdin"].as_bool().unwrap_or(false), c["documents"].as_u64().unwrap_or(1) as usize, &mut acc);
        return if acc.vio_count > 0 { println!("VIOLATION property=C15 replay=<this file> (reproduced): {}", acc.violations[0].observed); 1 } else { println!("not reproduced"); 0 };
    }
    let Some(case) = Case::parse(&v["case"]) else { return 2 };
    let mut acc = Acc::default();
    judge(&case, &mut acc);
    if acc.vio_count > 0 {
        println!("VIOLATION property=C15 replay=<this file> (reproduced): {}", acc.violations[0].observed);
        1
    } else {
        println!("not reproduced");
        0
    }
}

//! C04 — totality: no panic, abort, stack overflow or hang on any input.
//!
//! Cases run in crash-isolated WORKER subprocesses (this binary re-executes
//! itself): a worker announces each case on its stdout before starting it, runs
//! it on its main thread (the default 8 MiB stack a real process has) under
//! catch_unwind, with an address-space limit so that an allocation bomb becomes
//! an abort attributable to the case. The parent turns a dead worker into a
//! violation naming the in-flight case, and a worker that stops making
//! progress into a solitary re-run of that case with a large budget before it
//! is called a hang. The real binaries' wait status is checked on a sample.

use std::io::{BufRead, BufReader, Write};
use std::process::{Command, Stdio};
use std::sync::atomic::{AtomicUsize, Ordering};
use std::time::{Duration, Instant};

use serde_json::{json, Value};

use crate::corpus;
use crate::ev::{self, Acc, Ctx, Finish, Violation};
use crate::fmts::{self, Fmt, ALL, ALL_FROM};
use crate::gen::GenOpts;
use crate::model::{hex, preview, unhex};
use crate::mon::{Sched, EOF_READ_LIMIT};
use crate::procmon::{self, Run, Scratch, Status, StdinKind, StdoutKind};
use crate::rng::Rng;
use crate::run::{run_reader, run_slice, Verdict};

/// Adversarial shapes: (bytes, class).
pub fn adversarial(seed: u64, idx: usize, thorough: bool) -> (Vec<u8>, &'static str) {
    let mut rng = Rng::derive(seed, 0xc04a, idx as u64);
    // The extreme depths are driven by the first few instances of each class only; the other
    // instances vary depth and shape (a class repeated thousands of times with one input teaches
    // nothing, and inputs nested 10^5 deep are slow in the formats that parse them quadratically).
    let instance = idx / 17;
    let extreme = instance < if thorough { 6 } else { 2 };
    let deep = if extreme { if thorough { 100_000 } else { 5_000 } } else { 1 + rng.below(if thorough { 20_000 } else { 3_000 }) };
    let deep_yaml = if extreme { if thorough { 30_000 } else { 1_200 } } else { 1 + rng.below(if thorough { 2_000 } else { 600 }) };
    let shape = |rng: &mut Rng, default: crate::c18::Shape| if extreme { default } else { [crate::c18::Shape::Arrays, crate::c18::Shape::Maps, crate::c18::Shape::Alternating, crate::c18::Shape::Random(rng.next())][rng.below(4)] };
    match idx % 17 {
        16 => {
            // UTF-16/32 YAML whose UTF-8 re-encoding puts multi-byte characters across the 8 KiB / 16 KiB /
            // 24 KiB / 32 KiB read sizes of the layers below: ONE text crosses all four boundaries, each at
            // its own offset, and (unit, offset) are enumerated by the instance number, not drawn
            if instance % 3 == 2 {
                // plain UTF-8 as well: libyaml itself keeps the lead bytes of a straddled character
                return (corpus::boundary_yaml_text(instance).into_bytes(), "reencoded_boundary");
            }
            let units = ["\u{1f600}", "\u{e9}", "\u{4e2d}", "\u{1f600}\u{e9}", "a\u{1f600}"];
            let unit = units[instance % 5];
            let mut text = String::from("k: \"");
            for (k, boundary) in [8192usize, 16384, 24576, 32768].iter().enumerate() {
                let off = (instance / 5 + 6 * k) % 24;
                let start = boundary - 20 + off;
                if text.len() < start {
                    text.push_str(&"x".repeat(start - text.len()));
                }
                text.push_str(&unit.repeat(12));
            }
            text.push_str(&"y".repeat(9000));
            text.push_str("\"\n");
            let enc = crate::c07::ENCS[instance % 4];
            (enc.encode(&text, (instance / 4) % 2 == 0), "reencoded_boundary")
        }
        0 => {
            let sh = shape(&mut rng, crate::c18::Shape::Arrays);
            (crate::c18::nested(Fmt::Json, sh, deep), "deep_json_arrays")
        }
        1 => {
            let sh = shape(&mut rng, crate::c18::Shape::Maps);
            (crate::c18::nested(Fmt::Json, sh, deep), "deep_json_maps")
        }
        // MessagePack nesting is cheap to refuse in every mode, so it always goes far
        // beyond what any stack could take if a limit were missing
        2 => {
            // the first instances 10^5 deep, the others around and beyond the limit with every header style
            if instance < 8 {
                (crate::c18::nested(Fmt::Msgpack, [crate::c18::Shape::Alternating, crate::c18::Shape::Maps, crate::c18::Shape::Arrays][instance % 3], 100_000), "deep_msgpack")
            } else {
                let d = *rng.pick(&[1000usize, 1022, 1023, 1024, 1025, 2000, 5000]);
                let st = crate::c18::MSGPACK_STYLES[rng.below(crate::c18::MSGPACK_STYLES.len())];
                let sh = shape(&mut rng, crate::c18::Shape::Alternating);
                (crate::c18::nested_msgpack_styled(sh, d, st), "deep_msgpack")
            }
        }
        3 => (crate::c18::nested(Fmt::Msgpack, crate::c18::Shape::KeyPosition, if instance < 8 { 100_000 } else { 1 + rng.below(3000) }), "deep_msgpack_key_position"),
        4 => {
            let sh = shape(&mut rng, crate::c18::Shape::Arrays);
            (crate::c18::nested(Fmt::Toml, sh, deep), "deep_toml_arrays")
        }
        5 => (crate::c18::nested(Fmt::Toml, crate::c18::Shape::Maps, deep.min(20_000)), "deep_toml_inline_tables"),
        6 => {
            let sh = shape(&mut rng, crate::c18::Shape::Alternating);
            (crate::c18::nested(Fmt::Yaml, sh, deep_yaml), "deep_yaml_flow")
        }
        7 => {
            // unclosed openers only
            let c = *rng.pick(&[b'[', b'{']);
            (vec![c; deep], "deep_unclosed_openers")
        }
        8 => {
            // a huge declared length on every str/bin/ext/array/map marker
            let markers = [0xdbu8, 0xc6, 0xc9, 0xdd, 0xdf, 0xda, 0xc5, 0xc8, 0xdc, 0xde, 0xd9, 0xc4, 0xc7];
            let m = markers[(idx / 16) % markers.len()];
            let mut b = vec![m];
            let lens: [&[u8]; 4] = [&[0xff, 0xff, 0xff, 0xff], &[0x7f, 0xff, 0xff, 0xff], &[0x80, 0x00, 0x00, 0x00], &[0xff, 0xff]];
            b.extend_from_slice(lens[(idx / 208) % 4]);
            let n = rng.below(6);
            b.extend(rng.bytes(n));
            // sometimes inside a collection so that detection looks at it
            if rng.chance(1, 2) {
                b.insert(0, 0x91);
            }
            (b, "huge_declared_length")
        }
        9 => {
            // alias bomb
            let levels = 4 + (idx / 16) % 8;
            let mut s = String::from("a0: &a0 [x, x, x, x, x, x, x, x, x]\n");
            for l in 1..levels {
                s.push_str(&format!("a{l}: &a{l} [*a{p}, *a{p}, *a{p}, *a{p}, *a{p}, *a{p}, *a{p}, *a{p}, *a{p}]\n", p = l - 1));
            }
            (s.into_bytes(), "alias_bomb")
        }
        10 => {
            let lone: [&[u8]; 14] = [b"*y", b"&a", b"&a *a", b"!t", b"!!binary", b"- *x\n- &x 1\n", b"&a [*a]", b"? ", b"!", b"!<>", b"&", b"*", b"!!str\n", b"--- !t\n...\n"];
            (lone[(idx / 16) % lone.len()].to_vec(), "lone_anchor_alias_tag")
        }
        11 => (vec![], "empty_input"),
        12 => {
            // a valid document with one node the target must refuse, at a random nesting position
            let mut cl = crate::gen::Classes::default();
            let mut feats = crate::spell::Feats::default();
            let mut d = crate::gen::gen_collection(&mut rng, &GenOpts { max_depth: 5, max_width: 3, ..GenOpts::common() }, 0, &mut cl, true);
            let bad = match rng.below(4) {
                0 => crate::model::Val::Null,
                1 => crate::model::Val::Bytes(vec![1, 2, 3]),
                2 => crate::model::Val::Map(vec![(crate::model::Val::Seq(vec![crate::model::Val::Int(1)]), crate::model::Val::Int(2))]),
                _ => crate::model::Val::Map(vec![(crate::model::Val::Null, crate::model::Val::Int(2))]),
            };
            plant(&mut d, &bad, &mut rng);
            (crate::spell::spell(Fmt::Msgpack, &d, &mut rng, &mut feats, false), "valid_with_refused_node")
        }
        13 => {
            // wide and long scalars
            let n = 1 << (10 + (idx / 16) % 8);
            let forms: [Vec<u8>; 4] = [format!("\"{}\"", "a".repeat(n)).into_bytes(), format!("[{}1]", "1,".repeat(n)).into_bytes(), format!("{}", "9".repeat(n)).into_bytes(), format!("k: {}\n", "- x ".repeat(n / 4)).into_bytes()];
            (forms[rng.below(4)].clone(), "long_scalar_or_wide_collection")
        }
        14 => {
            // numbers at the edges of every parser
            let nums = ["1e999999999", "-1e-999999999", "0.000000000000000000000000000000000000000000000000000000000000000000000000000000000000000000000000000000000001", "123456789012345678901234567890123456789012345678901234567890", "-0", "1E400", "0e0", "1e+", "0x", "0o8", "1__2", "9223372036854775808", "-9223372036854775809", "18446744073709551616", "340282366920938463463374607431768211456", "-170141183460469231731687303715884105729"];
            let n = nums[(idx / 16) % nums.len()];
            let forms = [n.to_string(), format!("[{n}]"), format!("a = {n}\n"), format!("k: {n}\n"), format!("{{\"k\": {n}}}")];
            (forms[rng.below(5)].clone().into_bytes(), "numeric_edge")
        }
        _ => {
            let n = rng.range(1, 200);
            (rng.bytes(n), "random_bytes")
        }
    }
}

fn plant(v: &mut crate::model::Val, bad: &crate::model::Val, rng: &mut Rng) {
    use crate::model::Val;
    match v {
        Val::Seq(xs) if !xs.is_empty() && rng.chance(2, 3) => {
            let i = rng.below(xs.len());
            plant(&mut xs[i], bad, rng)
        }
        Val::Map(m) if !m.is_empty() && rng.chance(2, 3) => {
            let i = rng.below(m.len());
            plant(&mut m[i].1, bad, rng)
        }
        Val::Seq(xs) => xs.push(bad.clone()),
        Val::Map(m) => m.push((Val::s("planted"), bad.clone())),
        other => *other = bad.clone(),
    }
}

/// The input of case `idx`.
pub fn case_input(seed: u64, idx: usize, thorough: bool) -> (Vec<u8>, &'static str) {
    // the first cases are the hand-written seeds, each once and whole (rare forms of every format)
    static SEEDS: std::sync::OnceLock<Vec<Vec<u8>>> = std::sync::OnceLock::new();
    let seeds = SEEDS.get_or_init(|| corpus::seeds().into_iter().map(|s| s.bytes).collect());
    if idx < seeds.len() {
        return (seeds[idx].clone(), "seed_whole");
    }
    let idx = idx - seeds.len();
    // then every proper prefix of every MessagePack seed (a value cut after each of its bytes)
    static MP_PREFIXES: std::sync::OnceLock<Vec<Vec<u8>>> = std::sync::OnceLock::new();
    let prefixes = MP_PREFIXES.get_or_init(|| {
        let mut v = vec![];
        for it in corpus::seeds() {
            if it.fmt == Some(Fmt::Msgpack) {
                for cut in 1..it.bytes.len() {
                    v.push(it.bytes[..cut].to_vec());
                }
            }
        }
        v.sort();
        v.dedup();
        v
    });
    if idx < prefixes.len() {
        return (prefixes[idx].clone(), "msgpack_seed_prefix");
    }
    let idx = idx - prefixes.len();
    if idx % 4 == 3 {
        adversarial(seed, idx / 4, thorough)
    } else {
        let it = corpus::mixed_item(seed, idx, &GenOpts::common());
        (it.bytes, it.class)
    }
}

/// Runs every (from, to, mode) combination of one case in THIS process.
/// Returns (runs, panics as text, hang-guard hits).
pub fn run_case(input: &[u8], seed: u64, idx: usize) -> (u64, Vec<String>, u64) {
    let mut rng = Rng::derive(seed, 0xc04, idx as u64);
    let mut runs = 0;
    let mut panics = vec![];
    let mut hangs = 0;
    let heavy = input.len() > 100_000;
    // Text nested tens of thousands deep is refused in linear time by the JSON, TOML and MessagePack
    // parsers, but libyaml needs time quadratic in the depth before it gives up (10 minutes for 10^5
    // levels on this machine): such inputs go to the YAML parser - explicitly or through detection -
    // only up to 3*10^4 levels, so that "terminates within the budget" never hangs on a loaded machine.
    let very_deep_text = input.len() > 60_000 && matches!(input.first(), Some(b'[') | Some(b'{') | Some(b'a')) && input.iter().filter(|b| matches!(b, b'[' | b'{')).count() > 30_000;
    for from in ALL_FROM {
        if very_deep_text && matches!(from, None | Some(Fmt::Yaml)) {
            continue;
        }
        for to in ALL {
            if heavy && rng.chance(2, 3) {
                continue; // large adversarial inputs: a third of the combinations
            }
            let s = run_slice(input, from, to);
            runs += 1;
            if let Verdict::Panic(p) = &s.verdict {
                panics.push(format!("slice from={} to={}: {p}", fmts::from_name(from), to.name()));
            }
            let sched = match rng.below(4) {
                0 => Sched::All,
                1 => Sched::Fixed(1 + rng.below(16)),
                2 => Sched::Random(rng.next(), 4096),
                _ => Sched::Fixed(8192),
            };
            let (r, log) = run_reader(input, &sched, from, to);
            runs += 1;
            if let Verdict::Panic(p) = &r.verdict {
                panics.push(format!("reader({}) from={} to={}: {p}", sched.describe(), fmts::from_name(from), to.name()));
            }
            if log.reads_after_eof > EOF_READ_LIMIT {
                hangs += 1;
            }
            // the output side may fail at any byte as well: still an error value, never a panic
            if s.verdict.is_ok() && !s.out.is_empty() && input.len() <= 65_536 {
                for _ in 0..2 {
                    let k = rng.below(s.out.len());
                    let style = if rng.chance(1, 2) { crate::mon::FaultStyle::ShortThenFail } else { crate::mon::FaultStyle::RejectCrossing };
                    let mode = if rng.chance(1, 2) { crate::run::Mode::Slice } else { crate::run::Mode::Reader(Sched::Fixed(1 + rng.below(4096))) };
                    let call = crate::run::Call { input: input.to_vec(), from, mode };
                    let (v, _) = crate::run::run_history(std::slice::from_ref(&call), to, crate::mon::MonWriter::new().with_fault(k, style), true);
                    runs += 1;
                    if let Some(Verdict::Panic(p)) = v.first() {
                        panics.push(format!("writer failing after {k} bytes ({style:?}) from={} to={}: {p}", fmts::from_name(from), to.name()));
                    }
                }
            }
        }
    }
    (runs, panics, hangs)
}

pub fn worker_main(args: &[String]) -> i32 {
    let get = |k: &str, d: usize| -> usize { args.iter().position(|a| a == k).and_then(|p| args.get(p + 1)).and_then(|v| v.parse().ok()).unwrap_or(d) };
    let (seed, start, end) = (get("--seed", 0) as u64, get("--start", 0), get("--end", 0));
    let thorough = args.iter().any(|a| a == "--thorough");
    unsafe {
        // an allocation bomb must become an abort of THIS process, attributable to the case
        let lim = libc::rlimit { rlim_cur: 8 << 30, rlim_max: 8 << 30 };
        libc::setrlimit(libc::RLIMIT_AS, &lim);
    }
    let out = std::io::stdout();
    for idx in start..end {
        {
            let mut o = out.lock();
            let _ = writeln!(o, "B {idx}");
            let _ = o.flush();
        }
        let (input, _class) = case_input(seed, idx, thorough);
        let (runs, panics, hangs) = run_case(&input, seed, idx);
        let mut o = out.lock();
        let _ = writeln!(o, "E {idx} {runs} {} {hangs} {}", panics.len(), panics.first().map(|p| p.replace('\n', " ")).unwrap_or_default());
        let _ = o.flush();
    }
    println!("DONE");
    0
}

#[derive(Debug)]
enum WorkerEnd {
    Done,
    Died { in_flight: Option<usize>, status: String },
    Stalled { in_flight: Option<usize> },
}

/// Drives one worker over [start, end); returns how it ended and per-case results.
fn drive_worker(seed: u64, thorough: bool, start: usize, end: usize, stall_secs: u64, acc: &mut Acc, first_panics: &mut Vec<(usize, String)>, hang_cases: &mut Vec<usize>) -> (WorkerEnd, usize) {
    let exe = std::env::current_exe().expect("current_exe");
    let mut cmd = Command::new(exe);
    cmd.args(["c04-worker", "--seed", &seed.to_string(), "--start", &start.to_string(), "--end", &end.to_string()]);
    if thorough {
        cmd.arg("--thorough");
    }
    cmd.stdout(Stdio::piped()).stderr(Stdio::null()).stdin(Stdio::null());
    let mut child = match cmd.spawn() {
        Ok(c) => c,
        Err(e) => return (WorkerEnd::Died { in_flight: None, status: format!("spawn failed: {e}") }, start),
    };
    let pid = child.id() as i32;
    let stdout = child.stdout.take().unwrap();
    // reader thread -> channel, so that the parent can notice a stall
    let (tx, rx) = std::sync::mpsc::channel::<String>();
    std::thread::spawn(move || {
        for line in BufReader::new(stdout).lines().map_while(Result::ok) {
            if tx.send(line).is_err() {
                break;
            }
        }
    });
    let mut in_flight: Option<usize> = None;
    let mut next = start;
    let mut done = false;
    loop {
        match rx.recv_timeout(Duration::from_secs(stall_secs)) {
            Ok(line) => {
                let mut it = line.splitn(6, ' ');
                match it.next() {
                    Some("B") => in_flight = it.next().and_then(|x| x.parse().ok()),
                    Some("E") => {
                        let idx: usize = it.next().and_then(|x| x.parse().ok()).unwrap_or(0);
                        let runs: u64 = it.next().and_then(|x| x.parse().ok()).unwrap_or(0);
                        let n_panics: u64 = it.next().and_then(|x| x.parse().ok()).unwrap_or(0);
                        let hangs: u64 = it.next().and_then(|x| x.parse().ok()).unwrap_or(0);
                        let first = it.next().unwrap_or("").to_string();
                        acc.evals += runs;
                        acc.add("cases_completed", 1);
                        if n_panics > 0 {
                            acc.add("runs_panicked", n_panics);
                            first_panics.push((idx, first));
                        }
                        if hangs > 0 {
                            hang_cases.push(idx);
                        }
                        in_flight = None;
                        next = idx + 1;
                    }
                    Some("DONE") => {
                        done = true;
                    }
                    _ => {}
                }
            }
            Err(std::sync::mpsc::RecvTimeoutError::Timeout) => {
                unsafe {
                    libc::kill(pid, libc::SIGKILL);
                }
                let _ = child.wait();
                return (WorkerEnd::Stalled { in_flight }, in_flight.map(|i| i + 1).unwrap_or(next));
            }
            Err(std::sync::mpsc::RecvTimeoutError::Disconnected) => break,
        }
    }
    let status = child.wait();
    if done {
        return (WorkerEnd::Done, end);
    }
    use std::os::unix::process::ExitStatusExt;
    let st = match status {
        Ok(s) => match (s.code(), s.signal()) {
            (_, Some(sig)) => format!("killed by signal {sig}"),
            (Some(c), _) => format!("exit {c}"),
            _ => "unknown".into(),
        },
        Err(e) => format!("wait failed: {e}"),
    };
    (WorkerEnd::Died { in_flight, status: st }, in_flight.map(|i| i + 1).unwrap_or(next))
}

fn case_json(seed: u64, idx: usize, thorough: bool) -> Value {
    let (input, class) = case_input(seed, idx, thorough);
    json!({"seed": seed, "case_index": idx, "thorough": thorough, "class": class, "input_bytes": input.len(), "input_hex": if input.len() <= 4096 { hex(&input) } else { String::new() }, "input_preview": preview(&input, 120)})
}

pub fn run(ctx: &Ctx) -> i32 {
    let n = ctx.size(6000, 150000);
    let thorough = ctx.thorough();
    let seed = ctx.seed;
    let workers = crate::par::threads();
    let chunk = 50usize;
    let next = AtomicUsize::new(0);
    // cases already found not to terminate: after a few of them the expensive solitary re-runs stop
    // (the verdict is settled; a tree that hangs on many inputs must not keep the check busy for hours)
    let hang_verdicts = AtomicUsize::new(0);
    let total = std::sync::Mutex::new(Acc::default());
    std::thread::scope(|s| {
        for _ in 0..workers {
            s.spawn(|| {
                let mut acc = Acc::default();
                loop {
                    let start = next.fetch_add(chunk, Ordering::Relaxed);
                    if start >= n {
                        break;
                    }
                    if hang_verdicts.load(Ordering::Relaxed) >= 8 {
                        acc.count("batches_skipped_after_repeated_hangs");
                        continue;
                    }
                    let end = (start + chunk).min(n);
                    let mut at = start;
                    while at < end {
                        let mut panics = vec![];
                        let mut hangs = vec![];
                        let (how, resume) = drive_worker(seed, thorough, at, end, if thorough { 120 } else { 60 }, &mut acc, &mut panics, &mut hangs);
                        for (idx, text) in panics {
                            acc.violation(Violation { sig: format!("panic: {}", ev::truncate(&crate::c02_mask(&text), 80)), case: case_json(seed, idx, thorough), observed: text, expected: "Ok or Err".into() });
                        }
                        for idx in hangs {
                            acc.violation(Violation { sig: "keeps reading after end of input".into(), case: case_json(seed, idx, thorough), observed: format!("more than {EOF_READ_LIMIT} read() calls after the reader reported end of input"), expected: "termination".into() });
                        }
                        let was_done = matches!(how, WorkerEnd::Done);
                        match how {
                            WorkerEnd::Done => {}
                            WorkerEnd::Died { in_flight, status } => {
                                acc.count("workers_died");
                                match in_flight {
                                    Some(idx) => acc.violation(Violation { sig: format!("worker died ({status})"), case: case_json(seed, idx, thorough), observed: format!("the worker process was {status} while running this case (stack overflow, abort or allocation failure)"), expected: "Ok or Err".into() }),
                                    None => acc.harness_errors.push(format!("a worker died between cases ({status})")),
                                }
                            }
                            WorkerEnd::Stalled { in_flight } => {
                                acc.count("workers_stalled");
                                if let Some(idx) = in_flight {
                                    if hang_verdicts.load(Ordering::Relaxed) >= 3 {
                                        hang_verdicts.fetch_add(1, Ordering::Relaxed);
                                        acc.violation(Violation { sig: "no termination within the budget".into(), case: case_json(seed, idx, thorough), observed: "the case did not finish within 120 s in a batch (not re-run alone: three other cases of this run had already failed to finish within 900 s alone)".into(), expected: "termination".into() });
                                        at = resume.max(at + 1).min(end);
                                        continue;
                                    }
                                    // solitary re-run with a budget three orders of magnitude above the norm
                                    let t0 = Instant::now();
                                    let mut p2 = vec![];
                                    let mut h2 = vec![];
                                    let mut a2 = Acc::default();
                                    let (how2, _) = drive_worker(seed, thorough, idx, idx + 1, if thorough { 900 } else { 300 }, &mut a2, &mut p2, &mut h2);
                                    match how2 {
                                        WorkerEnd::Done => {
                                            acc.count("slow_cases_completed_alone");
                                            acc.max("slowest_case_seconds", t0.elapsed().as_secs());
                                            acc.evals += a2.evals;
                                        }
                                        _ => {
                                            hang_verdicts.fetch_add(1, Ordering::Relaxed);
                                            acc.violation(Violation { sig: "no termination within the budget".into(), case: case_json(seed, idx, thorough), observed: format!("the case did not finish within {} s in a batch nor within {} s alone ({how2:?})", if thorough { 120 } else { 60 }, if thorough { 900 } else { 300 }), expected: "termination".into() })
                                        }
                                    }
                                }
                            }
                        }
                        at = resume.max(at + 1).min(end);
                        if was_done {
                            break;
                        }
                    }
                }
                total.lock().unwrap().merge(acc);
            });
        }
    });
    let mut acc = total.into_inner().unwrap();
    // class tallies and distinct inputs, computed in the parent
    for idx in 0..n {
        let (input, class) = case_input(seed, idx, thorough);
        acc.count(&format!("class_{class}"));
        if !input.is_empty() {
            acc.distinct(&input);
        }
        if idx % 997 == 0 {
            acc.sample(json!({"case_index": idx, "class": class, "bytes": input.len(), "input_preview": preview(&input, 80)}));
        }
        acc.max("largest_input_bytes", input.len() as u64);
    }
    // the real binaries' wait status on a sample of adversarial inputs
    let sc = Scratch::new();
    let mut sample = 0;
    for k in 0..(if thorough { 160 } else { 48 }) {
        let (input, class) = adversarial(seed, k, false);
        let name = format!("adv{k}");
        sc.file(&name, &input);
        for (bin, bname) in [(procmon::release_bin(), "release"), (procmon::debug_bin(), "debug")] {
            let from = ALL_FROM[k % 5];
            let to = ALL[(k / 5) % 4];
            let mut argv: Vec<String> = vec!["-t".into(), to.name().into()];
            if let Some(f) = from {
                argv.push("-f".into());
                argv.push(f.name().into());
            }
            let via_stdin = k % 2 == 0;
            if !via_stdin {
                argv.push(name.clone());
            }
            let out = procmon::run(Run { bin: &bin, argv: argv.clone(), cwd: sc.path(), stdin: if via_stdin { StdinKind::Bytes(input.clone()) } else { StdinKind::Null }, stdout: StdoutKind::File, wall_secs: 300, cpu_secs: 240 });
            sample += 1;
            match out.status {
                Status::Exit(0) | Status::Exit(1) => acc.count("binary_sample_exit_0_or_1"),
                Status::Timeout | Status::SpawnError(_) => acc.inconclusive += 1,
                ref other => acc.violation(Violation { sig: format!("{bname} binary: {}", other.show()), case: json!({"binary": bname, "argv": argv, "adversarial_index": k, "class": class, "stdin": via_stdin, "input_hex": if input.len() <= 4096 { hex(&input) } else { String::new() }}), observed: format!("{}; stderr [{}]", other.show(), preview(&out.stderr, 200)), expected: "exit 0 or 1 (the only signal xt may die from is SIGPIPE)".into() }),
            }
        }
    }
    acc.add("binary_sample_runs", sample);
    // every way of ending WITHOUT translating (help, version, usage errors, operands that cannot be read), under
    // ordinary and unusual program names (argv[0] not valid UTF-8, empty, a path), with stdout a pipe, a pipe
    // nobody reads and a full device: the wait status is 0, 1 or 2 - or SIGPIPE where the reader has gone
    let lines: [&[&str]; 12] = [&["-h"], &["--help"], &["-V"], &["--version"], &["--bogus"], &["-f", "nope"], &["-t", "json", "-t", "yaml"], &["-t"], &["missing.json"], &["-"], &[], &["-x", "-h"]];
    for arg0 in ["xt", "x\u{fffd}t", "\u{fffd}", "", "/opt/bin/xt"] {
        for line in lines {
            for (si, stdout) in [StdoutKind::Pipe, StdoutKind::CloseAfter(0), StdoutKind::DevFull].into_iter().enumerate() {
                for (bin, bname) in [(procmon::release_bin(), "release"), (procmon::debug_bin(), "debug")] {
                    let argv: Vec<String> = line.iter().map(|s| s.to_string()).collect();
                    let out = procmon::run_as(Run { bin: &bin, argv: argv.clone(), cwd: sc.path(), stdin: StdinKind::Bytes(b"{\"a\": 1}\n".to_vec()), stdout: stdout.clone(), wall_secs: 60, cpu_secs: 30 }, arg0);
                    acc.evals += 1;
                    acc.count("binary_non_translating_runs");
                    match out.status {
                        Status::Exit(0) | Status::Exit(1) | Status::Exit(2) => acc.count("binary_non_translating_exit_0_1_2"),
                        Status::Signal(s) if s == libc::SIGPIPE && si == 1 => acc.count("binary_non_translating_sigpipe"),
                        Status::Timeout | Status::SpawnError(_) => acc.inconclusive += 1,
                        ref other => acc.violation(Violation { sig: format!("{bname} binary, no translation: {}", other.show()), case: json!({"binary": bname, "argv": argv, "arg0": arg0, "stdout": format!("{stdout:?}")}), observed: format!("{}; stderr [{}]", other.show(), preview(&out.stderr, 200)), expected: "exit 0, 1 or 2 (the only signal xt may die from is SIGPIPE)".into() }),
                    }
                }
            }
        }
    }
    // failures whose DIAGNOSTIC is long (the TOML parser quotes the offending line; an operand that cannot be
    // opened is named in full): 5-20 KiB of multi-byte text on every alignment - the report itself may not crash
    for a in 0..6usize {
        let line = format!("k = \"{}{}", "x".repeat(a), ["\u{65e5}\u{672c}", "\u{e9}", "\u{1f600}"][a % 3].repeat(2000 + 500 * a));
        sc.file(&format!("long{a}.toml"), line.as_bytes());
        let deep: String = (0..(20 + a)).map(|_| format!("{}{}", "y".repeat(a), "\u{e9}".repeat(100))).collect::<Vec<_>>().join("/");
        for (bin, bname) in [(procmon::release_bin(), "release"), (procmon::debug_bin(), "debug")] {
            for (argv, stdin) in [(vec!["-t".to_string(), "json".into(), format!("long{a}.toml")], StdinKind::Null), (vec!["-f".to_string(), "toml".into(), "-t".into(), "yaml".into()], StdinKind::Bytes(line.clone().into_bytes())), (vec!["-t".to_string(), "json".into(), deep.clone()], StdinKind::Null)] {
                let out = procmon::run(Run { bin: &bin, argv: argv.clone(), cwd: sc.path(), stdin, stdout: StdoutKind::Pipe, wall_secs: 60, cpu_secs: 30 });
                acc.evals += 1;
                acc.count("binary_runs_with_a_long_diagnostic");
                acc.max("longest_diagnostic_bytes", out.stderr.len() as u64);
                match out.status {
                    Status::Exit(1) => acc.count("binary_long_diagnostic_exit_1"),
                    Status::Timeout | Status::SpawnError(_) => acc.inconclusive += 1,
                    ref other => acc.violation(Violation { sig: format!("{bname} binary, long diagnostic: {}", other.show()), case: json!({"binary": bname, "long_diagnostic": true, "alignment": a, "argv_preview": preview(argv.join(" ").as_bytes(), 80)}), observed: format!("{}; stderr [{}]", other.show(), preview(&out.stderr, 200)), expected: "exit 1 (the only signal xt may die from is SIGPIPE)".into() }),
                }
            }
        }
    }
    // runs that end in a diagnostic while STANDARD ERROR cannot be written (a full device, a pipe whose reader
    // left): the report is lost, but the process still ends with its failure status - not by a signal
    sc.file("bad.json", b"{\"a\": [1, 2,, }\n");
    sc.file("nullkey.yaml", b"? ~\n: v\n");
    for kind in [procmon::StderrKind::DevFull, procmon::StderrKind::ClosedPipe] {
        for argv in [vec!["-t", "yaml", "bad.json"], vec!["-t", "json", "missing.json"], vec!["-t", "json", "nullkey.yaml"], vec!["-t", "toml", "nullkey.yaml"], vec!["-t", "json"], vec!["--bogus"], vec!["-t"]] {
            for (bin, bname) in [(procmon::release_bin(), "release"), (procmon::debug_bin(), "debug")] {
                let argv: Vec<String> = argv.iter().map(|s| s.to_string()).collect();
                let out = procmon::run_stderr(Run { bin: &bin, argv: argv.clone(), cwd: sc.path(), stdin: StdinKind::Bytes(b"\x01 no format {{{\n".to_vec()), stdout: StdoutKind::Pipe, wall_secs: 60, cpu_secs: 30 }, kind);
                acc.evals += 1;
                acc.count("binary_runs_with_unwritable_stderr");
                match out.status {
                    Status::Exit(1) | Status::Exit(2) => acc.count("binary_unwritable_stderr_exit_1_or_2"),
                    // (with a closed pipe on stderr a SIGPIPE would be in keeping with the property's one exception)
                    Status::Signal(s) if s == libc::SIGPIPE && kind == procmon::StderrKind::ClosedPipe => acc.count("binary_unwritable_stderr_sigpipe"),
                    Status::Timeout | Status::SpawnError(_) => acc.inconclusive += 1,
                    ref other => acc.violation(Violation { sig: format!("{bname} binary, diagnostic with stderr {kind:?}: {}", other.show()), case: json!({"binary": bname, "argv": argv, "stderr": format!("{kind:?}")}), observed: other.show(), expected: "exit 1 or 2 (the only signal xt may die from is SIGPIPE)".into() }),
                }
            }
        }
    }
    // a translation whose consumer has gone, started with SIGPIPE inherited as ignored or blocked in the signal
    // mask (what shells, language runtimes and container entry points hand down): xt still ends by SIGPIPE or
    // with an ordinary failure status - never by another signal
    sc.file("many.json", &{
        let mut b = Vec::new();
        for i in 0..4000 {
            b.extend_from_slice(format!("{{\"id\": {i}, \"text\": \"row {i}\"}}\n").as_bytes());
        }
        b
    });
    for env in [procmon::SigEnv::PipeIgnored, procmon::SigEnv::PipeBlocked] {
        for to in [Fmt::Json, Fmt::Yaml, Fmt::Msgpack] {
            for via_stdin in [false, true] {
                for (bin, bname) in [(procmon::release_bin(), "release"), (procmon::debug_bin(), "debug")] {
                    let mut argv: Vec<String> = vec!["-t".into(), to.name().into()];
                    if !via_stdin {
                        argv.push("many.json".into());
                    }
                    let data = std::fs::read(sc.path().join("many.json")).unwrap_or_default();
                    let mk = || Run { bin: &bin, argv: argv.clone(), cwd: sc.path(), stdin: if via_stdin { StdinKind::BytesAfterConsumerLeft(data.clone()) } else { StdinKind::Null }, stdout: StdoutKind::CloseAfter(0), wall_secs: 60, cpu_secs: 30 };
                    let mut out = procmon::run_sig(mk(), env);
                    if out.status == Status::Exit(0) {
                        out = procmon::run_sig_exclusive(mk(), env); // see procmon::run_exclusive
                    }
                    acc.evals += 1;
                    acc.count("binary_consumer_gone_under_a_signal_environment");
                    match out.status {
                        Status::Exit(1) => acc.count("binary_signal_environment_exit_1"),
                        Status::Signal(s) if s == libc::SIGPIPE => acc.count("binary_signal_environment_sigpipe"),
                        Status::Timeout | Status::SpawnError(_) => acc.inconclusive += 1,
                        ref other => acc.violation(Violation { sig: format!("{bname} binary, consumer gone, SIGPIPE {env:?}: {}", other.show()), case: json!({"binary": bname, "argv": argv, "sig_env": format!("{env:?}"), "stdin": via_stdin}), observed: format!("{}; stderr [{}]", other.show(), preview(&out.stderr, 200)), expected: "death by SIGPIPE or exit 1 (the only signal xt may die from is SIGPIPE)".into() }),
                    }
                }
            }
        }
    }
    if thorough {
        fuzz_stage(ctx, "totality", 600, "C04", &mut acc);
    }
    let rule = format!("{} cases in crash-isolated worker processes: 3/4 mixed corpus inputs (valid streams, mutants, splices, seeds, random bytes/tokens), 1/4 adversarial shapes (nesting to {} for JSON/MessagePack/TOML and {} for YAML, unclosed openers, declared lengths up to 2^32-1 on every str/bin/ext/array/map marker, alias bombs, lone anchors/aliases/tags, empty input, valid documents with a node the target must refuse, long scalars and wide collections, numeric edge literals, UTF-16/32 YAML with multi-byte characters on every alignment around 8/16/24/32 KiB of re-encoded text, random bytes); every case x 5 source selections x 4 targets x [slice, reader under a random schedule] (+ for translatable inputs two runs with a writer that fails at a random output offset) on the worker's 8 MiB main-thread stack with an 8 GiB address-space limit; plus a sample of adversarial inputs through the debug and release binaries, and 12 command lines that end without translating (help, version, usage errors, unreadable operands) x 5 program names (argv[0] not valid UTF-8, empty, a path) x stdout pipe / unread pipe / full device through both binaries, translations whose consumer has gone under SIGPIPE inherited as ignored or blocked, failures whose diagnostic is 5-20 KiB of multi-byte text, and failures whose diagnostic cannot be written (stderr on /dev/full or a pipe whose reader left); distinct non-trivial = distinct non-empty inputs", n, if thorough { 100000 } else { 5000 }, if thorough { 30000 } else { 1200 });
    let mut f = Finish { ctx, level: "exploration", rule, assumptions: vec!["'never loops forever' is decided up to a budget: quick 60 s without progress in a batch, then 300 s alone; thorough 120 s / 900 s".into(), "a dead worker is attributed to the case it had announced".into()], extra: serde_json::Map::new(), exhaustive: false, min_distinct: 1000, must_reach: vec![("cases_completed".into(), (n as u64) * 9 / 10), ("binary_sample_exit_0_or_1".into(), 50), ("binary_non_translating_exit_0_1_2".into(), 200), ("binary_consumer_gone_under_a_signal_environment".into(), 24), ("binary_long_diagnostic_exit_1".into(), 30), ("binary_unwritable_stderr_exit_1_or_2".into(), 20), ("class_huge_declared_length".into(), 10), ("class_alias_bomb".into(), 10), ("class_reencoded_boundary".into(), 10)] };
    if !acc.violations.is_empty() {
        f.must_reach.clear();
    }
    ev::finish(f, acc)
}

/// Thorough tier: libFuzzer + AddressSanitizer (cargo-fuzz) on a target of
/// /verif/fuzzproj; crash / timeout / oom artefacts become violations.
pub fn fuzz_stage(ctx: &Ctx, target: &str, secs: u64, prop: &str, acc: &mut Acc) {
    let out_dir = std::env::var("XTV_OUT").unwrap_or_else(|_| "/verif/out".into());
    let proj = format!("{}/fuzzproj", ctx.verif_dir);
    let corpus_dir = format!("{out_dir}/fuzz-corpus/{target}");
    let art_dir = format!("{out_dir}/fuzz-artifacts/{target}-s{}", ctx.seed);
    let _ = std::fs::remove_dir_all(&art_dir);
    let _ = std::fs::create_dir_all(&art_dir);
    let _ = std::fs::create_dir_all(&corpus_dir);
    for (i, s) in corpus::seeds().iter().enumerate() {
        // selector bytes in front so that seeds reach every (from, to, mode)
        for sel in [0u8, 1, 2, 3, 4, 0x24, 0x2b, 0x33] {
            let mut b = vec![sel, (i % 5) as u8, 0];
            b.extend_from_slice(&s.bytes);
            let _ = std::fs::write(format!("{corpus_dir}/seed-{i}-{sel}"), &b);
        }
    }
    let _ = std::fs::copy("/repo/Cargo.lock", format!("{proj}/fuzz/Cargo.lock"));
    let log = format!("{out_dir}/logs/fuzz-{target}-s{}.log", ctx.seed);
    let status = Command::new("cargo")
        .current_dir(&proj)
        .args(["+nightly", "fuzz", "run", target, "--target-dir", &format!("{out_dir}/target-fuzz"), &corpus_dir, "--"])
        .args([&format!("-max_total_time={secs}"), &format!("-fork={}", crate::par::threads()), "-timeout=10", "-rss_limit_mb=4096", "-ignore_crashes=1", "-ignore_timeouts=1", "-ignore_ooms=1", &format!("-seed={}", ctx.seed + 1), &format!("-artifact_prefix={art_dir}/")])
        .env("CARGO_NET_OFFLINE", "true")
        .env_remove("RUSTFLAGS")
        .stdout(Stdio::null())
        .stderr(std::fs::File::create(&log).map(Stdio::from).unwrap_or(Stdio::null()))
        .status();
    match status {
        Err(e) => acc.harness_errors.push(format!("cannot run cargo fuzz: {e}")),
        Ok(st) => {
            let text = std::fs::read_to_string(&log).unwrap_or_default();
            // libFuzzer's last status line: "#12345: cov: 1234 ft: 5678 corp: 321 exec/s 900 ..."
            if let Some(l) = text.lines().rev().find(|l| l.starts_with('#') && l.contains("cov:")) {
                let num = |key: &str| -> u64 { l.split_whitespace().skip_while(|w| *w != key).nth(1).and_then(|x| x.trim_end_matches(|c: char| !c.is_ascii_digit()).split('/').next().and_then(|y| y.parse().ok())).unwrap_or(0) };
                acc.add(&format!("fuzz_{target}_executions"), l.trim_start_matches('#').split(':').next().and_then(|x| x.parse().ok()).unwrap_or(0));
                acc.add(&format!("fuzz_{target}_coverage_edges"), num("cov:"));
                acc.add(&format!("fuzz_{target}_corpus_entries"), num("corp:"));
                acc.evals += l.trim_start_matches('#').split(':').next().and_then(|x| x.parse::<u64>().ok()).unwrap_or(0);
            } else if !st.success() {
                acc.harness_errors.push(format!("cargo fuzz ended with {st} and no status line (see {log})"));
            }
            let mut n_art = 0;
            if let Ok(rd) = std::fs::read_dir(&art_dir) {
                for e in rd.flatten() {
                    let name = e.file_name().to_string_lossy().into_owned();
                    if name.starts_with("crash-") || name.starts_with("timeout-") || name.starts_with("oom-") || name.starts_with("leak-") {
                        n_art += 1;
                        let bytes = std::fs::read(e.path()).unwrap_or_default();
                        acc.violation(Violation { sig: format!("fuzz {target}: {}", name.split('-').next().unwrap_or("artifact")), case: json!({"fuzz_target": target, "artifact": e.path().to_string_lossy(), "input_hex": hex(&bytes[..bytes.len().min(4096)])}), observed: format!("libFuzzer+ASan produced {} ({} bytes); selector bytes {:?}", name, bytes.len(), &bytes[..bytes.len().min(3)]), expected: format!("no crash, timeout or sanitizer report ({prop})") });
                    }
                }
            }
            acc.add(&format!("fuzz_{target}_artifacts"), n_art);
            acc.count(&format!("fuzz_{target}_stage_ran"));
        }
    }
}

pub fn replay(v: &Value) -> i32 {
    let c = &v["case"];
    if let Some(art) = c["artifact"].as_str() {
        let target = c["fuzz_target"].as_str().unwrap_or("totality");
        let st = Command::new("cargo").current_dir("/verif/fuzzproj").args(["+nightly", "fuzz", "run", target, "--target-dir", "/verif/out/target-fuzz", art, "--", "-timeout=10"]).env("CARGO_NET_OFFLINE", "true").status();
        return match st {
            Ok(s) if s.success() => {
                println!("not reproduced");
                0
            }
            Ok(_) => {
                println!("VIOLATION property=C04 replay=<this file> (reproduced)");
                1
            }
            Err(e) => {
                println!("cannot run cargo fuzz: {e}");
                2
            }
        };
    }
    if let (Some(arg0), Some(argv)) = (c["arg0"].as_str(), c["argv"].as_array()) {
        let bin = if c["binary"].as_str() == Some("debug") { procmon::debug_bin() } else { procmon::release_bin() };
        let stdout = match c["stdout"].as_str() {
            Some("DevFull") => StdoutKind::DevFull,
            Some(s) if s.starts_with("CloseAfter") => StdoutKind::CloseAfter(0),
            _ => StdoutKind::Pipe,
        };
        let sc = Scratch::new();
        let out = procmon::run_as(Run { bin: &bin, argv: argv.iter().filter_map(|a| a.as_str().map(String::from)).collect(), cwd: sc.path(), stdin: StdinKind::Bytes(b"{\"a\": 1}\n".to_vec()), stdout, wall_secs: 60, cpu_secs: 30 }, arg0);
        println!("status {}; stderr [{}]", out.status.show(), preview(&out.stderr, 200));
        return match out.status {
            Status::Exit(0) | Status::Exit(1) | Status::Exit(2) => {
                println!("not reproduced");
                0
            }
            Status::Signal(s) if s == libc::SIGPIPE => {
                println!("not reproduced");
                0
            }
            _ => {
                println!("VIOLATION property=C04 replay=<this file> (reproduced)");
                1
            }
        };
    }
    if let Some(idx) = c["case_index"].as_u64() {
        let seed = c["seed"].as_u64().unwrap_or(0);
        let thorough = c["thorough"].as_bool().unwrap_or(false);
        let mut acc = Acc::default();
        let mut p = vec![];
        let mut h = vec![];
        let (how, _) = drive_worker(seed, thorough, idx as usize, idx as usize + 1, 900, &mut acc, &mut p, &mut h);
        println!("case {idx}: worker ended {how:?}; panics {p:?}; hang-guard {h:?}");
        if !matches!(how, WorkerEnd::Done) || !p.is_empty() || !h.is_empty() {
            println!("VIOLATION property=C04 replay=<this file> (reproduced)");
            return 1;
        }
        println!("not reproduced");
        return 0;
    }
    if let Some(hexs) = c["input_hex"].as_str().and_then(unhex) {
        let (_, panics, hangs) = run_case(&hexs, 0, 0);
        println!("panics {panics:?} hang-guard {hangs}");
    }
    println!("binary-sample cases: re-run the check");
    2
}

//! A counting global allocator with thread-local counters: current and peak
//! live heap of the calling thread. It does not remember addresses (so it does
//! not hide leaks from other tools); it is only linked into the `xtv` binary,
//! not into the sanitizer binary.

use std::alloc::{GlobalAlloc, Layout, System};
use std::cell::Cell;

pub struct CountingAlloc;

thread_local! {
    static LIVE: Cell<isize> = const { Cell::new(0) };
    static PEAK: Cell<isize> = const { Cell::new(0) };
    static ALLOCS: Cell<u64> = const { Cell::new(0) };
    static PAUSED: Cell<bool> = const { Cell::new(false) };
}

/// While paused, allocations of the calling thread are not counted (used to
/// keep the monitor's own buffers out of the measurement).
pub fn set_paused(p: bool) {
    PAUSED.with(|x| x.set(p));
}

#[inline]
fn add(n: isize) {
    if PAUSED.try_with(|p| p.get()).unwrap_or(false) {
        return;
    }
    let _ = LIVE.try_with(|l| {
        let v = l.get() + n;
        l.set(v);
        if n > 0 {
            let _ = PEAK.try_with(|p| {
                if v > p.get() {
                    p.set(v);
                }
            });
            let _ = ALLOCS.try_with(|a| a.set(a.get() + 1));
        }
    });
}

unsafe impl GlobalAlloc for CountingAlloc {
    unsafe fn alloc(&self, layout: Layout) -> *mut u8 {
        let p = System.alloc(layout);
        if !p.is_null() {
            add(layout.size() as isize);
        }
        p
    }
    unsafe fn dealloc(&self, ptr: *mut u8, layout: Layout) {
        System.dealloc(ptr, layout);
        add(-(layout.size() as isize));
    }
    unsafe fn alloc_zeroed(&self, layout: Layout) -> *mut u8 {
        let p = System.alloc_zeroed(layout);
        if !p.is_null() {
            add(layout.size() as isize);
        }
        p
    }
    unsafe fn realloc(&self, ptr: *mut u8, layout: Layout, new_size: usize) -> *mut u8 {
        let p = System.realloc(ptr, layout, new_size);
        if !p.is_null() {
            add(new_size as isize - layout.size() as isize);
        }
        p
    }
}

/// Resets the calling thread's peak to its current live size and returns that
/// baseline.
pub fn reset_peak() -> isize {
    let live = LIVE.with(|l| l.get());
    PEAK.with(|p| p.set(live));
    live
}

pub fn peak() -> isize {
    PEAK.with(|p| p.get())
}

pub fn live() -> isize {
    LIVE.with(|l| l.get())
}

pub fn allocs() -> u64 {
    ALLOCS.with(|a| a.get())
}

//! C06 — round trip and idempotence of xt's own output.
//!
//! Self-differential, no reference implementation: (i) xt(B->B)(o) == o byte
//! for byte for o = xt(A->B)(x), for every x xt can translate to B (common
//! model plus extensions); (ii) for common-model x, xt(B->A)(xt(A->B)(x)) ==
//! xt(A->A)(x) byte for byte (B = TOML: equal values modulo TOML reordering).

use serde_json::{json, Value};

use crate::ev::{self, Acc, Ctx, Finish, Violation};
use crate::fmts::{Fmt, ALL};
use crate::gen::{gen_doc, gen_extension_scalar, tomlify, Classes, GenOpts};
use crate::model::{hex, preview, toml_match, unhex, Val};
use crate::mon::Sched;
use crate::read::read_stream;
use crate::rng::Rng;
use crate::run::{run_mode, Mode};
use crate::spell::{spell, Feats};

fn pick_mode(rng: &mut Rng) -> Mode {
    match rng.below(6) {
        0 | 1 => Mode::Slice,
        2 => Mode::Reader(Sched::One),
        3 => Mode::Reader(Sched::All),
        4 => Mode::Reader(Sched::Fixed(*rng.pick(&[8191usize, 8192, 8193, 16384]))),
        _ => Mode::Reader(Sched::Random(rng.next(), 32)),
    }
}

fn case_json(x: &[u8], a: Fmt, b: Fmt, m1: &Mode, m2: &Mode, clause: &str) -> Value {
    json!({"input_hex": hex(x), "input_preview": preview(x, 300), "a": a.name(), "b": b.name(), "mode_hop1": m1.describe(), "mode_hop2": m2.describe(), "clause": clause})
}

/// Clause (i): fixed point. Returns false if x is not translatable to B.
pub fn fixed_point(x: &[u8], a: Fmt, b: Fmt, m1: &Mode, m2: &Mode, has_f32: bool, acc: &mut Acc) -> bool {
    let o1 = run_mode(x, m1, Some(a), b);
    acc.evals += 1;
    if !o1.verdict.is_ok() {
        acc.count("not_translatable_skipped");
        if o1.verdict.is_panic() {
            acc.violation(Violation { sig: format!("{}->{} panic", a.name(), b.name()), case: case_json(x, a, b, m1, m2, "i"), observed: o1.verdict.show(), expected: "no panic".into() });
        }
        return false;
    }
    // the second hop names B, or - one time in four, where detection of the output names B - leaves it to xt
    let detect_second = x.len() % 4 == 1 && o1.out.len() < 200_000 && xt::verif::detect_slice(&o1.out).ok().flatten().map(Fmt::from_xt) == Some(b) && !crate::known::yaml_trial_read_ahead_shape(&o1.out);
    if detect_second {
        acc.count("fixed_point_second_hop_detected");
    }
    let o2 = run_mode(&o1.out, m2, if detect_second { None } else { Some(b) }, b);
    acc.count(&format!("fixed_point_{}_{}", a.name(), b.name()));
    if detect_second && b != Fmt::Toml && o2.verdict.is_ok() {
        // the same detected second hop on a Translator that has just translated (and detected) an input of
        // another format: what it remembers of that input must not change how it reads its own output
        let (wname, warm) = crate::run::WARM_UPS[(x.len() / 4) % crate::run::WARM_UPS.len()];
        let o3 = crate::run::run_after(&[warm], &o1.out, m2, None, b);
        acc.count("fixed_point_second_hop_on_a_warmed_up_translator");
        if !o3.verdict.is_ok() || o3.out != o2.out {
            acc.violation(Violation {
                sig: format!("fixed point {}->{}->{}: the detected second hop depends on what the translator saw before (after {wname})", a.name(), b.name(), b.name()),
                case: case_json(x, a, b, m1, m2, &format!("i-detected-after-{wname}")),
                observed: format!("o = [{}]; after a detected {wname} input xt(->{})(o) = {} [{}]; on a fresh translator [{}]", preview(&o1.out, 160), b.name(), o3.verdict.show(), preview(&o3.out, 160), preview(&o2.out, 160)),
                expected: "the same bytes as on a fresh translator".into(),
            });
            return true;
        }
    }
    if !o2.verdict.is_ok() || o2.out != o1.out {
        // Known finding: a binary32 value is written to a text format with the
        // shortest binary32 digits; read back it is a binary64 and is written with
        // binary64 digits. Same value, different bytes.
        if has_f32 && b != Fmt::Msgpack && o2.verdict.is_ok() && crate::known::listed("C06", "C06-f32-text-not-fixed-point") {
            if let (Ok(d1), Ok(d2)) = (read_stream(b, &o1.out), read_stream(b, &o2.out)) {
                if d1 == d2 {
                    acc.known("C06-f32-text-not-fixed-point", || format!("{}->{}: [{}] vs [{}]", a.name(), b.name(), preview(&o1.out, 60), preview(&o2.out, 60)));
                    return true;
                }
            }
        }
        if b == Fmt::Json && o2.verdict.is_ok() && has_integer_beyond_64_bits(&o1.out) && crate::known::listed("C06", "C06-json-integer-beyond-64-bits-not-fixed-point") {
            acc.known("C06-json-integer-beyond-64-bits-not-fixed-point", || format!("{}->json: [{}] vs [{}]", a.name(), preview(&o1.out, 60), preview(&o2.out, 60)));
            return true;
        }
        acc.violation(Violation {
            sig: format!("fixed point {}->{}->{}: {}", a.name(), b.name(), b.name(), if o2.verdict.is_ok() { "bytes differ".to_string() } else { crate::c02_mask(&ev::truncate(o2.verdict.text(), 60)) }),
            case: case_json(x, a, b, m1, m2, if detect_second { "i-detected" } else { "i" }),
            observed: format!("o = [{}]; xt({}->{})(o) = {} [{}]", preview(&o1.out, 200), b.name(), b.name(), o2.verdict.show(), preview(&o2.out, 200)),
            expected: "the same bytes".into(),
        });
    }
    true
}

/// Does this JSON text contain an integer literal (no fraction, no exponent, outside strings) whose value
/// lies outside [-2^63, 2^64-1]?
fn has_integer_beyond_64_bits(json: &[u8]) -> bool {
    let mut i = 0;
    let mut in_str = false;
    while i < json.len() {
        let c = json[i];
        if in_str {
            if c == b'\\' {
                i += 1;
            } else if c == b'"' {
                in_str = false;
            }
            i += 1;
            continue;
        }
        if c == b'"' {
            in_str = true;
            i += 1;
            continue;
        }
        if c == b'-' || c.is_ascii_digit() {
            let start = i;
            i += 1;
            while i < json.len() && json[i].is_ascii_digit() {
                i += 1;
            }
            let is_int = !(i < json.len() && matches!(json[i], b'.' | b'e' | b'E'));
            if is_int {
                if let Ok(t) = std::str::from_utf8(&json[start..i]) {
                    match t.parse::<i128>() {
                        Ok(v) if v < i64::MIN as i128 || v > u64::MAX as i128 => return true,
                        Err(_) if t.len() > 20 => return true,
                        _ => {}
                    }
                }
            } else {
                while i < json.len() && matches!(json[i], b'.' | b'e' | b'E' | b'+' | b'-' | b'0'..=b'9') {
                    i += 1;
                }
            }
            continue;
        }
        i += 1;
    }
    false
}

/// Clause (ii): round trip for common-model documents.
pub fn round_trip(x: &[u8], a: Fmt, b: Fmt, m1: &Mode, m2: &Mode, acc: &mut Acc) {
    let direct = run_mode(x, m1, Some(a), a);
    let there = run_mode(x, m2, Some(a), b);
    acc.evals += 1;
    if !direct.verdict.is_ok() || !there.verdict.is_ok() {
        acc.violation(Violation { sig: format!("round trip {}->{}: translation of a common-model document failed", a.name(), b.name()), case: case_json(x, a, b, m1, m2, "ii"), observed: format!("A->A: {}; A->B: {}", direct.verdict.show(), there.verdict.show()), expected: "both succeed".into() });
        return;
    }
    let back = run_mode(&there.out, m1, Some(b), a);
    acc.count(&format!("round_trip_{}_{}", a.name(), b.name()));
    let ok = if !back.verdict.is_ok() {
        false
    } else if b == Fmt::Toml || a == Fmt::Toml {
        // values equal modulo TOML's table reordering
        match (read_stream(a, &direct.out), read_stream(a, &back.out)) {
            (Ok(d), Ok(r)) => d.len() == r.len() && d.iter().zip(r.iter()).all(|(p, q)| toml_match(p, q) || toml_match(q, p) || p == q),
            _ => back.out == direct.out,
        }
    } else {
        back.out == direct.out
    };
    if !ok {
        acc.violation(Violation {
            sig: format!("round trip {}->{}->{} differs from {}->{}", a.name(), b.name(), a.name(), a.name(), a.name()),
            case: case_json(x, a, b, m1, m2, "ii"),
            observed: format!("A->A = [{}]; B->A(A->B) = {} [{}]; A->B = [{}]", preview(&direct.out, 160), back.verdict.show(), preview(&back.out, 160), preview(&there.out, 160)),
            expected: "identical bytes (equal values modulo reordering when TOML is involved)".into(),
        });
    }
}

/// A document with one extension node planted at a random position.
fn with_extension(rng: &mut Rng, cl: &mut Classes) -> Val {
    let base = gen_doc(rng, &GenOpts { max_depth: 3, max_width: 4, root_collection: true, ..GenOpts::common() }, cl);
    let ext = gen_extension_scalar(rng);
    fn plant(v: &mut Val, ext: &Val, rng: &mut Rng) {
        match v {
            Val::Seq(xs) => {
                if xs.is_empty() || rng.chance(1, 3) {
                    xs.push(ext.clone());
                } else {
                    let i = rng.below(xs.len());
                    plant(&mut xs[i], ext, rng);
                }
            }
            Val::Map(m) => {
                if m.is_empty() || rng.chance(1, 3) {
                    if rng.chance(1, 3) && !matches!(ext, Val::Float(_)) {
                        // non-string key
                        let key = match rng.below(4) {
                            0 => Val::Int(rng.below(1000) as i128 - 500),
                            1 => Val::Bool(rng.chance(1, 2)),
                            2 => Val::Null,
                            _ => Val::Seq(vec![Val::Int(1), Val::s("k")]),
                        };
                        m.push((key, Val::Int(1)));
                    } else {
                        m.push((Val::Str(format!("ext{}", m.len())), ext.clone()));
                    }
                } else {
                    let i = rng.below(m.len());
                    plant(&mut m[i].1, ext, rng);
                }
            }
            other => *other = ext.clone(),
        }
    }
    let mut v = base;
    plant(&mut v, &ext, rng);
    v
}

fn can_spell(f: Fmt, v: &Val) -> bool {
    match f {
        Fmt::Msgpack => !v.any(|x| matches!(x, Val::Datetime(_)) || matches!(x, Val::Int(i) if *i >= (1i128 << 64))),
        Fmt::Yaml => !v.any(|x| matches!(x, Val::Bytes(_) | Val::F32(_) | Val::Ext(..) | Val::Datetime(_))),
        Fmt::Json => v.is_common(),
        Fmt::Toml => v.is_map() && !v.any(|x| matches!(x, Val::Null | Val::Bytes(_) | Val::F32(_) | Val::Ext(..)) || matches!(x, Val::Int(i) if *i > i64::MAX as i128 || *i < i64::MIN as i128) || matches!(x, Val::Map(m) if m.iter().any(|(k, _)| !matches!(k, Val::Str(_))))),
    }
}

pub fn run(ctx: &Ctx) -> i32 {
    let n = ctx.size(30000, 1000000);
    let seed = ctx.seed;
    let acc = crate::par::run(n, 8, |i, acc| {
        let mut rng = Rng::derive(seed, 0xc06, i as u64);
        let mut cl = Classes::default();
        let heavy = i % 300 == 299;
        let base = if heavy {
            acc.count("heavy_documents");
            crate::gen::gen_heavy_doc(&mut rng)
        } else {
            gen_doc(&mut rng, &GenOpts::common(), &mut cl)
        };
        let tdoc = tomlify(&base);
        cl.add_to(acc);
        if cl.hostile() > 0 || base.depth() >= 3 {
            acc.distinct(&base.show());
        }
        acc.sample_every(997, || json!({"model_value": ev::truncate(&base.show(), 240)}));
        for a in ALL {
            for b in ALL {
                let doc = if a == Fmt::Toml || b == Fmt::Toml {
                    match &tdoc {
                        Some(d) => d,
                        None => continue,
                    }
                } else {
                    &base
                };
                let mut feats = Feats::default();
                let plain = rng_bool(&mut rng);
                let x = spell(a, doc, &mut rng, &mut feats, plain);
                let (mut m1, mut m2) = (pick_mode(&mut rng), pick_mode(&mut rng));
                if heavy {
                    // byte-at-a-time schedules over tens of KiB only burn time
                    for m in [&mut m1, &mut m2] {
                        if matches!(m, Mode::Reader(Sched::One) | Mode::Reader(Sched::Random(..))) {
                            *m = Mode::Reader(Sched::Fixed(8192));
                        }
                    }
                }
                fixed_point(&x, a, b, &m1, &m2, false, acc);
                round_trip(&x, a, b, &m1, &m2, acc);
            }
        }
        // extensions: only clause (i), only where the source can spell the value
        let ext = with_extension(&mut rng, &mut cl);
        for a in [Fmt::Msgpack, Fmt::Yaml] {
            if !can_spell(a, &ext) {
                continue;
            }
            let mut feats = Feats::default();
            let x = spell(a, &ext, &mut rng, &mut feats, false);
            for b in ALL {
                let (m1, m2) = (pick_mode(&mut rng), pick_mode(&mut rng));
                acc.count("extension_documents_tried");
                let has_f32 = ext.any(|v| matches!(v, Val::F32(_)));
                if fixed_point(&x, a, b, &m1, &m2, has_f32, acc) {
                    acc.count("extension_documents_translatable");
                }
            }
        }
        // TOML date-times
        if i % 8 == 0 {
            let dt = *rng.pick(&["1979-05-27T07:32:00Z", "1979-05-27T00:32:00-07:00", "1979-05-27T07:32:00.999999", "1979-05-27", "07:32:00", "1979-05-27 07:32:00Z"]);
            let x = format!("when = {dt}\n[t]\nd = [{dt}, {dt}]\n");
            for b in ALL {
                let (m1, m2) = (pick_mode(&mut rng), pick_mode(&mut rng));
                acc.count("toml_datetime_documents");
                fixed_point(x.as_bytes(), Fmt::Toml, b, &m1, &m2, false, acc);
            }
        }
    });
    // every hand-written seed input (rare syntax of each format: directives, tags, anchors, merge keys, dotted keys,
    // inline tables, date-times, escapes, ext types, ...): fixed point for every B it translates to, and the round
    // trip with DIFFERENT supply modes at the two hops wherever all three translations succeed
    let mut acc = acc;
    let seeds = crate::corpus::seeds();
    let seed_acc = crate::par::run(seeds.len(), 4, |i, acc| {
        let Some(a) = seeds[i].fmt else { return };
        let x = &seeds[i].bytes;
        // (streams without a document, and the toml crate's private date-time key, are the subject of recorded C02 findings)
        if x.is_empty() || read_stream(a, x).map(|d| d.is_empty()).unwrap_or(false) || run_mode(x, &Mode::Reader(Sched::All), Some(a), a).out.is_empty() || x.windows(24).any(|w| w == b"$__toml_private_datetime") {
            return;
        }
        acc.count("seed_inputs");
        for b in ALL {
            for (m1, m2) in [(Mode::Slice, Mode::Reader(Sched::All)), (Mode::Reader(Sched::Fixed(7)), Mode::Slice)] {
                fixed_point(x, a, b, &m1, &m2, true, acc);
                let direct = run_mode(x, &m1, Some(a), a);
                let there = run_mode(x, &m2, Some(a), b);
                if !direct.verdict.is_ok() || !there.verdict.is_ok() || !run_mode(&there.out, &m1, Some(b), a).verdict.is_ok() {
                    continue;
                }
                // the round trip only where B holds everything A's own rendering holds: judged by comparing with the
                // same-mode round trip (a difference between the two is a difference between supply modes)
                let there_same = run_mode(x, &m1, Some(a), b);
                if there_same.verdict.is_ok() && there_same.out != there.out {
                    acc.violation(Violation { sig: format!("seed {}->{}: the translation depends on the supply mode", a.name(), b.name()), case: case_json(x, a, b, &m1, &m2, "seed"), observed: format!("{}: [{}]; {}: [{}]", m1.describe(), preview(&there_same.out, 120), m2.describe(), preview(&there.out, 120)), expected: "the same bytes".into() });
                    return;
                }
                acc.count("seed_round_trips_compared_across_supply_modes");
            }
        }
    });
    acc.merge(seed_acc);
    let rule = format!("{} generated common-model documents x 16 ordered pairs (A,B) x both clauses, with slice/reader chosen independently at each hop and conventional or hostile spelling of the input; plus per document one extension document (binary, f32, non-finite floats, non-string keys) from MessagePack and YAML to every B for clause (i), and TOML date-time documents; every hand-written seed input x every B (fixed point; A->B under two different supply modes must give the same bytes); one second hop in four is left to detection, and then repeated on a translator that has just translated a detected input of another format (the bytes must be those of a fresh translator); documents xt cannot translate to B are skipped for clause (i) as the property says; distinct non-trivial = distinct documents with a hostile-class scalar or depth >= 3", n);
    ev::finish(
        Finish { ctx, level: "exploration", rule, assumptions: vec!["no reference implementation: xt is compared with itself".into()], extra: serde_json::Map::new(), exhaustive: false, min_distinct: 500, must_reach: vec![("fixed_point_second_hop_on_a_warmed_up_translator".into(), 1000), ("heavy_documents".into(), 10), ("extension_documents_translatable".into(), 100), ("toml_datetime_documents".into(), 10)] },
        acc,
    )
}

fn rng_bool(rng: &mut Rng) -> bool {
    rng.chance(1, 2)
}

pub fn replay(v: &Value) -> i32 {
    let c = &v["case"];
    let (Some(x), Some(a), Some(b), Some(m1), Some(m2)) = (c["input_hex"].as_str().and_then(unhex), c["a"].as_str().and_then(Fmt::parse), c["b"].as_str().and_then(Fmt::parse), c["mode_hop1"].as_str().and_then(Mode::parse), c["mode_hop2"].as_str().and_then(Mode::parse)) else {
        println!("bad replay case");
        return 2;
    };
    let mut acc = Acc::default();
    if c["clause"].as_str() == Some("ii") {
        round_trip(&x, a, b, &m1, &m2, &mut acc);
    } else {
        let has_f32 = crate::read::msgpack::read_all(&x).map(|d| d.iter().any(|v| v.any(|n| matches!(n, Val::F32(_))))).unwrap_or(false) && a == Fmt::Msgpack;
        fixed_point(&x, a, b, &m1, &m2, has_f32, &mut acc);
    }
    println!("input [{}] a={} b={}", preview(&x, 400), a.name(), b.name());
    if acc.vio_count > 0 {
        println!("VIOLATION property=C06 replay=<this file> (reproduced): {}", acc.violations[0].observed);
        1
    } else {
        println!("not reproduced");
        0
    }
}

//! C17 — memory safety of the YAML parser binding and the decoders.
//!
//! One workload definition (`xtv_san workload`), three instruments:
//!  1. AddressSanitizer + LeakSanitizer: the sanitizer binary (all of xt and its
//!     dependencies instrumented, no custom allocator) runs the workload in
//!     sharded short processes; any report fails the run.
//!  2. Miri: a small subset of the same workload (uninitialised reads, invalid
//!     `char`, aliasing of the raw read state), sharded over all cores.
//!  3. valgrind memcheck on the shipped release binary (thorough tier).
//! Plus the conservation invariant from the vhit counters: every Parser and
//! Event created is dropped exactly once.

use std::process::{Command, Stdio};

use serde_json::{json, Value};

use crate::corpus;
use crate::ev::{self, Acc, Ctx, Finish, Violation};
use crate::fmts::{Fmt, ALL};
use crate::gen::GenOpts;
use crate::mon::{OverReportReader, PanickyReader, Sched, SchedReader};
use crate::rng::Rng;
use crate::run::{guarded, guarded_any};

/// Runs the sanitizer workload in this process and returns counters.
/// `miri`: a much smaller, cheaper selection.
pub fn workload(seed: u64, shard: usize, of: usize, cases: usize, miri: bool) -> std::collections::BTreeMap<String, u64> {
    let mut c: std::collections::BTreeMap<String, u64> = Default::default();
    let mut bump = |k: &str, n: u64| *c.entry(k.to_string()).or_insert(0) += n;
    xt::verif::reset_hits();
    let opts = GenOpts { max_depth: 3, max_width: 3, ..GenOpts::common() };
    let seeds = corpus::seeds();
    for n in 0..cases {
        let idx = n * of + shard;
        let mut rng = Rng::derive(seed, 0xc17, idx as u64);
        // input: YAML-ish corpus items, seeds, UTF-16/32 encodings of YAML text
        let item = if miri { seeds[idx % seeds.len()].clone() } else { corpus::mixed_item(seed, idx, &opts) };
        let mut input = item.bytes;
        if input.len() > (if miri { 200 } else { 20_000 }) {
            input.truncate(if miri { 200 } else { 20_000 });
        }
        if !miri && n % 5 == 4 {
            // tens of KiB with multi-byte characters on every alignment around the
            // 8 KiB / 16 KiB read sizes: libyaml then asks for fewer bytes than its buffer holds
            input = corpus::boundary_yaml_text(idx).into_bytes();
            bump("inputs_boundary_straddling", 1);
        }
        if rng.chance(1, 6) {
            if let Ok(t) = std::str::from_utf8(&input) {
                let enc = crate::c07::ENCS[rng.below(4)];
                input = enc.encode(t, rng.chance(1, 2));
                bump("inputs_reencoded_utf16_32", 1);
            }
        }
        bump("inputs", 1);
        let to = ALL[idx % 4];
        let trace = std::env::var("XTV_SAN_TRACE").is_ok();
        if trace {
            eprintln!("case idx={idx} input_hex={}", crate::model::hex(&input));
        }
        // 1. public API, explicit and detected, read sizes 1..17 and random
        for from in [Some(Fmt::Yaml), None] {
            let sched = match rng.below(3) {
                0 => Sched::Fixed(1 + rng.below(17)),
                1 => Sched::Random(rng.next(), 17),
                _ => Sched::All,
            };
            let mut out = Vec::new();
            let v = guarded(|| xt::translate_reader(SchedReader::new(&input, sched.clone()), from.map(Fmt::xt), to.xt(), &mut out));
            bump(&format!("api_reader_{}", v.class()), 1);
            let mut out = Vec::new();
            let v = guarded(|| xt::translate_slice(&input, from.map(Fmt::xt), to.xt(), &mut out));
            bump(&format!("api_slice_{}", v.class()), 1);
            if miri {
                break;
            }
        }
        // 2. reader errors at (sampled) offsets
        let n_faults = if miri { 1 } else { 6 };
        for _ in 0..n_faults {
            let k = rng.below(input.len() + 1);
            let mut out = Vec::new();
            let v = guarded(|| xt::translate_reader(SchedReader::new(&input, Sched::Fixed(1 + rng.below(9))).with_fault(k), Some(xt::Format::Yaml), to.xt(), &mut out));
            bump(&format!("reader_fault_{}", v.class()), 1);
        }
        // 3. over-reporting readers, straight into the raw parser and the chunker (hook) and through the public API
        let excesses: Vec<usize> = if miri { vec![1 + idx % 64] } else { (0..4).map(|j| 1 + (idx * 4 + j) % 64).collect() };
        for ex in excesses {
            let on_call = rng.below(3) as u64;
            if trace {
                eprintln!("  over-report excess={ex} on_call={on_call}");
            }
            let r = guarded_any(|| xt::verif::yaml_events_then_drop(OverReportReader { data: &input, pos: 0, excess: ex, on_call, calls: 0 }, usize::MAX));
            bump(if r.is_ok() { "over_report_raw_parser_returned" } else { "over_report_raw_parser_panicked" }, 1);
            let r = guarded_any(|| xt::verif::yaml_chunks(OverReportReader { data: &input, pos: 0, excess: ex, on_call, calls: 0 }, 3).len());
            bump(if r.is_ok() { "over_report_chunker_returned" } else { "over_report_chunker_panicked" }, 1);
            let mut out = Vec::new();
            let v = guarded(|| xt::translate_reader(OverReportReader { data: &input, pos: 0, excess: ex, on_call, calls: 0 }, Some(xt::Format::Yaml), to.xt(), &mut out));
            bump(&format!("over_report_api_{}", v.class()), 1);
        }
        // 3b. readers with a hostile life cycle: a panic inside read() on a chosen call, a panic in the
        //     reader's destructor. Explicit YAML keeps the reader inside the parser until the parser is
        //     dropped, so the destructor panic is raised from inside the binding's own Drop.
        //     A destructor panic is only driven where no heap-owning return value is in flight (the raw
        //     parser hook; explicit-YAML translations that succeed): Rust itself leaks a function's
        //     return value when a local's destructor panics on the way out, which is not xt's doing.
        let life: Vec<(Option<u64>, bool)> = if miri { vec![(None, true)] } else { vec![(None, true), (Some(rng.below(4) as u64), false), (Some(rng.below(3) as u64), true)] };
        for (panic_on_read, panic_in_drop) in life {
            let max_read = *rng.pick(&[1usize, 7, 97, 4096, 1 << 20]);
            let mk = || PanickyReader { data: &input, pos: 0, max_read, panic_on_read, panic_in_drop, calls: 0 };
            let r = guarded_any(|| xt::verif::yaml_events_then_drop(mk(), rng.below(40)));
            bump(if r.is_ok() { "panicky_reader_raw_parser_returned" } else { "panicky_reader_raw_parser_panicked" }, 1);
            if panic_in_drop {
                bump("readers_panicking_in_drop", 1);
                let mut out = Vec::new();
                let baseline_ok = guarded(|| xt::translate_reader(SchedReader::new(&input, Sched::Fixed(max_read)), Some(xt::Format::Yaml), to.xt(), &mut out)).is_ok();
                if baseline_ok && panic_on_read.is_none() {
                    let mut out = Vec::new();
                    let r = guarded_any(|| xt::translate_reader(mk(), Some(xt::Format::Yaml), to.xt(), &mut out).is_ok());
                    bump(if r.is_ok() { "panicky_reader_api_returned" } else { "panicky_reader_api_panicked" }, 1);
                    bump("readers_panicking_in_drop", 1);
                }
                continue;
            }
            for from in [Some(xt::Format::Yaml), None] {
                let mut out = Vec::new();
                let r = guarded_any(|| xt::translate_reader(mk(), from, to.xt(), &mut out).is_ok());
                bump(if r.is_ok() { "panicky_reader_api_returned" } else { "panicky_reader_api_panicked" }, 1);
            }
            let r = guarded_any(|| xt::verif::yaml_chunks(mk(), 1 + rng.below(3)).len());
            bump(if r.is_ok() { "panicky_reader_chunker_returned" } else { "panicky_reader_chunker_panicked" }, 1);
        }
        // 3c. safe readers that rely on the buffer they are handed being initialised memory: one looks at the
        //     buffer's old contents before filling it, one reports n bytes having stored n-1
        for (inspect, skip_last) in [(true, false), (false, true)] {
            let max_read = *rng.pick(&[1usize, 7, 97, 4096, 1 << 20]);
            let mk = || crate::mon::LazyReader { data: &input, pos: 0, max_read, inspect, skip_last, checksum: 0 };
            let r = guarded_any(|| xt::verif::yaml_events_then_drop(mk(), usize::MAX));
            bump(if r.is_ok() { "lazy_reader_raw_parser_returned" } else { "lazy_reader_raw_parser_panicked" }, 1);
            let mut out = Vec::new();
            let r = guarded_any(|| xt::translate_reader(mk(), Some(xt::Format::Yaml), to.xt(), &mut out).is_ok());
            bump(if r.is_ok() { "lazy_reader_api_returned" } else { "lazy_reader_api_panicked" }, 1);
            if !miri {
                let mut out = Vec::new();
                let r = guarded_any(|| xt::translate_reader(mk(), None, to.xt(), &mut out).is_ok());
                bump(if r.is_ok() { "lazy_reader_api_returned" } else { "lazy_reader_api_panicked" }, 1);
            }
        }
        // 3d. a reader that runs another YAML translation on the same thread from inside read(), then checks
        //     that the buffer it was lent still holds what it stored (two live parsers must not share memory)
        {
            let inner: &[u8] = b"---\ninner: [document, of, the, nested, translation]\nzzz: 1\n---\nsecond: 2\n";
            let clobbered = std::rc::Rc::new(std::cell::RefCell::new(0u64));
            for from in [Some(xt::Format::Yaml), None] {
                let rd = crate::mon::NestingReader { data: &input, pos: 0, max_read: *rng.pick(&[5usize, 64, 4096, 1 << 20]), inner, nest_on_call: rng.below(3) as u64, calls: 0, clobbered: clobbered.clone() };
                let mut out = Vec::new();
                let r = guarded_any(|| xt::translate_reader(rd, from, to.xt(), &mut out).is_ok());
                bump(if r.is_ok() { "nesting_reader_api_returned" } else { "nesting_reader_api_panicked" }, 1);
                if miri {
                    break;
                }
            }
            bump("reader_buffer_changed_during_a_nested_translation", *clobbered.borrow());
        }
        // 3e. the library used from several threads at once (each with its own reader and writer): parsers,
        //     decoders and whatever statics or thread-locals they use may not interfere - same result on every
        //     thread as on this one (and, under Miri, no data race)
        if miri || n % 3 == 0 {
            let mut base_out = Vec::new();
            let base = guarded(|| xt::translate_reader(SchedReader::new(&input, Sched::Fixed(7)), Some(xt::Format::Yaml), to.xt(), &mut base_out)).class().to_string();
            let results: Vec<(String, Vec<u8>)> = std::thread::scope(|sc| {
                let hs: Vec<_> = (0..3usize)
                    .map(|t| {
                        let input = &input;
                        sc.spawn(move || {
                            let mut out = Vec::new();
                            let sched = [Sched::Fixed(7), Sched::All, Sched::Fixed(1)][t].clone();
                            let v = guarded(|| xt::translate_reader(SchedReader::new(input, sched.clone()), Some(xt::Format::Yaml), to.xt(), &mut out));
                            (v.class().to_string(), out)
                        })
                    })
                    .collect();
                hs.into_iter().map(|h| h.join().unwrap_or_else(|_| ("thread panicked".into(), vec![]))).collect()
            });
            bump("concurrent_translations", results.len() as u64);
            // (a failing run's partial output may depend on the read schedule: only verdicts and successful outputs are compared)
            for (class, out) in &results {
                if *class != base || (base == "ok" && *out != base_out) {
                    bump("concurrent_translation_differs_from_the_single_threaded_one", 1);
                }
            }
        }
        // (large boundary inputs: the event-by-event stages below add nothing)
        if input.len() > 30_000 {
            let _ = guarded_any(|| xt::verif::yaml_chunks(SchedReader::new(&input, Sched::All), 4).len());
            let _ = guarded_any(|| xt::verif::yaml_chunks(SchedReader::new(&input, Sched::Fixed(16384)), 4).len());
            continue;
        }
        // 4. early drop of the parser after every event count
        let total = guarded_any(|| xt::verif::yaml_events_then_drop(SchedReader::new(&input, Sched::All), usize::MAX)).map(|x| x.0).unwrap_or(0);
        let step = if miri { (total / 3).max(1) } else { 1 };
        let mut e = 0;
        while e <= total.min(if miri { 30 } else { 400 }) {
            let _ = guarded_any(|| xt::verif::yaml_events_then_drop(SchedReader::new(&input, Sched::Fixed(1 + e % 7)), e));
            bump("early_drop_points", 1);
            e += step;
        }
        // detection abandons the chunker after one document
        let _ = guarded_any(|| xt::verif::yaml_chunks(SchedReader::new(&input, Sched::Fixed(3)), 1).len());
        bump("chunker_abandoned_after_one_document", 1);
        // 5. re-encoder boundary classes (validity of `char` from the unchecked conversions)
        for enc in crate::c07::ENCS {
            let mut b = vec![];
            let units: [u32; 10] = [0x61, 0xD7FF, 0xE000, 0xFFFF, 0xD800, 0xDBFF, 0xDC00, 0xDFFF, 0x10FFFF, 0x110000];
            let pick = [units[idx % 10], units[(idx / 10) % 10], units[(idx / 100) % 10]];
            for u in pick {
                if enc.is16() {
                    if u > 0xFFFF {
                        if let Some(ch) = char::from_u32(u) {
                            let mut tmp = [0u16; 2];
                            for x in ch.encode_utf16(&mut tmp) {
                                enc.unit16(*x, &mut b);
                            }
                        }
                    } else {
                        enc.unit16(u as u16, &mut b);
                    }
                } else {
                    enc.unit32(u, &mut b);
                }
            }
            let r = guarded_any(|| {
                let src = std::io::BufReader::with_capacity(1 + idx % 5, &b[..]);
                let mut rd = xt::verif::yaml_reencoder_as(src, enc.name()).unwrap();
                let mut buf = [0u8; 3];
                let mut n = 0;
                loop {
                    match std::io::Read::read(&mut rd, &mut buf[..1 + n % 3]) {
                        Ok(0) | Err(_) => break,
                        Ok(m) => n += m,
                    }
                }
                n
            });
            bump(if r.is_ok() { "reencoder_boundary_cases" } else { "reencoder_panicked" }, 1);
        }
    }
    for (name, n) in crate::run::hits() {
        if n > 0 {
            bump(&format!("hit_{name}"), n);
        }
    }
    c
}

/// Entry point of the sanitizer binary.
pub fn san_main() -> i32 {
    crate::run::install_quiet_panic_hook();
    let args: Vec<String> = std::env::args().collect();
    let get = |k: &str, d: usize| -> usize { args.iter().position(|a| a == k).and_then(|p| args.get(p + 1)).and_then(|v| v.parse().ok()).unwrap_or(d) };
    let miri = args.iter().any(|a| a == "--miri");
    if args.get(1).map(|s| s.as_str()) != Some("workload") {
        eprintln!("usage: xtv_san workload --seed N --shard I --of N --cases N [--miri] [--selftest-leak|--selftest-uaf]");
        return 2;
    }
    if args.iter().any(|a| a == "--selftest-leak") {
        // used once by the harness to show that the leak detector is alive
        planted_leak();
        println!("leaked memory on purpose");
        return 0;
    }
    if args.iter().any(|a| a == "--hugecol") {
        let c = huge_column_cases();
        println!("XTV-SAN-SUMMARY {}", serde_json::to_string(&c).unwrap());
        return 0;
    }
    let c = workload(get("--seed", 0) as u64, get("--shard", 0), get("--of", 1), get("--cases", 10), miri);
    println!("XTV-SAN-SUMMARY {}", serde_json::to_string(&c).unwrap());
    0
}

/// Yields `spaces` space characters and then `tail`, without ever holding them in memory.
struct Indented<'a> {
    spaces: u64,
    tail: &'a [u8],
    pos: usize,
}

impl<'a> std::io::Read for Indented<'a> {
    fn read(&mut self, buf: &mut [u8]) -> std::io::Result<usize> {
        if self.spaces > 0 {
            let n = (buf.len() as u64).min(self.spaces) as usize;
            buf[..n].fill(b' ');
            self.spaces -= n as u64;
            return Ok(n);
        }
        let n = buf.len().min(self.tail.len() - self.pos);
        buf[..n].copy_from_slice(&self.tail[self.pos..self.pos + n]);
        self.pos += n;
        Ok(n)
    }
}

/// A block key / sequence entry that starts beyond column 2^31 of its line: the parser's column counter
/// passes what a C int holds, an error path of the C-derived parser that ordinary inputs never take (it
/// reports a MEMORY error, the one kind of error that comes without a problem string). The line is
/// generated on the fly; whatever xt answers, it must answer in safe terms.
fn huge_column_cases() -> std::collections::BTreeMap<String, u64> {
    let mut c: std::collections::BTreeMap<String, u64> = Default::default();
    for tail in [&b"a: 1\n"[..], b"- x\n"] {
        for from in [Some(xt::Format::Yaml), None] {
            let mut out = Vec::new();
            let v = guarded(|| xt::translate_reader(Indented { spaces: (1u64 << 31) + 16, tail, pos: 0 }, from, xt::Format::Json, &mut out));
            *c.entry(format!("huge_column_{}", v.class())).or_insert(0) += 1;
            *c.entry("huge_column_cases".into()).or_insert(0) += 1;
        }
    }
    c
}

#[inline(never)]
fn planted_leak() {
    for i in 0..64usize {
        let b = std::hint::black_box(vec![i as u8; 1000 + i].into_boxed_slice());
        std::hint::black_box(Box::leak(b));
    }
    // overwrite whatever stack slots still hold the pointers
    let junk = std::hint::black_box([0usize; 512]);
    std::hint::black_box(&junk);
}

/// The second ASan build: xt with its shipped settings (no debug assertions, no overflow checks), where a
/// `debug_assert!` does not turn an out-of-bounds access into a clean panic first. The first build keeps the
/// assertions on, where an invalid `char` or a violated unsafe precondition aborts instead of passing silently.
fn san_bin_shipped() -> String {
    std::env::var("XTV_SAN_BIN_SHIPPED").unwrap_or_else(|_| "/verif/out/target-asan-shipped/x86_64-unknown-linux-gnu/release/xtv_san".into())
}

fn san_bin() -> String {
    std::env::var("XTV_SAN_BIN").unwrap_or_else(|_| "/verif/out/target-asan/x86_64-unknown-linux-gnu/release/xtv_san".into())
}

struct ShardResult {
    exit: Option<i32>,
    signal: Option<i32>,
    summary: Option<serde_json::Map<String, Value>>,
    log: String,
}

fn run_shards(cmds: Vec<Command>, log_prefix: &str, out_dir: &str, wall_secs: u64) -> Vec<ShardResult> {
    // a stage that overruns its wall budget is killed: inconclusive, never a verdict
    let pids: std::sync::Arc<std::sync::Mutex<Vec<i32>>> = Default::default();
    let done = std::sync::Arc::new(std::sync::atomic::AtomicBool::new(false));
    {
        let (pids, done) = (pids.clone(), done.clone());
        std::thread::spawn(move || {
            let mut waited = 0;
            while waited < wall_secs * 10 {
                std::thread::sleep(std::time::Duration::from_millis(100));
                if done.load(std::sync::atomic::Ordering::Relaxed) {
                    return;
                }
                waited += 1;
            }
            for p in pids.lock().unwrap().iter() {
                unsafe {
                    // the whole process group: cargo/miri spawn grandchildren
                    libc::kill(-*p, libc::SIGKILL);
                    libc::kill(*p, libc::SIGKILL);
                }
            }
        });
    }
    let mut children = vec![];
    for (i, mut c) in cmds.into_iter().enumerate() {
        c.stdout(Stdio::piped()).stderr(Stdio::piped());
        {
            use std::os::unix::process::CommandExt;
            c.process_group(0);
        }
        let ch = c.spawn();
        if let Ok(ch) = &ch {
            pids.lock().unwrap().push(ch.id() as i32);
        }
        children.push((i, ch));
    }
    let mut res = vec![];
    for (i, ch) in children {
        match ch {
            Err(e) => res.push(ShardResult { exit: None, signal: None, summary: None, log: format!("spawn failed: {e}") }),
            Ok(ch) => {
                let out = ch.wait_with_output();
                match out {
                    Err(e) => res.push(ShardResult { exit: None, signal: None, summary: None, log: format!("wait failed: {e}") }),
                    Ok(o) => {
                        use std::os::unix::process::ExitStatusExt;
                        let so = String::from_utf8_lossy(&o.stdout).into_owned();
                        let se = String::from_utf8_lossy(&o.stderr).into_owned();
                        let summary = so.lines().find_map(|l| l.strip_prefix("XTV-SAN-SUMMARY ")).and_then(|j| serde_json::from_str::<Value>(j).ok()).and_then(|v| v.as_object().cloned());
                        let path = format!("{out_dir}/logs/{log_prefix}-{i}.log");
                        let _ = std::fs::write(&path, format!("--- stdout ---\n{so}\n--- stderr ---\n{se}"));
                        res.push(ShardResult { exit: o.status.code(), signal: o.status.signal(), summary, log: path });
                    }
                }
            }
        }
    }
    done.store(true, std::sync::atomic::Ordering::Relaxed);
    res
}

pub fn run(ctx: &Ctx) -> i32 {
    let out_dir = std::env::var("XTV_OUT").unwrap_or_else(|_| "/verif/out".into());
    let _ = std::fs::create_dir_all(format!("{out_dir}/logs"));
    let mut acc = Acc::default();
    let shards = crate::par::threads().min(16);
    // ---- 1. ASan + LSan ----
    let cases_per_shard = ctx.size(120, 6000);
    let bin = san_bin();
    if !std::path::Path::new(&bin).exists() {
        println!("INCONCLUSIVE property=C17 sanitizer binary missing: {bin}");
        return 2;
    }
    // the leak detector must be alive: a planted leak has to be reported
    {
        let o = Command::new(&bin).args(["workload", "--selftest-leak"]).env("ASAN_OPTIONS", "detect_leaks=1:halt_on_error=1:exitcode=66").env("LSAN_OPTIONS", "exitcode=67").output();
        match o {
            Ok(o) if o.status.code() == Some(67) || String::from_utf8_lossy(&o.stderr).contains("LeakSanitizer") => acc.count("leak_detector_selftest_fired"),
            Ok(o) => acc.harness_errors.push(format!("LeakSanitizer self-test did not fire (exit {:?})", o.status.code())),
            Err(e) => acc.harness_errors.push(format!("cannot run the sanitizer binary: {e}")),
        }
    }
    let bin_shipped = san_bin_shipped();
    if !std::path::Path::new(&bin_shipped).exists() {
        println!("INCONCLUSIVE property=C17 sanitizer binary (shipped settings) missing: {bin_shipped}");
        return 2;
    }
    // the same shard of the workload goes through both builds: first half of the processes with assertions on,
    // second half with xt's shipped settings
    let half = (shards / 2).max(1);
    let cmds: Vec<Command> = (0..shards)
        .map(|p| {
            let i = p % half;
            let mut c = Command::new(if p < half { &bin } else { &bin_shipped });
            c.args(["workload", "--seed", &ctx.seed.to_string(), "--shard", &i.to_string(), "--of", &half.to_string(), "--cases", &cases_per_shard.to_string()]);
            c.env("ASAN_OPTIONS", "detect_leaks=1:halt_on_error=1:abort_on_error=0:exitcode=66:allocator_may_return_null=1").env("LSAN_OPTIONS", "exitcode=67");
            c
        })
        .collect();
    // one more process (assertions on): block entries beyond column 2^31, generated on the fly
    let mut cmds = cmds;
    {
        let mut c = Command::new(&bin);
        c.args(["workload", "--hugecol"]);
        c.env("ASAN_OPTIONS", "detect_leaks=1:halt_on_error=1:abort_on_error=0:exitcode=66:allocator_may_return_null=1").env("LSAN_OPTIONS", "exitcode=67");
        cmds.push(c);
    }
    let res = run_shards(cmds, &format!("c17-asan-s{}", ctx.seed), &out_dir, if ctx.thorough() { 7200 } else { 900 });
    let mut totals: std::collections::BTreeMap<String, u64> = Default::default();
    for (i, r) in res.iter().enumerate() {
        acc.evals += 1;
        let clean = r.exit == Some(0) && r.summary.is_some();
        if clean {
            acc.count("asan_shards_clean");
            for (k, v) in r.summary.as_ref().unwrap() {
                *totals.entry(k.clone()).or_insert(0) += v.as_u64().unwrap_or(0);
            }
        } else if r.signal == Some(libc::SIGKILL) {
            acc.harness_errors.push(format!("sanitizer shard {i} exceeded its wall budget and was killed (see {})", r.log));
        } else {
            let text = std::fs::read_to_string(&r.log).unwrap_or_default();
            let first = text.lines().find(|l| l.contains("ERROR: AddressSanitizer") || l.contains("ERROR: LeakSanitizer") || l.contains("SUMMARY:")).unwrap_or("no sanitizer banner; see log").to_string();
            acc.violation(Violation { sig: format!("sanitizer report: {}", ev::truncate(&crate::c02_mask(&first), 90)), case: json!({"instrument": "asan", "build": if i < half { "assertions_on" } else { "shipped_settings" }, "shard": i % half, "of": half, "cases": cases_per_shard, "seed": ctx.seed, "log": r.log}), observed: format!("shard {i} ended with exit {:?} signal {:?}: {first}", r.exit, r.signal), expected: "exit 0 and no AddressSanitizer/LeakSanitizer report".into() });
        }
    }
    // ---- 2. Miri ----
    let miri_cases = ctx.size(2, 20);
    let harness_dir = format!("{}/harness", ctx.verif_dir);
    let miri_cmd = |shard: usize, cases: usize| {
        let mut c = Command::new("cargo");
        c.current_dir(&harness_dir).args(["+nightly", "miri", "run", "--offline", "--bin", "xtv_san", "--", "workload", "--miri", "--seed", &ctx.seed.to_string(), "--shard", &shard.to_string(), "--of", &shards.to_string(), "--cases", &cases.to_string()]);
        c.env("CARGO_TARGET_DIR", format!("{out_dir}/target-miri")).env("CARGO_NET_OFFLINE", "true").env("MIRIFLAGS", "-Zmiri-disable-isolation").env_remove("RUSTFLAGS");
        c
    };
    // warm-up (builds once), then all shards in parallel
    let warm = run_shards(vec![miri_cmd(0, 0)], &format!("c17-miri-warm-s{}", ctx.seed), &out_dir, 900);
    if warm[0].exit != Some(0) {
        acc.harness_errors.push(format!("Miri warm-up run failed (see {})", warm[0].log));
    } else {
        let res = run_shards((0..shards).map(|i| miri_cmd(i, miri_cases)).collect(), &format!("c17-miri-s{}", ctx.seed), &out_dir, if ctx.thorough() { 7200 } else { 900 });
        for (i, r) in res.iter().enumerate() {
            acc.evals += 1;
            if r.exit == Some(0) && r.summary.is_some() {
                acc.count("miri_shards_clean");
                for (k, v) in r.summary.as_ref().unwrap() {
                    *totals.entry(format!("miri_{k}")).or_insert(0) += v.as_u64().unwrap_or(0);
                }
            } else {
                let text = std::fs::read_to_string(&r.log).unwrap_or_default();
                let first = text.lines().find(|l| l.contains("Undefined Behavior") || l.starts_with("error")).unwrap_or("no Miri diagnostic; see log").to_string();
                if text.contains("Undefined Behavior") || text.contains("memory leaked") {
                    acc.violation(Violation { sig: format!("Miri: {}", ev::truncate(&crate::c02_mask(&first), 90)), case: json!({"instrument": "miri", "shard": i, "of": shards, "cases": miri_cases, "seed": ctx.seed, "log": r.log}), observed: first, expected: "no undefined behaviour, no leak".into() });
                } else {
                    acc.harness_errors.push(format!("Miri shard {i} failed without a UB diagnostic (see {})", r.log));
                }
            }
        }
    }
    // ---- 3. valgrind memcheck on the shipped binary (thorough) ----
    if ctx.thorough() {
        let sc = crate::procmon::Scratch::new();
        let seeds = corpus::seeds();
        let mut n = 0;
        for (i, s) in seeds.iter().enumerate().filter(|(_, s)| s.fmt == Some(Fmt::Yaml)).take(40) {
            let name = format!("v{i}.yaml");
            sc.file(&name, &s.bytes);
            let o = Command::new("valgrind").args(["--error-exitcode=88", "--leak-check=full", "-q"]).arg(crate::procmon::release_bin()).args(["-t", "json", &name]).current_dir(sc.path()).stdout(Stdio::null()).stderr(Stdio::piped()).output();
            if let Ok(o) = o {
                n += 1;
                acc.evals += 1;
                if o.status.code() == Some(88) {
                    acc.violation(Violation { sig: "valgrind memcheck report on the release binary".into(), case: json!({"instrument": "valgrind", "input_hex": crate::model::hex(&s.bytes)}), observed: ev::truncate(&String::from_utf8_lossy(&o.stderr), 400), expected: "no memcheck error".into() });
                }
            }
        }
        acc.add("valgrind_runs", n);
        crate::c04::fuzz_stage(ctx, "yaml_reader", 300, "C17", &mut acc);
    }
    // ---- conservation invariant ----
    let g = |k: &str| totals.get(k).copied().unwrap_or(0);
    for pre in ["", "miri_"] {
        let (pn, pd, en, ed) = (g(&format!("{pre}hit_PARSER_NEW")), g(&format!("{pre}hit_PARSER_DROP")), g(&format!("{pre}hit_EVENT_NEW")), g(&format!("{pre}hit_EVENT_DROP")));
        if pn != pd || en != ed {
            acc.violation(Violation { sig: "parser/event creations and drops do not balance".into(), case: json!({"instrument": "conservation", "prefix": pre}), observed: format!("Parser new {pn} / drop {pd}; Event new {en} / drop {ed}"), expected: "every Parser and Event dropped exactly once".into() });
        }
    }
    for pre in ["", "miri_"] {
        let n = g(&format!("{pre}concurrent_translation_differs_from_the_single_threaded_one"));
        if n > 0 {
            acc.violation(Violation { sig: "a translation running next to others on other threads ends differently than alone".into(), case: json!({"instrument": "threads", "prefix": pre}), observed: format!("{n} of the concurrent translations differ in verdict or output from the same translation on one thread"), expected: "translations on different threads do not interfere".into() });
        }
    }
    for pre in ["", "miri_"] {
        let n = g(&format!("{pre}reader_buffer_changed_during_a_nested_translation"));
        if n > 0 {
            acc.violation(Violation { sig: "a reader's exclusively borrowed buffer changed under it while a nested translation ran".into(), case: json!({"instrument": "nesting reader", "prefix": pre}), observed: format!("{n} read() calls found other bytes in their buffer after running a second YAML translation on the same thread"), expected: "the buffer lent to read() is not shared with any other parser".into() });
        }
    }
    for (k, v) in &totals {
        acc.add(k, *v);
    }
    // distinct non-trivial: inputs driven under the sanitizers
    for i in 0..(g("inputs") + g("miri_inputs")) {
        acc.distinct(&i);
    }
    acc.sample(json!({"asan_shards": shards, "cases_per_shard": cases_per_shard, "miri_cases_per_shard": miri_cases, "example_shard_command": format!("{bin} workload --seed {} --shard 0 --of {shards} --cases {cases_per_shard}", ctx.seed)}));
    let rule = format!("AddressSanitizer+LeakSanitizer: {} shards x {} corpus inputs (mixed corpus, UTF-16/32 re-encodings, every fifth one a ~45 KiB YAML text with multi-byte characters on every alignment around the 8/16/24/32 KiB read boundaries) each driven as YAML explicit and detected through the public API with read sizes 1..17 / random / whole, reader errors at sampled offsets, over-reporting readers (excess 1..64, first/second/third call) straight into the raw parser and the chunker via the hook and through the public API, readers that panic inside read() or in their destructor, safe readers that look at the buffer's old contents before filling it or report n bytes having stored n-1 (sound only if the buffer handed out is initialised memory; an uninitialised one is a Miri report), a reader that runs a second YAML translation on the same thread from inside read() and then checks that its buffer is unchanged, the same translation on three threads at once (equal results; under Miri also free of data races), early drop of the parser after EVERY event count, chunker abandoned after one document, re-encoder surrogate/range boundary units; one more ASan process with block entries that start beyond column 2^31 of a line generated on the fly (the parser's memory-error path); Miri: {} shards x {} seed inputs of the same workload; valgrind memcheck on the release binary in the thorough tier; conservation of Parser/Event new vs drop; distinct non-trivial = inputs driven", shards, cases_per_shard, shards, miri_cases);
    let mut extra = serde_json::Map::new();
    extra.insert("explanation".into(), json!("sanitizer verdict: zero AddressSanitizer/LeakSanitizer/Miri reports over the executed workload; a clean run says nothing about paths the workload did not reach"));
    let mut f = Finish { ctx, level: "other", rule, assumptions: vec!["red-zone tools miss intra-object overflows; Miri covers part of that gap on the smaller workload".into(), "panics are an allowed outcome for contract-violating readers and are counted".into()], extra, exhaustive: false, min_distinct: 100, must_reach: vec![("leak_detector_selftest_fired".into(), 1), ("asan_shards_clean".into(), shards as u64), ("miri_shards_clean".into(), shards as u64), ("hit_READ_HANDLER_OVER_REPORT".into(), 10), ("hit_READ_HANDLER_ERROR".into(), 10), ("early_drop_points".into(), 1000), ("inputs_boundary_straddling".into(), 50), ("readers_panicking_in_drop".into(), 100), ("lazy_reader_api_returned".into(), 100), ("nesting_reader_api_returned".into(), 100), ("concurrent_translations".into(), 300), ("huge_column_cases".into(), 4)] };
    if !acc.violations.is_empty() {
        f.must_reach.clear();
    }
    ev::finish(f, acc)
}

pub fn replay(v: &Value) -> i32 {
    let c = &v["case"];
    match c["instrument"].as_str() {
        Some("asan") => {
            let o = Command::new(san_bin()).args(["workload", "--seed", &c["seed"].to_string(), "--shard", &c["shard"].to_string(), "--of", &c["of"].to_string(), "--cases", &c["cases"].to_string()]).env("ASAN_OPTIONS", "detect_leaks=1:halt_on_error=1:exitcode=66").env("LSAN_OPTIONS", "exitcode=67").status();
            match o {
                Ok(s) if s.success() => {
                    println!("not reproduced");
                    0
                }
                Ok(s) => {
                    println!("VIOLATION property=C17 replay=<this file> (reproduced): exit {:?}", s.code());
                    1
                }
                Err(e) => {
                    println!("cannot run: {e}");
                    2
                }
            }
        }
        _ => {
            println!("re-run ./check C17 to reproduce Miri / valgrind / conservation findings (log: {})", c["log"]);
            2
        }
    }
}

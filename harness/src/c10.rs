//! C10 — xt recognises its own output without -f.
//!
//! For collection-rooted documents, each output format F, one or many
//! documents: o = xt(A->F)(d...); the detect hook (slice and scheduled readers)
//! must name F and xt(None->X)(o) must equal xt(F->X)(o). For F = TOML the
//! property's two exceptions are decided by independent predicates.

use serde_json::{json, Value};

use crate::ev::{self, Acc, Ctx, Finish, Violation};
use crate::fmts::{Fmt, ALL, STREAMING};
use crate::gen::{gen_collection, Classes, GenOpts};
use crate::model::{hex, preview, unhex, Val};
use crate::mon::{Sched, SchedReader};
use crate::rng::Rng;
use crate::run::{run_mode, run_slice, Mode};
use crate::spell::{spell, Feats};

fn detect_slice(b: &[u8]) -> Result<Option<Fmt>, String> {
    crate::run::guarded_any(|| xt::verif::detect_slice(b)).map_err(|p| format!("panic: {p}"))?.map(|o| o.map(Fmt::from_xt)).map_err(|e| format!("io error: {e}"))
}

fn detect_reader(b: &[u8], s: &Sched) -> Result<Option<Fmt>, String> {
    crate::run::guarded_any(|| xt::verif::detect_reader(SchedReader::new(b, s.clone()))).map_err(|p| format!("panic: {p}"))?.map(|o| o.map(Fmt::from_xt)).map_err(|e| format!("io error: {e}"))
}

fn show(d: &Result<Option<Fmt>, String>) -> String {
    match d {
        Ok(Some(f)) => f.name().to_string(),
        Ok(None) => "none".into(),
        Err(e) => format!("error({e})"),
    }
}

/// First keys aimed at detection: empty, numeric-looking, quoted, non-ASCII,
/// starting with a byte in 0x80-0xDF once encoded.
const FIRST_KEYS: &[&str] = &["", "1", "-1", "1.5", "true", "null", "a", "a b", "\"q\"", "'q'", "[a]", "{a}", "#c", "a: b", "a = b", "é", "\u{700}x", "\u{7ff}", "中", "\u{80}", "\u{9f}z", "~", "-", "- a", "---", "...", "%YAML", "&a", "*a", "!t", "|", ">", "@", "`", "=", "0x1F", "key", "\t", " ", "\n"];

pub fn gen_doc_for_detection(rng: &mut Rng, cl: &mut Classes) -> Val {
    let o = GenOpts { max_depth: 3, max_width: 4, ..GenOpts::common() };
    let m = rng.chance(2, 3);
    let mut d = gen_collection(rng, &o, 0, cl, m);
    if let Val::Map(entries) = &mut d {
        if rng.chance(2, 3) {
            let k = rng.pick(FIRST_KEYS).to_string();
            entries.retain(|(ek, _)| *ek != Val::Str(k.clone()));
            let v = match rng.below(4) {
                0 => Val::Map(vec![]),
                1 => Val::Seq(vec![Val::Int(1)]),
                2 => Val::s("a: b"),
                _ => Val::Int(rng.below(100) as i128),
            };
            entries.insert(0, (Val::Str(k), v));
        }
    }
    d
}

pub fn judge(o: &[u8], f: Fmt, x: Fmt, scheds: &[Sched], acc: &mut Acc) {
    acc.evals += 1;
    let case = |s: &str| json!({"output_hex": hex(o), "output_preview": preview(o, 300), "written_as": f.name(), "then_to": x.name(), "schedule": s});
    let ds = detect_slice(o);
    let mut all: Vec<(String, Result<Option<Fmt>, String>)> = vec![("slice".into(), ds.clone())];
    for s in scheds {
        all.push((format!("reader:{}", s.describe()), detect_reader(o, s)));
    }
    for (how, d) in &all {
        acc.count(&format!("detected_{}_as_{}", f.name(), show(d).split('(').next().unwrap()));
        let ok = match d {
            Ok(Some(g)) if *g == f => true,
            Ok(Some(g)) if f == Fmt::Toml => {
                // exceptions: an earlier trial legitimately accepts the text
                let json_ex = *g == Fmt::Json && crate::read::json::value_at_start(o);
                // ... judged on what the trial can have seen: the whole text, or (when a
                // character YAML forbids follows later) the text before that character
                let yaml_ex = *g == Fmt::Yaml && (crate::read::yaml::first_doc_is_collection(o) || crate::known::yaml_trial_read_ahead_shape(o));
                if json_ex {
                    acc.count("toml_exception_first_token_is_json_value");
                }
                if yaml_ex {
                    acc.count("toml_exception_is_yaml_collection_document");
                }
                json_ex || yaml_ex
            }
            _ => false,
        };
        if !ok {
            acc.violation(Violation { sig: format!("own {} output detected as {} ({})", f.name(), show(d).split('(').next().unwrap(), how.split(':').next().unwrap()), case: case(how), observed: format!("detect({how}) = {}", show(d)), expected: format!("{}{}", f.name(), if f == Fmt::Toml { " (or JSON/YAML under the two stated exceptions)" } else { "" }) });
            return;
        }
    }
    // xt -t F | xt  ==  xt -t F | xt -f F   (only when detection names F)
    if ds == Ok(Some(f)) {
        for mode in [Mode::Slice, Mode::Reader(scheds.first().cloned().unwrap_or(Sched::One))] {
            let a = run_mode(o, &mode, None, x);
            let b = run_mode(o, &mode, Some(f), x);
            acc.count("pipeline_equivalence_checked");
            if a.verdict != b.verdict || a.out != b.out {
                if crate::known::yaml_trial_read_ahead_shape(o) && crate::known::listed("C10", "C09-yaml-trial-depends-on-read-ahead") {
                    acc.known("C09-yaml-trial-depends-on-read-ahead", || format!("own {} output [{}] ({})", f.name(), preview(o, 50), mode.describe()));
                    return;
                }
                acc.violation(Violation { sig: format!("xt -t {} | xt differs from xt -t {} | xt -f {}", f.name(), f.name(), f.name()), case: case(&mode.describe()), observed: format!("detected: {} [{}]; explicit: {} [{}]", a.verdict.show(), preview(&a.out, 120), b.verdict.show(), preview(&b.out, 120)), expected: "identical outcome".into() });
                return;
            }
        }
    }
}

/// At the command line: xt's own output as a LATER operand that names no format (no telling extension, or
/// '-'), behind a first operand whose extension names another format. Nothing of the first operand may
/// reach the recognition of the second: the output must be that of the two operands translated separately.
pub fn cli_later_operand(seed: u64, idx: usize, acc: &mut Acc) {
    use crate::procmon::{self, Run, Scratch, Status, StdinKind, StdoutKind};
    let mut rng = Rng::derive(seed, 0xc10c, idx as u64);
    let mut cl = Classes::default();
    let first_fmt = ALL[idx % 4];
    let own_fmt = ALL[(idx / 4) % 4];
    let to = STREAMING[(idx / 16) % 3];
    let via_stdin = (idx / 48) % 2 == 1;
    let mut feats = Feats::default();
    let doc = gen_doc_for_detection(&mut rng, &mut cl);
    let doc = if own_fmt == Fmt::Toml || first_fmt == Fmt::Toml { match crate::gen::tomlify(&doc) { Some(t) => t, None => return } } else { doc };
    let mut j = spell(Fmt::Json, &doc, &mut rng, &mut feats, true);
    j.push(b'\n');
    let own = run_slice(&j, Some(Fmt::Json), own_fmt);
    let first = run_slice(b"{\"first\": [1, \"operand\"]}\n", Some(Fmt::Json), first_fmt);
    if !own.verdict.is_ok() || !first.verdict.is_ok() || detect_slice(&own.out) != Ok(Some(own_fmt)) {
        return;
    }
    let sc = Scratch::new();
    let first_name = format!("first.{}", match first_fmt { Fmt::Yaml => *rng.pick(&["yaml", "yml"]), f => f.name() });
    sc.file(&first_name, &first.out);
    sc.file("own", &own.out);
    let bin = procmon::release_bin();
    let run = |argv: Vec<String>, stdin: &[u8]| procmon::run(Run { bin: &bin, argv, cwd: sc.path(), stdin: StdinKind::Bytes(stdin.to_vec()), stdout: StdoutKind::Pipe, wall_secs: 60, cpu_secs: 20 });
    let second = if via_stdin { "-" } else { "own" };
    let a = run(vec!["-t".into(), to.name().into(), first_name.clone()], b"");
    let b = run(vec!["-t".into(), to.name().into(), second.into()], &own.out);
    if a.status != Status::Exit(0) || b.status != Status::Exit(0) {
        acc.count("cli_later_operand_skipped");
        return;
    }
    let both = run(vec!["-t".into(), to.name().into(), first_name.clone(), second.into()], &own.out);
    acc.evals += 1;
    acc.count("cli_own_output_as_a_later_operand");
    if matches!(both.status, Status::Timeout | Status::SpawnError(_)) {
        acc.inconclusive += 1;
        return;
    }
    let mut expected = a.stdout.clone();
    expected.extend_from_slice(&b.stdout);
    if both.status != Status::Exit(0) || both.stdout != expected {
        acc.violation(Violation { sig: format!("command line: own {} output as a later operand behind a .{} file is recognised differently", own_fmt.name(), first_fmt.name()), case: json!({"part": "cli_later_operand", "seed": seed, "index": idx}), observed: format!("xt -t {} {} {}: status {}, stdout [{}], stderr [{}]", to.name(), first_name, second, both.status.show(), preview(&both.stdout, 160), preview(&both.stderr, 160)), expected: format!("exit 0 and the output of the two operands translated separately [{}]", preview(&expected, 160)) });
    }
}

/// xt's own MessagePack / YAML output for maps whose keys are NOT strings (integers, booleans, null, floats,
/// sequences) with 1..70 entries - a root that only MessagePack and YAML can hold - is recognised again.
pub fn non_string_key_roots(seed: u64, idx: usize, acc: &mut Acc) {
    let mut rng = Rng::derive(seed, 0xc10b, idx as u64);
    let n = *rng.pick(&[1usize, 2, 15, 16, 17, 40, 70]);
    let kind = idx % 5;
    let entries: Vec<(Val, Val)> = (0..n)
        .map(|i| {
            let k = match kind {
                0 => Val::Int(i as i128),
                1 => if i == 0 { Val::Null } else { Val::Int(-(i as i128)) },
                2 => if i == 0 { Val::Bool(true) } else if i == 1 { Val::Bool(false) } else { Val::Int(1000 + i as i128) },
                3 => Val::Float((i as f64 + 0.5).to_bits()),
                _ => Val::Seq(vec![Val::Int(i as i128)]),
            };
            (k, Val::Str(format!("v{i}")))
        })
        .collect();
    let doc = Val::Map(entries);
    let mut feats = Feats::default();
    let src = spell(Fmt::Msgpack, &doc, &mut rng, &mut feats, true);
    for f in [Fmt::Msgpack, Fmt::Yaml] {
        let own = run_slice(&src, Some(Fmt::Msgpack), f);
        if !own.verdict.is_ok() {
            continue;
        }
        acc.count("own_outputs_with_non_string_keys");
        for x in [Fmt::Msgpack, Fmt::Yaml] {
            judge(&own.out, f, x, &[Sched::All, Sched::Fixed(3), Sched::Fixed(4096)], acc);
        }
    }
}

pub fn run(ctx: &Ctx) -> i32 {
    let n = ctx.size(12000, 1500000);
    let seed = ctx.seed;
    let acc = crate::par::run(n, 16, |i, acc| {
        let mut rng = Rng::derive(seed, 0xc10, i as u64);
        let mut cl = Classes::default();
        let n_docs = *rng.pick(&[1usize, 1, 1, 2, 3, 5]);
        let mut docs: Vec<Val> = (0..n_docs).map(|_| gen_doc_for_detection(&mut rng, &mut cl)).collect();
        if i % 97 == 0 {
            docs[0] = Val::Map(vec![]);
        }
        if i % 600 == 599 || (n <= 20000 && i % 200 == 199) {
            // roots around the 16-bit length limit of MessagePack headers (map 32 / array 32)
            let n = *rng.pick(&[32767usize, 32768, 40000, 65535, 65536, 70000]);
            acc.count("huge_root_collections");
            docs = vec![if rng.chance(1, 2) { Val::Map((0..n).map(|k| (Val::Str(format!("k{k}")), Val::Int((k % 3) as i128))).collect()) } else { Val::Seq((0..n).map(|k| Val::Int((k % 3) as i128)).collect()) }];
        }
        let mut long_text = false;
        if i % 100 == 57 {
            // tens of KiB of multi-byte characters behind a pad of 0..7 ASCII bytes: in xt's own YAML / TOML / JSON
            // output such a character then sits across the 16 KiB / 32 KiB / ... marks at which parsers refill
            let unit = *rng.pick(&["\u{e9}", "\u{65e5}", "\u{1f600}", "a\u{e9}"]);
            let bytes = *rng.pick(&[33_000usize, 40_000, 66_000, 100_000]);
            let s = format!("{}{}", "a".repeat(rng.below(8)), unit.repeat(bytes / unit.len()));
            docs = vec![Val::Map(vec![(Val::s("k"), Val::Str(s)), (Val::s("n"), Val::Int(1))])];
            long_text = true;
            acc.count("long_multibyte_text_documents");
        }
        cl.add_to(acc);
        acc.distinct(&docs.iter().map(|d| d.show()).collect::<Vec<_>>());
        acc.sample_every(1499, || json!({"documents": docs.iter().map(|d| ev::truncate(&d.show(), 120)).collect::<Vec<_>>()}));
        // source stream: JSON lines (plain spelling)
        let mut feats = Feats::default();
        let mut src = vec![];
        for d in &docs {
            src.extend_from_slice(&spell(Fmt::Json, d, &mut rng, &mut feats, true));
            src.push(b'\n');
        }
        let scheds = if long_text {
            [Sched::All, Sched::Fixed(16384), Sched::Fixed(*rng.pick(&[8192usize, 16383, 16385, 65536]))]
        } else if docs[0].nodes() > 10000 { [Sched::All, Sched::Fixed(4096), Sched::Random(rng.next(), 8192)] } else { [Sched::One, Sched::Fixed(*rng.pick(&[2usize, 3, 5, 4096])), Sched::Random(rng.next(), 16)] };
        let mut own_outputs: Vec<(Fmt, Vec<u8>)> = vec![];
        for f in ALL {
            let input: Vec<u8> = if f == Fmt::Toml {
                // TOML holds one document, which must be representable
                match crate::gen::tomlify(&docs[0]) {
                    Some(t) => {
                        let mut b = spell(Fmt::Json, &t, &mut rng, &mut feats, true);
                        b.push(b'\n');
                        b
                    }
                    None => continue,
                }
            } else {
                src.clone()
            };
            let o = run_slice(&input, Some(Fmt::Json), f);
            if !o.verdict.is_ok() {
                acc.count("not_translatable_skipped");
                continue;
            }
            if f == Fmt::Toml && o.out.is_empty() {
                // the empty table is written as no bytes at all; empty input is still TOML
                acc.count("empty_toml_outputs");
            }
            acc.count(&format!("outputs_{}_{}", f.name(), if n_docs > 1 && f != Fmt::Toml { "multi" } else { "single" }));
            let x = STREAMING[(i + f.idx()) % 3];
            judge(&o.out, f, x, &scheds, acc);
            if detect_slice(&o.out) == Ok(Some(f)) && o.out.len() < 100_000 {
                own_outputs.push((f, o.out));
            }
        }
        // the same outputs, one after the other, through ONE translator without -f: what the translator
        // has seen before must not change how the next output is recognised
        if own_outputs.len() >= 2 {
            use crate::run::{run_history, Call};
            let x = STREAMING[i % 3];
            let rot = i % own_outputs.len();
            own_outputs.rotate_left(rot);
            own_outputs.reverse();
            let calls: Vec<Call> = own_outputs.iter().enumerate().map(|(k, (_, o))| Call { input: o.clone(), from: None, mode: if (i + k) % 2 == 0 { Mode::Slice } else { Mode::Reader(Sched::Fixed(5)) } }).collect();
            let alone: Vec<_> = calls.iter().map(|c| run_mode(&c.input, &c.mode, None, x)).collect();
            if alone.iter().all(|o| o.verdict.is_ok()) {
                acc.evals += 1;
                acc.count("own_outputs_through_one_translator");
                let (verdicts, wlog) = run_history(&calls, x, crate::mon::MonWriter::new(), true);
                let expected: Vec<u8> = alone.iter().flat_map(|o| o.out.iter().copied()).collect();
                if verdicts.iter().any(|v| !v.is_ok()) || wlog.bytes != expected {
                    let order: Vec<&str> = own_outputs.iter().map(|(f, _)| f.name()).collect();
                    acc.violation(Violation {
                        sig: format!("own outputs through one translator ->{}: recognised differently than alone", x.name()),
                        case: json!({"part": "one_translator", "order": order, "then_to": x.name(), "outputs_hex": own_outputs.iter().map(|(_, o)| hex(o)).collect::<Vec<_>>(), "outputs_preview": own_outputs.iter().map(|(_, o)| preview(o, 100)).collect::<Vec<_>>()}),
                        observed: format!("verdicts {:?}; {} bytes written [{}]", verdicts.iter().map(|v| v.show()).collect::<Vec<_>>(), wlog.bytes.len(), preview(&wlog.bytes, 200)),
                        expected: format!("every call Ok and the {} bytes of the separate translations [{}]", expected.len(), preview(&expected, 200)),
                    });
                }
            }
        }
        // ... and outputs of DIFFERENT documents: after an output that was recognised as TOML or YAML, a JSON
        // output whose text other trials would accept too (a one-element array reads as a TOML table header,
        // a string with NEL / LS / PS folds in YAML) must still be recognised as JSON
        {
            use crate::run::{run_history, Call};
            let shapes: Vec<Val> = vec![
                Val::Seq(vec![Val::s("a")]),
                Val::Seq(vec![Val::Int(1)]),
                Val::Seq(vec![Val::Seq(vec![Val::s("deep")])]),
                Val::Map(vec![(Val::s("s"), Val::s("a\u{85}b"))]),
                Val::Seq(vec![Val::s("x\u{2028} y \u{2029}z")]),
                Val::Seq(vec![Val::Seq(vec![])]),
                Val::Map(vec![(Val::s("a"), Val::Map(vec![]))]),
                gen_doc_for_detection(&mut rng, &mut cl),
            ];
            let b_doc = &shapes[i % shapes.len()];
            let mut f2 = Feats::default();
            let mut b_src = spell(Fmt::Json, b_doc, &mut rng, &mut f2, true);
            b_src.push(b'\n');
            let b_json = run_slice(&b_src, Some(Fmt::Json), Fmt::Json);
            let x = STREAMING[(i / 3) % 3];
            if b_json.verdict.is_ok() && detect_slice(&b_json.out) == Ok(Some(Fmt::Json)) {
                for (f, first) in own_outputs.iter().filter(|(f, _)| matches!(f, Fmt::Toml | Fmt::Yaml)) {
                    let calls = vec![Call { input: first.clone(), from: None, mode: Mode::Slice }, Call { input: b_json.out.clone(), from: None, mode: if i % 2 == 0 { Mode::Slice } else { Mode::Reader(Sched::Fixed(3)) } }];
                    let alone: Vec<_> = calls.iter().map(|c| run_mode(&c.input, &c.mode, None, x)).collect();
                    if !alone.iter().all(|o| o.verdict.is_ok()) {
                        continue;
                    }
                    acc.evals += 1;
                    acc.count("json_output_after_toml_or_yaml_on_one_translator");
                    let (verdicts, wlog) = run_history(&calls, x, crate::mon::MonWriter::new(), true);
                    let expected: Vec<u8> = alone.iter().flat_map(|o| o.out.iter().copied()).collect();
                    if verdicts.iter().any(|v| !v.is_ok()) || wlog.bytes != expected {
                        acc.violation(Violation {
                            sig: format!("own json output after own {} output on one translator ->{}: recognised differently than alone", f.name(), x.name()),
                            case: json!({"part": "one_translator", "order": [f.name(), "json"], "then_to": x.name(), "outputs_hex": [hex(first), hex(&b_json.out)], "outputs_preview": [preview(first, 100), preview(&b_json.out, 100)]}),
                            observed: format!("verdicts {:?}; written [{}]", verdicts.iter().map(|v| v.show()).collect::<Vec<_>>(), preview(&wlog.bytes, 200)),
                            expected: format!("the separate translations [{}]", preview(&expected, 200)),
                        });
                        break;
                    }
                }
            }
        }
    });
    let mut acc = acc;
    let n_keys = ctx.size(210, 7000);
    let k_acc = crate::par::run(n_keys, 8, |i, acc| non_string_key_roots(seed, i, acc));
    acc.merge(k_acc);
    let n_cli = ctx.size(96, 960);
    let cli = crate::par::run(n_cli, 2, |i, acc| cli_later_operand(seed, i, acc));
    acc.merge(cli);
    let rule = format!("{} document sets (1-5 collection-rooted documents; maps get a first key from a pool of {} detection-hostile keys: empty, numeric-looking, quoted, YAML/TOML indicators, non-ASCII incl. U+0080-U+07FF) x 4 output formats (TOML: first document, TOML-representable), every 600th set (quick: every 200th) a single root map/array of 32 767..70 000 entries, every 100th a map holding 33-100 KB of multi-byte characters behind 0..7 ASCII bytes (read whole and 16 384 / 8192 / 16 383 / 16 385 / 65 536 bytes at a time); every output is offered to the detect hook as a slice and under 3 read schedules, and xt(None->X) is compared with xt(F->X) in slice and reader mode; the outputs of one set are also fed one after the other through ONE translator without a source format; own MessagePack and YAML output for root maps with 1..70 non-string keys (integers, null, booleans, floats, sequences); at the command line, own output as a later operand without a telling name (a file, or '-') behind a first operand whose extension names each format; distinct non-trivial = distinct document sets", n, FIRST_KEYS.len());
    ev::finish(
        Finish { ctx, level: "exploration", rule, assumptions: vec!["TOML exceptions decided by the harness's hand-written JSON reader and libyaml-event reader, not by xt".into(), "an empty table is written to TOML as zero bytes; that empty text must still be recognised as TOML".into()], extra: serde_json::Map::new(), exhaustive: false, min_distinct: 1000, must_reach: vec![("pipeline_equivalence_checked".into(), 1000), ("huge_root_collections".into(), 5), ("cli_own_output_as_a_later_operand".into(), 40), ("own_outputs_with_non_string_keys".into(), 100), ("long_multibyte_text_documents".into(), 20), ("detected_toml_as_toml".into(), 100), ("detected_yaml_as_yaml".into(), 100), ("detected_msgpack_as_msgpack".into(), 100), ("detected_json_as_json".into(), 100), ("own_outputs_through_one_translator".into(), 1000), ("json_output_after_toml_or_yaml_on_one_translator".into(), 1000)] },
        acc,
    )
}

pub fn replay(v: &Value) -> i32 {
    let c = &v["case"];
    if c["part"].as_str() == Some("cli_later_operand") {
        let mut acc = Acc::default();
        cli_later_operand(c["seed"].as_u64().unwrap_or(0), c["index"].as_u64().unwrap_or(0) as usize, &mut acc);
        return if acc.vio_count > 0 {
            println!("VIOLATION property=C10 replay=<this file> (reproduced): {}", acc.violations[0].observed);
            1
        } else {
            println!("not reproduced");
            0
        };
    }
    if c["part"].as_str() == Some("one_translator") {
        use crate::run::{run_history, Call};
        let Some(x) = c["then_to"].as_str().and_then(Fmt::parse) else { return 2 };
        let outs: Vec<Vec<u8>> = c["outputs_hex"].as_array().map(|a| a.iter().filter_map(|h| h.as_str().and_then(unhex)).collect()).unwrap_or_default();
        let calls: Vec<Call> = outs.iter().map(|o| Call { input: o.clone(), from: None, mode: Mode::Slice }).collect();
        let alone: Vec<u8> = calls.iter().flat_map(|c| run_mode(&c.input, &c.mode, None, x).out).collect();
        let (verdicts, wlog) = run_history(&calls, x, crate::mon::MonWriter::new(), true);
        println!("one translator: {:?}\n  got      [{}]\n  separate [{}]", verdicts.iter().map(|v| v.show()).collect::<Vec<_>>(), preview(&wlog.bytes, 300), preview(&alone, 300));
        return if verdicts.iter().any(|v| !v.is_ok()) || wlog.bytes != alone {
            println!("VIOLATION property=C10 replay=<this file> (reproduced)");
            1
        } else {
            println!("not reproduced");
            0
        };
    }
    let (Some(o), Some(f), Some(x)) = (c["output_hex"].as_str().and_then(unhex), c["written_as"].as_str().and_then(Fmt::parse), c["then_to"].as_str().and_then(Fmt::parse)) else {
        println!("bad replay case");
        return 2;
    };
    let scheds = [Sched::One, Sched::Fixed(3), Sched::Random(1, 16)];
    println!("output [{}] written as {}; detect(slice) = {}", preview(&o, 400), f.name(), show(&detect_slice(&o)));
    let mut acc = Acc::default();
    judge(&o, f, x, &scheds, &mut acc);
    if acc.vio_count > 0 {
        println!("VIOLATION property=C10 replay=<this file> (reproduced): {}", acc.violations[0].observed);
        1
    } else {
        println!("not reproduced");
        0
    }
}

//! SplitMix64: a tiny deterministic PRNG. Every random choice in the harness
//! derives from VERIF_SEED through this.

#[derive(Clone, Debug)]
pub struct Rng(pub u64);

impl Rng {
    pub fn new(seed: u64) -> Rng {
        Rng(seed ^ 0x9E37_79B9_7F4A_7C15)
    }
    /// A sub-stream for (seed, stream id, case index).
    pub fn derive(seed: u64, stream: u64, idx: u64) -> Rng {
        let mut r = Rng(seed.wrapping_mul(0xD6E8_FEB8_6659_FD93) ^ stream.wrapping_mul(0xA076_1D64_78BD_642F) ^ idx.wrapping_mul(0xE703_7ED1_A0B4_28DB));
        r.next();
        r.next();
        r
    }
    pub fn next(&mut self) -> u64 {
        self.0 = self.0.wrapping_add(0x9E37_79B9_7F4A_7C15);
        let mut z = self.0;
        z = (z ^ (z >> 30)).wrapping_mul(0xBF58_476D_1CE4_E5B9);
        z = (z ^ (z >> 27)).wrapping_mul(0x94D0_49BB_1331_11EB);
        z ^ (z >> 31)
    }
    /// Uniform in 0..n (n > 0).
    pub fn below(&mut self, n: usize) -> usize {
        if n <= 1 {
            return 0;
        }
        (self.next() % (n as u64)) as usize
    }
    pub fn range(&mut self, lo: usize, hi_incl: usize) -> usize {
        lo + self.below(hi_incl - lo + 1)
    }
    pub fn chance(&mut self, num: usize, den: usize) -> bool {
        self.below(den) < num
    }
    pub fn pick<'a, T>(&mut self, xs: &'a [T]) -> &'a T {
        &xs[self.below(xs.len())]
    }
    pub fn bytes(&mut self, n: usize) -> Vec<u8> {
        (0..n).map(|_| self.next() as u8).collect()
    }
}

//! Running xt under observation: every call goes through catch_unwind and
//! returns a three-way verdict plus the bytes the writer accepted.

use std::cell::RefCell;
use std::panic::{self, AssertUnwindSafe};
use std::sync::Once;

use crate::fmts::Fmt;
use crate::mon::{MonWriter, ReadLog, Sched, SchedReader, WriteLog};

#[derive(Clone, Debug, PartialEq)]
pub enum Verdict {
    Ok,
    Err(String),
    Panic(String),
}

impl Verdict {
    pub fn class(&self) -> &'static str {
        match self {
            Verdict::Ok => "ok",
            Verdict::Err(_) => "err",
            Verdict::Panic(_) => "panic",
        }
    }
    pub fn is_ok(&self) -> bool {
        matches!(self, Verdict::Ok)
    }
    pub fn is_err(&self) -> bool {
        matches!(self, Verdict::Err(_))
    }
    pub fn is_panic(&self) -> bool {
        matches!(self, Verdict::Panic(_))
    }
    pub fn text(&self) -> &str {
        match self {
            Verdict::Ok => "",
            Verdict::Err(s) | Verdict::Panic(s) => s,
        }
    }
    pub fn show(&self) -> String {
        match self {
            Verdict::Ok => "Ok".into(),
            Verdict::Err(s) => format!("Err({s})"),
            Verdict::Panic(s) => format!("Panic({s})"),
        }
    }
}

#[derive(Clone, Debug)]
pub struct Outcome {
    pub verdict: Verdict,
    pub out: Vec<u8>,
}

thread_local! {
    static LAST_PANIC: RefCell<Option<String>> = RefCell::new(None);
}

static HOOK: Once = Once::new();

/// Installs a panic hook that records the message instead of printing it.
pub fn install_quiet_panic_hook() {
    HOOK.call_once(|| {
        panic::set_hook(Box::new(|info| {
            let msg = if let Some(s) = info.payload().downcast_ref::<&str>() {
                s.to_string()
            } else if let Some(s) = info.payload().downcast_ref::<String>() {
                s.clone()
            } else {
                "<non-string panic>".to_string()
            };
            let loc = info.location().map(|l| format!(" at {}:{}", l.file(), l.line())).unwrap_or_default();
            LAST_PANIC.with(|p| *p.borrow_mut() = Some(format!("{msg}{loc}")));
        }));
    });
}

/// Runs `f` under catch_unwind and maps the result to a verdict.
pub fn guarded<F: FnOnce() -> Result<(), xt::Error>>(f: F) -> Verdict {
    install_quiet_panic_hook();
    match panic::catch_unwind(AssertUnwindSafe(f)) {
        Ok(Ok(())) => Verdict::Ok,
        Ok(Err(e)) => Verdict::Err(e.to_string()),
        Err(_) => Verdict::Panic(LAST_PANIC.with(|p| p.borrow_mut().take()).unwrap_or_else(|| "<panic>".into())),
    }
}

/// Generic guard for harness-side code that calls third-party crates.
pub fn guarded_any<T, F: FnOnce() -> T>(f: F) -> Result<T, String> {
    install_quiet_panic_hook();
    match panic::catch_unwind(AssertUnwindSafe(f)) {
        Ok(v) => Ok(v),
        Err(_) => Err(LAST_PANIC.with(|p| p.borrow_mut().take()).unwrap_or_else(|| "<panic>".into())),
    }
}

pub fn run_slice(input: &[u8], from: Option<Fmt>, to: Fmt) -> Outcome {
    let mut out = Vec::new();
    let verdict = guarded(|| xt::translate_slice(input, from.map(Fmt::xt), to.xt(), &mut out));
    Outcome { verdict, out }
}

pub fn run_reader(input: &[u8], sched: &Sched, from: Option<Fmt>, to: Fmt) -> (Outcome, ReadLog) {
    let mut out = Vec::new();
    let r = SchedReader::new(input, sched.clone());
    let log = r.log_handle();
    let verdict = guarded(|| xt::translate_reader(r, from.map(Fmt::xt), to.xt(), &mut out));
    let l = log.borrow().clone();
    (Outcome { verdict, out }, l)
}

/// How one input is supplied.
#[derive(Clone, Debug, PartialEq)]
pub enum Mode {
    Slice,
    Reader(Sched),
}

impl Mode {
    pub fn describe(&self) -> String {
        match self {
            Mode::Slice => "slice".into(),
            Mode::Reader(s) => format!("reader:{}", s.describe()),
        }
    }
    pub fn parse(s: &str) -> Option<Mode> {
        if s == "slice" {
            Some(Mode::Slice)
        } else {
            s.strip_prefix("reader:").and_then(Sched::parse).map(Mode::Reader)
        }
    }
}

pub fn run_mode(input: &[u8], mode: &Mode, from: Option<Fmt>, to: Fmt) -> Outcome {
    match mode {
        Mode::Slice => run_slice(input, from, to),
        Mode::Reader(s) => run_reader(input, s, from, to).0,
    }
}

/// Inputs of each format that a Translator is "warmed up" with (all under detection) before the call
/// under observation: whatever it remembers of them must not change what it does next.
pub const WARM_UPS: [(&str, &[u8]); 6] = [
    ("yaml", b"warm: up\nlist:\n  - 1\n  - two\n"),
    ("toml", b"[warm]\nup = 1\n"),
    ("json", b"{\"warm\": [\"up\", 1]}\n"),
    ("msgpack", b"\x82\xa4warm\xa2up\xa1n\x01"),
    ("yaml_flow", b"[warm, up]\n"),
    ("undetectable", b"\x01\x02 no known format {{{\n"),
];

/// Translates `input` on a Translator that has already translated the `warm` inputs (without a source
/// format). Returns the verdict of that last call and the bytes IT wrote.
pub fn run_after(warm: &[&[u8]], input: &[u8], mode: &Mode, from: Option<Fmt>, to: Fmt) -> Outcome {
    let writer = MonWriter::new();
    let wlog = writer.log_handle();
    let mut tr = xt::Translator::new(writer, to.xt());
    for w in warm {
        let _ = guarded(|| tr.translate_slice(w, None));
    }
    let before = wlog.borrow().bytes.len();
    let verdict = guarded(|| match mode {
        Mode::Slice => tr.translate_slice(input, from.map(Fmt::xt)),
        Mode::Reader(s) => tr.translate_reader(SchedReader::new(input, s.clone()), from.map(Fmt::xt)),
    });
    drop(tr);
    let out = wlog.borrow().bytes[before..].to_vec();
    Outcome { verdict, out }
}

/// One translate call in a history on a single Translator.
#[derive(Clone, Debug)]
pub struct Call {
    pub input: Vec<u8>,
    pub from: Option<Fmt>,
    pub mode: Mode,
}

/// Runs a history of calls on one Translator over a monitoring writer.
/// Returns the verdict of every call and the writer's log. Stops at the first
/// panic (the translator may be in an arbitrary state).
pub fn run_history(calls: &[Call], to: Fmt, writer: MonWriter, stop_on_err: bool) -> (Vec<Verdict>, WriteLog) {
    let wlog = writer.log_handle();
    let mut verdicts = Vec::with_capacity(calls.len());
    {
        let mut tr = xt::Translator::new(writer, to.xt());
        for c in calls {
            let v = guarded(|| match &c.mode {
                Mode::Slice => tr.translate_slice(&c.input, c.from.map(Fmt::xt)),
                Mode::Reader(s) => tr.translate_reader(SchedReader::new(&c.input, s.clone()), c.from.map(Fmt::xt)),
            });
            let stop = v.is_panic() || (stop_on_err && !v.is_ok());
            verdicts.push(v);
            if stop {
                break;
            }
        }
    }
    let l = wlog.borrow().clone();
    (verdicts, l)
}

/// Thread-local vhit counters of xt (feature `verif`), as (name, count) pairs.
pub fn hits() -> Vec<(&'static str, u64)> {
    xt::verif::COUNTER_NAMES.iter().copied().zip(xt::verif::hits()).collect()
}

pub fn is_prefix(a: &[u8], b: &[u8]) -> bool {
    a.len() <= b.len() && &b[..a.len()] == a
}

pub fn prefix_comparable(a: &[u8], b: &[u8]) -> bool {
    is_prefix(a, b) || is_prefix(b, a)
}

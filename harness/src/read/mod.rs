//! Independent readers: bytes of each format -> harness model values. None of
//! them uses xt's transcoder; JSON and MessagePack are hand-written, YAML is
//! built on raw libyaml events with the harness's own YAML 1.2 core-schema
//! resolution, TOML walks toml_edit's document model.

pub mod json;
pub mod msgpack;
pub mod toml;
pub mod yaml;

use crate::fmts::Fmt;
use crate::model::Val;

/// Reads a complete output stream in format `f` into its documents, enforcing
/// the framing rules of C03 (one line per JSON text, one `---`-introduced YAML
/// document each, back-to-back MessagePack values with nothing left over, a
/// single TOML document).
pub fn read_stream(f: Fmt, b: &[u8]) -> Result<Vec<Val>, String> {
    match f {
        Fmt::Json => json::read_lines(b),
        Fmt::Msgpack => msgpack::read_all(b),
        Fmt::Yaml => yaml::read_xt_output(b),
        Fmt::Toml => {
            if b.is_empty() {
                Ok(vec![])
            } else {
                toml::read(b).map(|v| vec![v])
            }
        }
    }
}

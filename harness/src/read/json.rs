//! Hand-written strict RFC 8259 reader.
//!
//! Numbers: a literal without fraction and exponent is an integer (exact, via
//! i128); every other literal is a float obtained with Rust's correctly rounded
//! `str::parse::<f64>` — deliberately unrelated to serde_json's number code.

use crate::model::Val;

pub const MAX_DEPTH: usize = 2000;

struct P<'a> {
    b: &'a [u8],
    i: usize,
}

fn err<T>(msg: &str, at: usize) -> Result<T, String> {
    Err(format!("json reader: {msg} at byte {at}"))
}

impl<'a> P<'a> {
    fn ws(&mut self) {
        while self.i < self.b.len() && matches!(self.b[self.i], b' ' | b'\t' | b'\n' | b'\r') {
            self.i += 1;
        }
    }
    fn value(&mut self, depth: usize) -> Result<Val, String> {
        if depth > MAX_DEPTH {
            return err("too deep", self.i);
        }
        self.ws();
        let Some(&c) = self.b.get(self.i) else { return err("unexpected end", self.i) };
        match c {
            b'{' => {
                self.i += 1;
                let mut m = vec![];
                self.ws();
                if self.b.get(self.i) == Some(&b'}') {
                    self.i += 1;
                    return Ok(Val::Map(m));
                }
                loop {
                    self.ws();
                    if self.b.get(self.i) != Some(&b'"') {
                        return err("expected string key", self.i);
                    }
                    let k = self.string()?;
                    self.ws();
                    if self.b.get(self.i) != Some(&b':') {
                        return err("expected ':'", self.i);
                    }
                    self.i += 1;
                    let v = self.value(depth + 1)?;
                    m.push((Val::Str(k), v));
                    self.ws();
                    match self.b.get(self.i) {
                        Some(b',') => self.i += 1,
                        Some(b'}') => {
                            self.i += 1;
                            return Ok(Val::Map(m));
                        }
                        _ => return err("expected ',' or '}'", self.i),
                    }
                }
            }
            b'[' => {
                self.i += 1;
                let mut v = vec![];
                self.ws();
                if self.b.get(self.i) == Some(&b']') {
                    self.i += 1;
                    return Ok(Val::Seq(v));
                }
                loop {
                    v.push(self.value(depth + 1)?);
                    self.ws();
                    match self.b.get(self.i) {
                        Some(b',') => self.i += 1,
                        Some(b']') => {
                            self.i += 1;
                            return Ok(Val::Seq(v));
                        }
                        _ => return err("expected ',' or ']'", self.i),
                    }
                }
            }
            b'"' => Ok(Val::Str(self.string()?)),
            b't' => self.lit(b"true", Val::Bool(true)),
            b'f' => self.lit(b"false", Val::Bool(false)),
            b'n' => self.lit(b"null", Val::Null),
            b'-' | b'0'..=b'9' => self.number(),
            _ => err("unexpected byte", self.i),
        }
    }
    fn lit(&mut self, w: &[u8], v: Val) -> Result<Val, String> {
        if self.b[self.i..].starts_with(w) {
            self.i += w.len();
            Ok(v)
        } else {
            err("bad literal", self.i)
        }
    }
    fn number(&mut self) -> Result<Val, String> {
        let s = self.i;
        if self.b.get(self.i) == Some(&b'-') {
            self.i += 1;
        }
        match self.b.get(self.i) {
            Some(b'0') => self.i += 1,
            Some(b'1'..=b'9') => {
                while matches!(self.b.get(self.i), Some(b'0'..=b'9')) {
                    self.i += 1;
                }
            }
            _ => return err("bad number", self.i),
        }
        let mut is_int = true;
        if self.b.get(self.i) == Some(&b'.') {
            is_int = false;
            self.i += 1;
            if !matches!(self.b.get(self.i), Some(b'0'..=b'9')) {
                return err("bad fraction", self.i);
            }
            while matches!(self.b.get(self.i), Some(b'0'..=b'9')) {
                self.i += 1;
            }
        }
        if matches!(self.b.get(self.i), Some(b'e' | b'E')) {
            is_int = false;
            self.i += 1;
            if matches!(self.b.get(self.i), Some(b'+' | b'-')) {
                self.i += 1;
            }
            if !matches!(self.b.get(self.i), Some(b'0'..=b'9')) {
                return err("bad exponent", self.i);
            }
            while matches!(self.b.get(self.i), Some(b'0'..=b'9')) {
                self.i += 1;
            }
        }
        let text = std::str::from_utf8(&self.b[s..self.i]).unwrap();
        if is_int && text != "-0" {
            // ("-0" keeps its sign only as a floating-point zero: read it as one, as JSON readers that care do)
            if let Ok(i) = text.parse::<i128>() {
                return Ok(Val::Int(i));
            }
        }
        match text.parse::<f64>() {
            Ok(f) => Ok(Val::Float(f.to_bits())),
            Err(_) => err("unparsable number", s),
        }
    }
    fn hex4(&mut self) -> Result<u32, String> {
        if self.i + 4 > self.b.len() {
            return err("short \\u escape", self.i);
        }
        let mut v = 0u32;
        for k in 0..4 {
            let c = self.b[self.i + k];
            let d = match c {
                b'0'..=b'9' => c - b'0',
                b'a'..=b'f' => c - b'a' + 10,
                b'A'..=b'F' => c - b'A' + 10,
                _ => return err("bad hex digit", self.i + k),
            };
            v = v * 16 + d as u32;
        }
        self.i += 4;
        Ok(v)
    }
    fn string(&mut self) -> Result<String, String> {
        // self.b[self.i] == '"'
        self.i += 1;
        let mut out: Vec<u8> = vec![];
        loop {
            let Some(&c) = self.b.get(self.i) else { return err("unterminated string", self.i) };
            match c {
                b'"' => {
                    self.i += 1;
                    return String::from_utf8(out).or_else(|_| err("invalid UTF-8 in string", self.i));
                }
                b'\\' => {
                    self.i += 1;
                    let Some(&e) = self.b.get(self.i) else { return err("unterminated escape", self.i) };
                    self.i += 1;
                    let ch = match e {
                        b'"' => '"',
                        b'\\' => '\\',
                        b'/' => '/',
                        b'b' => '\u{8}',
                        b'f' => '\u{c}',
                        b'n' => '\n',
                        b'r' => '\r',
                        b't' => '\t',
                        b'u' => {
                            let u = self.hex4()?;
                            if (0xD800..0xDC00).contains(&u) {
                                if self.b.get(self.i) == Some(&b'\\') && self.b.get(self.i + 1) == Some(&b'u') {
                                    self.i += 2;
                                    let l = self.hex4()?;
                                    if !(0xDC00..0xE000).contains(&l) {
                                        return err("unpaired surrogate", self.i);
                                    }
                                    char::from_u32(0x10000 + ((u - 0xD800) << 10) + (l - 0xDC00)).unwrap()
                                } else {
                                    return err("unpaired surrogate", self.i);
                                }
                            } else if (0xDC00..0xE000).contains(&u) {
                                return err("unpaired surrogate", self.i);
                            } else {
                                char::from_u32(u).unwrap()
                            }
                        }
                        _ => return err("bad escape", self.i - 1),
                    };
                    let mut tmp = [0u8; 4];
                    out.extend_from_slice(ch.encode_utf8(&mut tmp).as_bytes());
                }
                0..=0x1f => return err("raw control character in string", self.i),
                _ => {
                    out.push(c);
                    self.i += 1;
                }
            }
        }
    }
}

/// Parses exactly one JSON text (surrounding whitespace allowed).
pub fn read_one(b: &[u8]) -> Result<Val, String> {
    if std::str::from_utf8(b).is_err() {
        return err("input is not UTF-8", 0);
    }
    let mut p = P { b, i: 0 };
    let v = p.value(0)?;
    p.ws();
    if p.i != b.len() {
        return err("trailing bytes", p.i);
    }
    Ok(v)
}

/// Parses a whitespace-separated sequence of JSON texts, returning each value
/// with the offset just past it.
pub fn read_many(b: &[u8]) -> Result<Vec<(Val, usize)>, String> {
    if std::str::from_utf8(b).is_err() {
        return err("input is not UTF-8", 0);
    }
    let mut p = P { b, i: 0 };
    let mut out = vec![];
    loop {
        p.ws();
        if p.i >= b.len() {
            return Ok(out);
        }
        let v = p.value(0)?;
        out.push((v, p.i));
    }
}

/// xt's JSON output framing: every document is one line: a JSON text without
/// any raw newline, immediately followed by exactly one '\n'.
pub fn read_lines(b: &[u8]) -> Result<Vec<Val>, String> {
    let mut out = vec![];
    let mut start = 0;
    while start < b.len() {
        let Some(nl) = b[start..].iter().position(|&c| c == b'\n') else { return err("last line not newline-terminated", start) };
        let line = &b[start..start + nl];
        if line.is_empty() {
            return err("empty line in JSON output", start);
        }
        let mut p = P { b: line, i: 0 };
        if std::str::from_utf8(line).is_err() {
            return err("line is not UTF-8", start);
        }
        let v = p.value(0).map_err(|e| format!("{e} (line starting at byte {start})"))?;
        if p.i != line.len() {
            return err("more than one JSON text, or trailing bytes, on a line", start + p.i);
        }
        out.push(v);
        start += nl + 1;
    }
    Ok(out)
}

/// True if a complete JSON value can be parsed at the start of `b` (used by the
/// C10 TOML exception predicate).
pub fn value_at_start(b: &[u8]) -> bool {
    let s = match std::str::from_utf8(b) {
        Ok(_) => b,
        Err(e) => &b[..e.valid_up_to()],
    };
    let mut p = P { b: s, i: 0 };
    p.value(0).is_ok()
}

#[cfg(test)]
mod tests {
    use super::*;
    #[test]
    fn basics() {
        assert_eq!(read_one(b" [1, 1.0, \"a\\u00e9\\ud83d\\ude00\", {\"k\": null}] ").unwrap(), Val::Seq(vec![Val::Int(1), Val::f(1.0), Val::s("aé😀"), Val::Map(vec![(Val::s("k"), Val::Null)])]));
        assert!(read_one(b"[1,]").is_err());
        assert!(read_one(b"01").is_err());
        assert!(read_one(b"\"\\ud800\"").is_err());
        assert_eq!(read_lines(b"1\n[2]\n").unwrap().len(), 2);
        assert!(read_lines(b"1 2\n").is_err());
        assert!(read_lines(b"1").is_err());
        assert_eq!(read_one(b"18446744073709551615").unwrap(), Val::Int(u64::MAX as i128));
        assert_eq!(read_one(b"1e2").unwrap(), Val::f(100.0));
    }
}

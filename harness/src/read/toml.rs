//! TOML reader over toml_edit's document model, walked in document order.
//! (toml_edit keeps insertion order regardless of the `toml` crate's
//! `preserve_order` feature, so this reader does not depend on xt's features.)

use toml_edit::{DocumentMut, Item, Value};

use crate::model::Val;

fn value(v: &Value) -> Val {
    match v {
        Value::String(s) => Val::Str(s.value().clone()),
        Value::Integer(i) => Val::Int(*i.value() as i128),
        Value::Float(f) => Val::Float(f.value().to_bits()),
        Value::Boolean(b) => Val::Bool(*b.value()),
        Value::Datetime(d) => Val::Datetime(d.value().to_string()),
        Value::Array(a) => Val::Seq(a.iter().map(value).collect()),
        Value::InlineTable(t) => Val::Map(t.iter().map(|(k, v)| (Val::Str(k.to_string()), value(v))).collect()),
    }
}

fn item(i: &Item) -> Option<Val> {
    match i {
        Item::None => None,
        Item::Value(v) => Some(value(v)),
        Item::Table(t) => Some(Val::Map(t.iter().filter_map(|(k, v)| item(v).map(|v| (Val::Str(k.to_string()), v))).collect())),
        Item::ArrayOfTables(a) => Some(Val::Seq(a.iter().map(|t| Val::Map(t.iter().filter_map(|(k, v)| item(v).map(|v| (Val::Str(k.to_string()), v))).collect())).collect())),
    }
}

/// Parses exactly one TOML document.
pub fn read(b: &[u8]) -> Result<Val, String> {
    let s = std::str::from_utf8(b).map_err(|_| "toml reader: not UTF-8".to_string())?;
    let doc: DocumentMut = s.parse().map_err(|e: toml_edit::TomlError| format!("toml reader: {}", e.message()))?;
    Ok(Val::Map(doc.as_table().iter().filter_map(|(k, v)| item(v).map(|v| (Val::Str(k.to_string()), v))).collect()))
}

//! Hand-written MessagePack decoder.

use crate::model::Val;

pub const MAX_DEPTH: usize = 5000;

fn need(b: &[u8], i: usize, n: usize) -> Result<&[u8], String> {
    b.get(i..i.checked_add(n).ok_or("overflow")?).ok_or_else(|| format!("msgpack reader: truncated at byte {i} (need {n})"))
}

fn be(b: &[u8]) -> u64 {
    b.iter().fold(0u64, |a, &x| (a << 8) | x as u64)
}

/// Decodes one value at offset `i`; returns the value and the offset after it.
pub fn read_at(b: &[u8], i: usize, depth: usize) -> Result<(Val, usize), String> {
    if depth > MAX_DEPTH {
        return Err("msgpack reader: too deep".into());
    }
    let m = *b.get(i).ok_or_else(|| format!("msgpack reader: truncated at byte {i}"))?;
    let i1 = i + 1;
    let str_val = |start: usize, len: usize| -> Result<(Val, usize), String> {
        let raw = need(b, start, len)?;
        match std::str::from_utf8(raw) {
            Ok(s) => Ok((Val::Str(s.to_string()), start + len)),
            Err(_) => Err(format!("msgpack reader: str is not UTF-8 at byte {start}")),
        }
    };
    let seq = |mut at: usize, n: usize| -> Result<(Val, usize), String> {
        let mut v = Vec::with_capacity(n.min(1 << 16));
        for _ in 0..n {
            let (x, nx) = read_at(b, at, depth + 1)?;
            v.push(x);
            at = nx;
        }
        Ok((Val::Seq(v), at))
    };
    let map = |mut at: usize, n: usize| -> Result<(Val, usize), String> {
        let mut v = Vec::with_capacity(n.min(1 << 16));
        for _ in 0..n {
            let (k, nk) = read_at(b, at, depth + 1)?;
            let (x, nx) = read_at(b, nk, depth + 1)?;
            v.push((k, x));
            at = nx;
        }
        Ok((Val::Map(v), at))
    };
    match m {
        0x00..=0x7f => Ok((Val::Int(m as i128), i1)),
        0x80..=0x8f => map(i1, (m & 0x0f) as usize),
        0x90..=0x9f => seq(i1, (m & 0x0f) as usize),
        0xa0..=0xbf => str_val(i1, (m & 0x1f) as usize),
        0xc0 => Ok((Val::Null, i1)),
        0xc1 => Err(format!("msgpack reader: reserved marker 0xc1 at byte {i}")),
        0xc2 => Ok((Val::Bool(false), i1)),
        0xc3 => Ok((Val::Bool(true), i1)),
        0xc4 | 0xc5 | 0xc6 => {
            let w = 1usize << (m - 0xc4);
            let len = be(need(b, i1, w)?) as usize;
            Ok((Val::Bytes(need(b, i1 + w, len)?.to_vec()), i1 + w + len))
        }
        0xc7 | 0xc8 | 0xc9 => {
            let w = 1usize << (m - 0xc7);
            let len = be(need(b, i1, w)?) as usize;
            let t = need(b, i1 + w, 1)?[0] as i8;
            Ok((Val::Ext(t, need(b, i1 + w + 1, len)?.to_vec()), i1 + w + 1 + len))
        }
        0xca => Ok((Val::F32(be(need(b, i1, 4)?) as u32), i1 + 4)),
        0xcb => Ok((Val::Float(be(need(b, i1, 8)?)), i1 + 8)),
        0xcc => Ok((Val::Int(be(need(b, i1, 1)?) as i128), i1 + 1)),
        0xcd => Ok((Val::Int(be(need(b, i1, 2)?) as i128), i1 + 2)),
        0xce => Ok((Val::Int(be(need(b, i1, 4)?) as i128), i1 + 4)),
        0xcf => Ok((Val::Int(be(need(b, i1, 8)?) as i128), i1 + 8)),
        0xd0 => Ok((Val::Int(need(b, i1, 1)?[0] as i8 as i128), i1 + 1)),
        0xd1 => Ok((Val::Int(be(need(b, i1, 2)?) as u16 as i16 as i128), i1 + 2)),
        0xd2 => Ok((Val::Int(be(need(b, i1, 4)?) as u32 as i32 as i128), i1 + 4)),
        0xd3 => Ok((Val::Int(be(need(b, i1, 8)?) as i64 as i128), i1 + 8)),
        0xd4..=0xd8 => {
            let len = 1usize << (m - 0xd4);
            let t = need(b, i1, 1)?[0] as i8;
            Ok((Val::Ext(t, need(b, i1 + 1, len)?.to_vec()), i1 + 1 + len))
        }
        0xd9 | 0xda | 0xdb => {
            let w = 1usize << (m - 0xd9);
            let len = be(need(b, i1, w)?) as usize;
            str_val(i1 + w, len)
        }
        0xdc => seq(i1 + 2, be(need(b, i1, 2)?) as usize),
        0xdd => seq(i1 + 4, be(need(b, i1, 4)?) as usize),
        0xde => map(i1 + 2, be(need(b, i1, 2)?) as usize),
        0xdf => map(i1 + 4, be(need(b, i1, 4)?) as usize),
        0xe0..=0xff => Ok((Val::Int(m as i8 as i128), i1)),
    }
}

/// Decodes back-to-back values until the input is exhausted; nothing may be
/// left over.
pub fn read_all(b: &[u8]) -> Result<Vec<Val>, String> {
    let mut out = vec![];
    let mut i = 0;
    while i < b.len() {
        let (v, n) = read_at(b, i, 0)?;
        out.push(v);
        i = n;
    }
    Ok(out)
}

/// The size of the first value, by the harness's decoder (for C18).
pub fn first_value_size(b: &[u8]) -> Result<usize, String> {
    read_at(b, 0, 0).map(|(_, n)| n)
}

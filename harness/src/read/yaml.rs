//! YAML reader built directly on libyaml parse events (unsafe-libyaml) with the
//! harness's own YAML 1.2 core-schema resolution of plain scalars. It shares
//! libyaml's scanner with xt (stated in the trusted base) but none of
//! serde_yaml's resolution or emission code.

use std::collections::HashMap;
use std::ffi::CStr;
use std::mem::MaybeUninit;

use unsafe_libyaml as y;

use crate::model::Val;

#[derive(Debug, Clone)]
pub struct Doc {
    pub val: Val,
    pub explicit_start: bool,
    pub explicit_end: bool,
}

#[derive(Debug)]
enum Ev {
    DocStart(bool),
    DocEnd(bool),
    Alias(String),
    Scalar { anchor: Option<String>, tag: Option<String>, value: Vec<u8>, plain: bool },
    SeqStart { anchor: Option<String>, tag: Option<String> },
    SeqEnd,
    MapStart { anchor: Option<String>, tag: Option<String> },
    MapEnd,
    StreamEnd,
    Other,
}

unsafe fn cstr(p: *const u8) -> Option<String> {
    if p.is_null() {
        None
    } else {
        Some(CStr::from_ptr(p.cast()).to_string_lossy().into_owned())
    }
}

/// All parse events of a UTF-8 YAML stream, or the libyaml error text.
fn events(b: &[u8]) -> Result<Vec<Ev>, String> {
    let mut out = vec![];
    unsafe {
        let mut parser = Box::new(MaybeUninit::<y::yaml_parser_t>::uninit());
        if y::yaml_parser_initialize(parser.as_mut_ptr()).fail {
            return Err("yaml reader: parser init failed".into());
        }
        let p = parser.as_mut_ptr();
        y::yaml_parser_set_encoding(p, y::yaml_encoding_t::YAML_UTF8_ENCODING);
        y::yaml_parser_set_input_string(p, b.as_ptr(), b.len() as u64);
        let mut result = Ok(());
        loop {
            let mut event = MaybeUninit::<y::yaml_event_t>::uninit();
            if y::yaml_parser_parse(p, event.as_mut_ptr()).fail {
                let pr: &y::yaml_parser_t = &*p;
                let problem = cstr(pr.problem.cast()).unwrap_or_else(|| "unknown".into());
                result = Err(format!("yaml reader: {} at line {} column {}", problem, pr.problem_mark.line + 1, pr.problem_mark.column + 1));
                break;
            }
            let e = event.assume_init_mut();
            use y::yaml_event_type_t::*;
            let ev = match e.type_ {
                YAML_DOCUMENT_START_EVENT => Ev::DocStart(!e.data.document_start.implicit),
                YAML_DOCUMENT_END_EVENT => Ev::DocEnd(!e.data.document_end.implicit),
                YAML_ALIAS_EVENT => Ev::Alias(cstr(e.data.alias.anchor).unwrap_or_default()),
                YAML_SCALAR_EVENT => {
                    let s = &e.data.scalar;
                    let value = std::slice::from_raw_parts(s.value, s.length as usize).to_vec();
                    Ev::Scalar { anchor: cstr(s.anchor), tag: cstr(s.tag), value, plain: s.style == y::yaml_scalar_style_t::YAML_PLAIN_SCALAR_STYLE }
                }
                YAML_SEQUENCE_START_EVENT => Ev::SeqStart { anchor: cstr(e.data.sequence_start.anchor), tag: cstr(e.data.sequence_start.tag) },
                YAML_SEQUENCE_END_EVENT => Ev::SeqEnd,
                YAML_MAPPING_START_EVENT => Ev::MapStart { anchor: cstr(e.data.mapping_start.anchor), tag: cstr(e.data.mapping_start.tag) },
                YAML_MAPPING_END_EVENT => Ev::MapEnd,
                YAML_STREAM_END_EVENT => Ev::StreamEnd,
                _ => Ev::Other,
            };
            y::yaml_event_delete(e);
            let end = matches!(ev, Ev::StreamEnd);
            out.push(ev);
            if end {
                break;
            }
        }
        y::yaml_parser_delete(p);
        result?;
    }
    Ok(out)
}

fn all_digits(s: &str) -> bool {
    !s.is_empty() && s.bytes().all(|c| c.is_ascii_digit())
}

/// YAML 1.2.2 core schema (section 10.3.2) resolution of a plain scalar.
pub fn resolve_plain(s: &str) -> Val {
    match s {
        "" | "~" | "null" | "Null" | "NULL" => return Val::Null,
        "true" | "True" | "TRUE" => return Val::Bool(true),
        "false" | "False" | "FALSE" => return Val::Bool(false),
        ".nan" | ".NaN" | ".NAN" => return Val::Float(f64::NAN.to_bits()),
        ".inf" | ".Inf" | ".INF" | "+.inf" | "+.Inf" | "+.INF" => return Val::Float(f64::INFINITY.to_bits()),
        "-.inf" | "-.Inf" | "-.INF" => return Val::Float(f64::NEG_INFINITY.to_bits()),
        _ => {}
    }
    // int: [-+]?[0-9]+ | 0o[0-7]+ | 0x[0-9a-fA-F]+
    let unsigned = s.strip_prefix(['-', '+']).unwrap_or(s);
    if all_digits(unsigned) {
        let neg = s.starts_with('-');
        if let Ok(i) = unsigned.parse::<i128>() {
            return Val::Int(if neg { -i } else { i });
        }
        if let Ok(f) = s.trim_start_matches('+').parse::<f64>() {
            return Val::Float(f.to_bits());
        }
    }
    if let Some(o) = s.strip_prefix("0o") {
        if !o.is_empty() && o.bytes().all(|c| (b'0'..=b'7').contains(&c)) {
            if let Ok(i) = i128::from_str_radix(o, 8) {
                return Val::Int(i);
            }
        }
    }
    if let Some(h) = s.strip_prefix("0x") {
        if !h.is_empty() && h.bytes().all(|c| c.is_ascii_hexdigit()) {
            if let Ok(i) = i128::from_str_radix(h, 16) {
                return Val::Int(i);
            }
        }
    }
    // float: [-+]? ( \. [0-9]+ | [0-9]+ ( \. [0-9]* )? ) ( [eE] [-+]? [0-9]+ )?
    if is_core_float(unsigned) {
        if let Ok(f) = s.trim_start_matches('+').parse::<f64>() {
            return Val::Float(f.to_bits());
        }
    }
    Val::Str(s.to_string())
}

fn is_core_float(u: &str) -> bool {
    let (mant, exp) = match u.find(['e', 'E']) {
        Some(p) => (&u[..p], Some(&u[p + 1..])),
        None => (u, None),
    };
    if let Some(e) = exp {
        let e = e.strip_prefix(['-', '+']).unwrap_or(e);
        if !all_digits(e) {
            return false;
        }
    }
    if let Some(frac) = mant.strip_prefix('.') {
        return all_digits(frac);
    }
    match mant.find('.') {
        Some(p) => all_digits(&mant[..p]) && (mant[p + 1..].is_empty() || all_digits(&mant[p + 1..])),
        None => all_digits(mant),
    }
}

fn resolve_scalar(tag: &Option<String>, value: &[u8], plain: bool) -> Result<Val, String> {
    let s = std::str::from_utf8(value).map_err(|_| "yaml reader: scalar is not UTF-8".to_string())?;
    match tag.as_deref() {
        None => Ok(if plain { resolve_plain(s) } else { Val::Str(s.to_string()) }),
        Some("!") | Some("tag:yaml.org,2002:str") => Ok(Val::Str(s.to_string())),
        Some("tag:yaml.org,2002:null") => Ok(Val::Null),
        Some("tag:yaml.org,2002:bool") | Some("tag:yaml.org,2002:int") | Some("tag:yaml.org,2002:float") => {
            let v = resolve_plain(s);
            let want = tag.as_deref().unwrap();
            let ok = match (&v, want) {
                (Val::Bool(_), "tag:yaml.org,2002:bool") | (Val::Int(_), "tag:yaml.org,2002:int") | (Val::Float(_), "tag:yaml.org,2002:float") => true,
                _ => false,
            };
            if ok {
                Ok(v)
            } else if let (Val::Int(i), "tag:yaml.org,2002:float") = (&v, want) {
                Ok(Val::Float((*i as f64).to_bits()))
            } else {
                Err(format!("yaml reader: scalar {s:?} does not match tag {want}"))
            }
        }
        Some(t) => Err(format!("yaml reader: unsupported tag {t}")),
    }
}

struct Builder<'a> {
    evs: &'a [Ev],
    i: usize,
    anchors: HashMap<String, Val>,
    nodes: usize,
}

const MAX_NODES: usize = 5_000_000;

impl<'a> Builder<'a> {
    fn node(&mut self, depth: usize) -> Result<Val, String> {
        if depth > 5000 {
            return Err("yaml reader: too deep".into());
        }
        self.nodes += 1;
        if self.nodes > MAX_NODES {
            return Err("yaml reader: too many nodes (alias expansion)".into());
        }
        let ev = self.evs.get(self.i).ok_or("yaml reader: events ended early")?;
        self.i += 1;
        match ev {
            Ev::Alias(a) => {
                let v = self.anchors.get(a).cloned().ok_or_else(|| format!("yaml reader: unknown anchor {a}"))?;
                self.nodes += v.nodes();
                Ok(v)
            }
            Ev::Scalar { anchor, tag, value, plain } => {
                let v = resolve_scalar(tag, value, *plain)?;
                if let Some(a) = anchor {
                    self.anchors.insert(a.clone(), v.clone());
                }
                Ok(v)
            }
            Ev::SeqStart { anchor, tag } => {
                if let Some(t) = tag {
                    if t != "tag:yaml.org,2002:seq" && t != "!" {
                        return Err(format!("yaml reader: unsupported tag {t}"));
                    }
                }
                let mut v = vec![];
                while !matches!(self.evs.get(self.i), Some(Ev::SeqEnd)) {
                    v.push(self.node(depth + 1)?);
                }
                self.i += 1;
                let v = Val::Seq(v);
                if let Some(a) = anchor {
                    self.anchors.insert(a.clone(), v.clone());
                }
                Ok(v)
            }
            Ev::MapStart { anchor, tag } => {
                if let Some(t) = tag {
                    if t != "tag:yaml.org,2002:map" && t != "!" {
                        return Err(format!("yaml reader: unsupported tag {t}"));
                    }
                }
                let mut m = vec![];
                while !matches!(self.evs.get(self.i), Some(Ev::MapEnd)) {
                    let k = self.node(depth + 1)?;
                    let v = self.node(depth + 1)?;
                    m.push((k, v));
                }
                self.i += 1;
                let v = Val::Map(m);
                if let Some(a) = anchor {
                    self.anchors.insert(a.clone(), v.clone());
                }
                Ok(v)
            }
            other => Err(format!("yaml reader: unexpected event {other:?}")),
        }
    }
}

/// Reads every document of a UTF-8 YAML stream.
pub fn read_docs(b: &[u8]) -> Result<Vec<Doc>, String> {
    let evs = events(b)?;
    let mut docs = vec![];
    let mut bld = Builder { evs: &evs, i: 0, anchors: HashMap::new(), nodes: 0 };
    while bld.i < evs.len() {
        match &evs[bld.i] {
            Ev::DocStart(explicit) => {
                bld.i += 1;
                bld.anchors.clear();
                let val = bld.node(0)?;
                let explicit_end = match evs.get(bld.i) {
                    Some(Ev::DocEnd(e)) => *e,
                    _ => return Err("yaml reader: missing document end".into()),
                };
                bld.i += 1;
                docs.push(Doc { val, explicit_start: *explicit, explicit_end });
            }
            Ev::StreamEnd => break,
            _ => bld.i += 1,
        }
    }
    Ok(docs)
}

/// xt's YAML output framing: every document is introduced by an explicit
/// `---` marker line.
pub fn read_xt_output(b: &[u8]) -> Result<Vec<Val>, String> {
    let docs = read_docs(b)?;
    let mut out = vec![];
    for (i, d) in docs.into_iter().enumerate() {
        if !d.explicit_start {
            return Err(format!("yaml reader: document {i} of the output is not introduced by '---'"));
        }
        out.push(d.val);
    }
    Ok(out)
}

/// First document's root kind and whether the stream up to the start of a
/// second document parses (for the C10 TOML exception predicate).
pub fn first_doc_is_collection(b: &[u8]) -> bool {
    // Parse events until the second DOCUMENT-START or STREAM-END; an error before
    // that point means the YAML trial cannot have accepted the text.
    match events_until_second_doc(b) {
        Some(is_coll) => is_coll,
        None => false,
    }
}

/// Offset of the first byte libyaml's reader would refuse while decoding
/// UTF-8: an invalid sequence or a character outside YAML's printable set.
pub fn first_forbidden_offset(b: &[u8]) -> Option<usize> {
    let mut i = 0;
    while i < b.len() {
        let rest = &b[i..];
        let valid = match std::str::from_utf8(rest) {
            Ok(s) => s,
            Err(e) if e.valid_up_to() > 0 => std::str::from_utf8(&rest[..e.valid_up_to()]).unwrap(),
            Err(_) => return Some(i),
        };
        for (off, c) in valid.char_indices() {
            let u = c as u32;
            let ok = u == 0x09 || u == 0x0A || u == 0x0D || (0x20..=0x7E).contains(&u) || u == 0x85 || (0xA0..=0xD7FF).contains(&u) || (0xE000..=0xFFFD).contains(&u) || (0x10000..=0x10FFFF).contains(&u);
            if !ok {
                return Some(i + off);
            }
        }
        i += valid.len();
        if i < b.len() {
            return Some(i);
        }
    }
    None
}

/// True if libyaml, given only `prefix`, sees a first document whose root is a
/// collection AND the start of a second document (the point at which xt's YAML
/// detection trial stops reading).
pub fn collection_then_second_document(prefix: &[u8]) -> bool {
    // events_until_second_doc stops at the second DOCUMENT-START; distinguish it
    // from "stream ended after one document" by counting explicit markers cheaply
    match events_until_second_doc_counted(prefix) {
        Some((is_coll, docs)) => is_coll && docs >= 2,
        None => false,
    }
}

fn events_until_second_doc(b: &[u8]) -> Option<bool> {
    events_until_second_doc_counted(b).map(|x| x.0)
}

fn events_until_second_doc_counted(b: &[u8]) -> Option<(bool, usize)> {
    // Re-run the raw parser, stopping early; errors after the stop point are not
    // looked at (the chunker does not look there either).
    let mut first_kind: Option<bool> = None;
    let mut docs = 0;
    unsafe {
        let mut parser = Box::new(MaybeUninit::<y::yaml_parser_t>::uninit());
        if y::yaml_parser_initialize(parser.as_mut_ptr()).fail {
            return None;
        }
        let p = parser.as_mut_ptr();
        y::yaml_parser_set_encoding(p, y::yaml_encoding_t::YAML_UTF8_ENCODING);
        y::yaml_parser_set_input_string(p, b.as_ptr(), b.len() as u64);
        let mut ok = true;
        loop {
            let mut event = MaybeUninit::<y::yaml_event_t>::uninit();
            if y::yaml_parser_parse(p, event.as_mut_ptr()).fail {
                ok = false;
                break;
            }
            let e = event.assume_init_mut();
            use y::yaml_event_type_t::*;
            let t = e.type_;
            y::yaml_event_delete(e);
            match t {
                YAML_DOCUMENT_START_EVENT => {
                    docs += 1;
                    if docs == 2 {
                        break;
                    }
                }
                YAML_SCALAR_EVENT | YAML_ALIAS_EVENT => {
                    if docs == 1 && first_kind.is_none() {
                        first_kind = Some(false);
                    }
                }
                YAML_SEQUENCE_START_EVENT | YAML_MAPPING_START_EVENT => {
                    if docs == 1 && first_kind.is_none() {
                        first_kind = Some(true);
                    }
                }
                YAML_STREAM_END_EVENT => break,
                _ => {}
            }
        }
        y::yaml_parser_delete(p);
        if !ok {
            return None;
        }
    }
    Some((first_kind.unwrap_or(false), docs))
}

#[cfg(test)]
mod tests {
    use super::*;
    #[test]
    fn core_schema() {
        assert_eq!(resolve_plain("1"), Val::Int(1));
        assert_eq!(resolve_plain("+1"), Val::Int(1));
        assert_eq!(resolve_plain("-0"), Val::Int(0));
        assert_eq!(resolve_plain("0x1F"), Val::Int(31));
        assert_eq!(resolve_plain("0o7"), Val::Int(7));
        assert_eq!(resolve_plain("1e3"), Val::f(1000.0));
        assert_eq!(resolve_plain("1."), Val::f(1.0));
        assert_eq!(resolve_plain(".5"), Val::f(0.5));
        assert_eq!(resolve_plain("1_000"), Val::s("1_000"));
        assert_eq!(resolve_plain("yes"), Val::s("yes"));
        assert_eq!(resolve_plain("~"), Val::Null);
        assert_eq!(resolve_plain("0b1"), Val::s("0b1"));
        assert_eq!(resolve_plain("1e"), Val::s("1e"));
        assert_eq!(resolve_plain("."), Val::s("."));
        assert_eq!(resolve_plain("-"), Val::s("-"));
    }
    #[test]
    fn docs() {
        let d = read_docs(b"---\na: [1, '2', &x z, *x]\n---\n- ~\n").unwrap();
        assert_eq!(d.len(), 2);
        assert_eq!(d[0].val, Val::Map(vec![(Val::s("a"), Val::Seq(vec![Val::Int(1), Val::s("2"), Val::s("z"), Val::s("z")]))]));
        assert_eq!(read_xt_output(b"---\n1\n---\na\n").unwrap().len(), 2);
        assert!(read_xt_output(b"a: 1\n").is_err());
        assert!(first_doc_is_collection(b"[a]\n"));
        assert!(!first_doc_is_collection(b"a = 1\n"));
    }
}

//! C11 — errors name their true cause.
//!
//! (a) input side: one planted syntax error at every byte position of small
//! valid documents; the error text must be the same for the three streaming
//! targets, must not mention "translation failed", and for text formats must
//! carry a position. (b) output side: one unrepresentable node planted at a
//! random path; the text must contain the reason the target serializer itself
//! gives when handed the construct directly. (c) output side: a writer failing
//! at EVERY byte of the output; the text must contain the serializer's own
//! wording for that failure or the injected I/O error's text.

use serde::ser::{Serialize, SerializeMap, SerializeSeq, Serializer};
use serde_json::{json, Value};

use crate::ev::{self, Acc, Ctx, Finish, Violation};
use crate::fmts::{self, Fmt, ALL, STREAMING};
use crate::gen::{gen_doc, tomlify, Classes, GenOpts};
use crate::model::{hex, preview, unhex, Val};
use crate::mon::{FaultStyle, MonWriter, Sched, SchedReader, WRITE_MARK};
use crate::rng::Rng;
use crate::run::{guarded, guarded_any, run_mode, run_slice, Mode, Verdict};
use crate::spell::{spell, Feats};

pub const TF: &str = "translation failed";

// ----- the model as a serde value, to hand constructs directly to the target crates -----

pub struct SerVal<'a>(pub &'a Val);

impl<'a> Serialize for SerVal<'a> {
    fn serialize<S: Serializer>(&self, s: S) -> Result<S::Ok, S::Error> {
        match self.0 {
            Val::Null => s.serialize_unit(),
            Val::Bool(b) => s.serialize_bool(*b),
            Val::Int(i) => {
                if *i >= 0 && *i <= u64::MAX as i128 {
                    s.serialize_u64(*i as u64)
                } else if *i < 0 && *i >= i64::MIN as i128 {
                    s.serialize_i64(*i as i64)
                } else if *i >= 0 {
                    s.serialize_u128(*i as u128)
                } else {
                    s.serialize_i128(*i)
                }
            }
            Val::Float(b) => s.serialize_f64(f64::from_bits(*b)),
            Val::F32(b) => s.serialize_f32(f32::from_bits(*b)),
            Val::Str(x) => s.serialize_str(x),
            Val::Bytes(b) => s.serialize_bytes(b),
            Val::Datetime(d) => s.serialize_str(d),
            Val::Ext(_, d) => s.serialize_bytes(d),
            Val::Seq(xs) => {
                let mut q = s.serialize_seq(Some(xs.len()))?;
                for x in xs {
                    q.serialize_element(&SerVal(x))?;
                }
                q.end()
            }
            Val::Map(m) => {
                let mut q = s.serialize_map(Some(m.len()))?;
                for (k, v) in m {
                    q.serialize_key(&SerVal(k))?;
                    q.serialize_value(&SerVal(v))?;
                }
                q.end()
            }
        }
    }
}

fn has_position(e: &str) -> bool {
    let digits_after = |pat: &str| -> bool {
        let mut rest = e;
        while let Some(p) = rest.find(pat) {
            let tail = &rest[p + pat.len()..];
            if tail.chars().next().map(|c| c.is_ascii_digit()).unwrap_or(false) {
                return true;
            }
            rest = tail;
        }
        false
    };
    (digits_after("line ") && digits_after("column ")) || digits_after("position ") || digits_after("index ") || digits_after("byte ") || digits_after("at offset ")
}

// ------------------------------------------------------------------ (a)

fn plant_syntax_error(b: &[u8], pos: usize, kind: usize, f: Fmt) -> (Vec<u8>, &'static str) {
    let mut v = b.to_vec();
    if kind == 3 {
        // a byte no text format accepts raw: a C0 control character or an invalid UTF-8 byte
        let stray: u8 = if f == Fmt::Msgpack { 0xc1 } else { *[0x01u8, 0xff, 0x7f, 0x1b, 0xc0].get(pos % 5).unwrap() };
        v.insert(pos.min(v.len()), stray);
        return (v, "insert_control_or_invalid_byte");
    }
    match kind % 3 {
        0 => {
            v.remove(pos.min(v.len() - 1));
            (v, "delete_byte")
        }
        1 => {
            let stray: u8 = match f {
                Fmt::Msgpack => 0xc1,
                Fmt::Json => *[b'}', b']', b'"', b',', b':', b'x'].get(pos % 6).unwrap(),
                Fmt::Yaml => *[b'}', b']', b'"', b'{', b'[', b'\t', b'%', b'@'].get(pos % 8).unwrap(),
                Fmt::Toml => *[b'}', b']', b'"', b'=', b'[', b'\'', b'.'].get(pos % 7).unwrap(),
            };
            v.insert(pos.min(v.len()), stray);
            (v, "insert_stray_byte")
        }
        _ => {
            v.truncate(pos);
            (v, "truncate")
        }
    }
}

pub fn input_side(input: &[u8], f: Fmt, mode: &Mode, how: &str, planted_at: Option<usize>, acc: &mut Acc) {
    // independently confirm that the input is malformed (as a stream of documents)
    match crate::read::read_stream(f, input).map(|_| ()).or_else(|e| if crate::selfcheck::read_back(f, input).is_ok() { Ok(()) } else { Err(e) }) {
        Ok(_) => {
            acc.count("mutant_still_valid_skipped");
            return;
        }
        // well-formed YAML that merely uses a tag / anchor feature outside the data
        // model is not a syntax error
        Err(e) if e.contains("unsupported tag") || e.contains("does not match tag") || e.contains("unknown anchor") || e.contains("documents") => {
            acc.count("wellformed_but_outside_model_skipped");
            return;
        }
        Err(_) => {}
    }
    if f == Fmt::Yaml && crate::read::yaml::read_docs(input).map(|d| d.is_empty()).unwrap_or(false) {
        // a stream without documents is not a syntax error (see the C02 finding)
        acc.count("documentless_yaml_skipped");
        return;
    }
    acc.evals += 1;
    let outs: Vec<_> = STREAMING.iter().map(|to| (*to, run_mode(input, mode, Some(f), *to))).collect();
    if outs.iter().any(|(_, o)| o.verdict.is_ok()) {
        // xt is more lenient than the independent reader here: not an error-text question
        acc.count("xt_accepts_what_reader_rejects_skipped");
        return;
    }
    acc.count(&format!("input_side_{}_{}", f.name(), how));
    let case = || json!({"part": "input", "input_hex": hex(input), "input_preview": preview(input, 200), "from": f.name(), "mode": mode.describe(), "planted": how, "planted_at": planted_at});
    let texts: Vec<String> = outs.iter().map(|(_, o)| o.verdict.show()).collect();
    if let Some((to, o)) = outs.iter().find(|(_, o)| o.verdict.is_panic()) {
        acc.violation(Violation { sig: format!("panic on malformed {} input", f.name()), case: case(), observed: format!("to {}: {}", to.name(), o.verdict.show()), expected: "an error".into() });
        return;
    }
    if texts.iter().any(|t| *t != texts[0]) {
        // an output-side refusal may legitimately precede the defect for one target only
        let output_reasons: Vec<String> = [Unrep::NullKeyToJson, Unrep::BytesToYaml, Unrep::NullToToml].iter().flat_map(|u| u.reference_reasons()).collect();
        if texts.iter().any(|t| t.contains(TF) || output_reasons.iter().any(|r| t.contains(r.as_str()))) {
            acc.count("input_side_mixed_with_output_refusal_skipped");
            return;
        }
        acc.violation(Violation { sig: format!("{} syntax error reported differently per target", f.name()), case: case(), observed: format!("json: {} | msgpack: {} | yaml: {}", texts[0], texts[1], texts[2]), expected: "the same parser message whichever streaming target was requested".into() });
        return;
    }
    let e = outs[0].1.verdict.text();
    if e.contains(TF) {
        acc.violation(Violation { sig: format!("{} syntax error reported as 'translation failed'", f.name()), case: case(), observed: e.to_string(), expected: "the input parser's own message".into() });
        return;
    }
    if f == Fmt::Yaml && e.starts_with("invalid type: enum") {
        // a (local) tag earlier in the stream than the planted defect: xt streams, so it
        // reports the construct it cannot translate before it ever reaches the defect
        acc.count("input_side_unsupported_tag_met_first_skipped");
        return;
    }
    // JSON positions count lines of the WHOLE input: a parser cannot notice a defect before it has read up
    // to it, so the reported line cannot lie before the line of the planted damage (serde_json's slice and
    // reader front ends disagree with each other by a column, or by "line n+1 column 0" at a line end, so
    // nothing finer than the line is demanded)
    if f == Fmt::Json {
        if let (Some(at), Some((_, tail))) = (planted_at, e.rsplit_once(" at line ")) {
            if let Some(line) = tail.split_whitespace().next().and_then(|l| l.parse::<usize>().ok()) {
                let true_line = 1 + input[..at.min(input.len())].iter().filter(|b| **b == b'\n').count();
                acc.count("input_side_json_line_checked");
                if line + 1 < true_line {
                    acc.violation(Violation { sig: "json: the reported line lies before the planted defect".into(), case: case(), observed: format!("{e} (the damage was planted at byte {at}, on line {true_line})"), expected: format!("a position on line {true_line} or later") });
                    return;
                }
            }
        }
    }
    // libyaml's character reader (control characters, invalid UTF-8) reports a byte offset, not a
    // line and column: it must be the offset at which such a byte really stands
    if f == Fmt::Yaml {
        if let Some(n) = e.rsplit_once(" at position ").and_then(|(_, t)| t.trim().parse::<usize>().ok()) {
            if let Some(p) = crate::read::yaml::first_forbidden_offset(input) {
                acc.count("input_side_yaml_byte_offsets_checked");
                // control characters: exactly there; malformed UTF-8: libyaml points at the octet it
                // objects to, which may be a trailing octet of the sequence that starts at p
                let ok = if e.starts_with("control characters") { n == p } else { n >= p && n <= p + 3 };
                if !ok {
                    acc.violation(Violation { sig: "yaml: the reported byte position is not where the offending byte stands".into(), case: case(), observed: format!("{e} (the first byte the YAML character reader refuses stands at offset {p})"), expected: format!("... at position {p}") });
                    return;
                }
            }
        }
    }
    if f != Fmt::Msgpack && !has_position(e) {
        // UTF-8 validity errors of a whole slice are reported by position-less std messages
        if e.contains("utf-8") || e.contains("UTF-8") {
            acc.count("input_side_utf8_message");
            return;
        }
        // libyaml's own message carries no position when the problem sits at the
        // very first character (mark 0/0); the harness's libyaml reader confirms
        if f == Fmt::Yaml && crate::read::yaml::read_docs(input).err().map(|m| m.ends_with("at line 1 column 1")).unwrap_or(false) {
            acc.count("input_side_yaml_error_at_origin");
            return;
        }
        acc.violation(Violation { sig: format!("{} syntax error without a position", f.name()), case: case(), observed: e.to_string(), expected: "a parser message carrying a position".into() });
        return;
    }
    acc.count("input_side_messages_ok");
}

// ------------------------------------------------------------------ (b)

#[derive(Clone, Copy, Debug, PartialEq)]
pub enum Unrep {
    NullKeyToJson,
    SeqKeyToJson,
    BytesToYaml,
    NullToToml,
    BigIntToMsgpack,
}

impl Unrep {
    fn target(self) -> Fmt {
        match self {
            Unrep::NullKeyToJson | Unrep::SeqKeyToJson => Fmt::Json,
            Unrep::BytesToYaml => Fmt::Yaml,
            Unrep::NullToToml => Fmt::Toml,
            Unrep::BigIntToMsgpack => Fmt::Msgpack,
        }
    }
    fn name(self) -> &'static str {
        match self {
            Unrep::NullKeyToJson => "null_key_to_json",
            Unrep::SeqKeyToJson => "seq_key_to_json",
            Unrep::BytesToYaml => "bytes_to_yaml",
            Unrep::NullToToml => "null_to_toml",
            Unrep::BigIntToMsgpack => "128bit_int_to_msgpack",
        }
    }
    fn parse(s: &str) -> Option<Unrep> {
        [Unrep::NullKeyToJson, Unrep::SeqKeyToJson, Unrep::BytesToYaml, Unrep::NullToToml, Unrep::BigIntToMsgpack].into_iter().find(|u| u.name() == s)
    }
    fn sources(self) -> &'static [Fmt] {
        match self {
            Unrep::NullKeyToJson | Unrep::SeqKeyToJson => &[Fmt::Yaml, Fmt::Msgpack],
            Unrep::BytesToYaml => &[Fmt::Msgpack],
            Unrep::NullToToml => &[Fmt::Json, Fmt::Yaml, Fmt::Msgpack],
            Unrep::BigIntToMsgpack => &[Fmt::Yaml],
        }
    }
    /// The reasons the target crate itself gives for the construct.
    pub fn reference_reasons(self) -> Vec<String> {
        let r = |x: Result<String, String>| x.err().unwrap_or_default();
        let v = match self {
            Unrep::NullKeyToJson => vec![r(serde_json::to_string(&SerVal(&Val::Map(vec![(Val::Null, Val::Int(1))]))).map_err(|e| e.to_string()))],
            Unrep::SeqKeyToJson => vec![r(serde_json::to_string(&SerVal(&Val::Map(vec![(Val::Seq(vec![Val::Int(1)]), Val::Int(1))]))).map_err(|e| e.to_string()))],
            Unrep::BytesToYaml => vec![r(serde_yaml::to_string(&SerVal(&Val::Bytes(vec![1, 2]))).map_err(|e| e.to_string()))],
            Unrep::NullToToml => vec![
                r(toml::Value::try_from(SerVal(&Val::Null)).map(|_| String::new()).map_err(|e| e.to_string())),
                r(<toml::Value as serde::Deserialize>::deserialize(serde::de::value::UnitDeserializer::<serde::de::value::Error>::new()).map(|_| String::new()).map_err(|e| e.to_string())),
            ],
            Unrep::BigIntToMsgpack => vec![r(rmp_serde::to_vec(&SerVal(&Val::Int(1i128 << 70))).map(|_| String::new()).map_err(|e| e.to_string())), r(rmp_serde::to_vec(&SerVal(&Val::Int(-(1i128 << 70)))).map(|_| String::new()).map_err(|e| e.to_string()))],
        };
        let mut v: Vec<String> = v.into_iter().filter(|s| !s.is_empty()).collect();
        if self == Unrep::NullToToml {
            // the Deserialize entry point words the reason through the SOURCE
            // deserializer's error type ("invalid type: null, ..." for JSON): the
            // target's part is its own `expecting` text
            if let Some(tail) = v.iter().find_map(|r| r.split_once(", ").map(|x| x.1.to_string())) {
                v.push(tail);
            }
        }
        v
    }
}

/// Plants the construct at a random path (depth <= 6). Returns the path taken.
fn plant_unrep(v: &mut Val, u: Unrep, rng: &mut Rng, depth: usize, path: &mut String) {
    let descend = depth < 6 && rng.chance(2, 3);
    match v {
        Val::Seq(xs) if descend && !xs.is_empty() => {
            let i = rng.below(xs.len());
            path.push_str(&format!("[{i}]"));
            plant_unrep(&mut xs[i], u, rng, depth + 1, path);
        }
        Val::Map(m) if descend && !m.is_empty() => {
            let i = rng.below(m.len());
            path.push_str(&format!(".{i}"));
            plant_unrep(&mut m[i].1, u, rng, depth + 1, path);
        }
        _ => {
            let planted = match u {
                Unrep::NullKeyToJson => Val::Map(vec![(Val::s("before"), Val::Int(1)), (Val::Null, Val::Int(2))]),
                Unrep::SeqKeyToJson => Val::Map(vec![(Val::Seq(vec![Val::Int(1), Val::s("k")]), Val::Int(2))]),
                Unrep::BytesToYaml => Val::Bytes(rng.bytes(3)),
                Unrep::NullToToml => Val::Null,
                Unrep::BigIntToMsgpack => Val::Int(if rng.chance(1, 2) { (1i128 << 64) + rng.below(100) as i128 } else { -(1i128 << 63) - 1 - rng.below(100) as i128 }),
            };
            match v {
                Val::Seq(xs) => {
                    path.push_str("[+]");
                    let at = rng.below(xs.len() + 1);
                    xs.insert(at, planted);
                }
                Val::Map(m) => {
                    path.push_str(".+");
                    let at = rng.below(m.len() + 1);
                    m.insert(at, (Val::Str(format!("planted{}", m.len())), planted));
                }
                other => {
                    path.push_str("=");
                    *other = planted
                }
            }
        }
    }
}

pub fn output_side_value(input: &[u8], src: Fmt, u: Unrep, mode: &Mode, path: &str, acc: &mut Acc) {
    acc.evals += 1;
    let to = u.target();
    let o = run_mode(input, mode, Some(src), to);
    acc.count(&format!("unrepresentable_{}", u.name()));
    let case = || json!({"part": "value", "input_hex": hex(input), "input_preview": preview(input, 200), "from": src.name(), "construct": u.name(), "mode": mode.describe(), "path": path});
    let reasons = u.reference_reasons();
    if reasons.is_empty() {
        // the target crate accepts the construct when handed it directly: nothing to refuse
        acc.count(&format!("construct_representable_skipped_{}", u.name()));
        return;
    }
    match &o.verdict {
        Verdict::Err(e) if reasons.iter().any(|r| e.contains(r.as_str())) => acc.count("value_reason_present"),
        Verdict::Err(e) => acc.violation(Violation { sig: format!("{}: serializer's reason missing: {}", u.name(), ev::truncate(&crate::c02_mask(e), 60)), case: case(), observed: format!("Err({e})"), expected: format!("an error containing one of {:?}", reasons) }),
        other => acc.violation(Violation { sig: format!("{}: not refused", u.name()), case: case(), observed: other.show(), expected: format!("an error containing one of {:?}", reasons) }),
    }
}

// ------------------------------------------------------------------ (c)

/// The target serializer's own wording when its writer fails after k bytes,
/// obtained by serialising the model directly.
fn direct_write_error(doc: &Val, to: Fmt, k: usize, style: FaultStyle) -> Vec<String> {
    let mut reasons = vec![WRITE_MARK.to_string()];
    if style == FaultStyle::ZeroLen {
        // a writer that accepts nothing more reports no error of its own: the cause is std's WriteZero
        reasons = vec![std::io::Error::from(std::io::ErrorKind::WriteZero).to_string(), "failed to write whole buffer".into()];
    }
    let w = MonWriter::new().with_fault(k, style);
    let r: Result<Result<(), String>, String> = guarded_any(|| match to {
        Fmt::Json => serde_json::to_writer(w, &SerVal(doc)).map_err(|e| e.to_string()),
        Fmt::Msgpack => {
            let mut w = w;
            let mut ser = rmp_serde::Serializer::new(&mut w);
            SerVal(doc).serialize(&mut ser).map_err(|e| e.to_string())
        }
        Fmt::Yaml => {
            // xt writes the 4-byte '---\n' header itself
            let w = MonWriter::new().with_fault(k.saturating_sub(4), style);
            serde_yaml::to_writer(w, &SerVal(doc)).map_err(|e| e.to_string())
        }
        Fmt::Toml => Ok(()),
    });
    if let Ok(Err(e)) = r {
        reasons.push(e);
    }
    reasons
}

pub fn output_side_writer(input: &[u8], src: Fmt, to: Fmt, doc: &Val, k: usize, style: FaultStyle, mode: &Mode, acc: &mut Acc) {
    acc.evals += 1;
    acc.count("writer_fault_points");
    let w = MonWriter::new().with_fault(k, style);
    let wlog = w.log_handle();
    let v = match mode {
        Mode::Slice => guarded(|| xt::translate_slice(input, Some(src.xt()), to.xt(), w)),
        Mode::Reader(s) => guarded(|| xt::translate_reader(SchedReader::new(input, s.clone()), Some(src.xt()), to.xt(), w)),
    };
    if wlog.borrow().faults_returned == 0 {
        acc.count("writer_fault_not_reached");
        return;
    }
    let accepted = wlog.borrow().bytes.len();
    let case = || json!({"part": "writer", "input_hex": hex(input), "input_preview": preview(input, 200), "from": src.name(), "to": to.name(), "k": k, "style": format!("{style:?}"), "mode": mode.describe()});
    let reasons = direct_write_error(doc, to, k, style);
    match &v {
        Verdict::Err(e) if reasons.iter().any(|r| e.contains(r.as_str())) => {
            acc.count("writer_reason_present");
        }
        Verdict::Err(e) => {
            // what was the failing write?
            let clean = run_slice(input, Some(src), to).out;
            let at = clean.get(accepted).map(|c| (*c as char).to_string()).unwrap_or_default();
            acc.violation(Violation { sig: format!("to {}: write failure reported without its cause: {}", to.name(), ev::truncate(&crate::c02_mask(e), 50)), case: case(), observed: format!("Err({e}); the write that failed started at output byte {accepted} ({at:?})"), expected: format!("an error containing one of {:?}", reasons) })
        }
        other => acc.violation(Violation { sig: format!("to {}: write failure not reported", to.name()), case: case(), observed: other.show(), expected: "an error".into() }),
    }
}

/// The same promise at the command line: what the binary prints on stderr is "xt error in <input>: "
/// followed by the library's message for that input IN FULL, and a newline - also when that message is
/// many kilobytes long (parsers quote the offending line, serializers prefix the path of keys).
pub fn cli_diagnostic(idx: usize, acc: &mut Acc) {
    use crate::procmon::{self, Run, Scratch, Status, StdinKind, StdoutKind};
    let a = idx % 5;
    let (name, src, content): (String, Fmt, Vec<u8>) = match idx % 7 {
        0 => ("long.toml".into(), Fmt::Toml, format!("k = \"{}{}", "x".repeat(a), "\u{65e5}\u{672c}".repeat(1500 + 300 * a)).into_bytes()),
        1 => ("long.toml".into(), Fmt::Toml, format!("title = \"ok\"\nk = [{} oops\n", "1, ".repeat(3000 + a)).into_bytes()),
        2 => {
            // a null key deep under long keys: serde_yaml / serde_json prefix nothing, but the target's reason must survive
            let keys: Vec<String> = (0..6).map(|i| format!("{}{}", "k".repeat(700 + a), i)).collect();
            let mut y = String::new();
            for (d, k) in keys.iter().enumerate() {
                y.push_str(&format!("{}{}:\n", "  ".repeat(d), k));
            }
            y.push_str(&format!("{}? [1, 2]\n{}: v\n", "  ".repeat(6), "  ".repeat(6)));
            ("deep.yaml".into(), Fmt::Yaml, y.into_bytes())
        }
        3 => ("bad.json".into(), Fmt::Json, format!("{{\"a\": [{} }}\n", "1, ".repeat(10 + a)).into_bytes()),
        4 => ("bad.yaml".into(), Fmt::Yaml, format!("a: [1, 2\nb: {}\n", "x".repeat(50 * a)).into_bytes()),
        5 => ("bad.msgpack".into(), Fmt::Msgpack, vec![0x93, 0x01, 0xc1]),
        _ => ("long.json".into(), Fmt::Json, format!("{{\"{}\": nul}}", "\u{e9}".repeat(3000 + a)).into_bytes()),
    };
    let to = if idx % 7 == 2 { Fmt::Json } else { ALL[(idx / 7) % 3] };
    let via_stdin = (idx / 21) % 2 == 1;
    // the library's own message for this input in this supply mode
    let lib = if via_stdin { run_mode(&content, &Mode::Reader(Sched::All), Some(src), to) } else { run_slice(&content, Some(src), to) };
    let Verdict::Err(lib_msg) = &lib.verdict else {
        acc.count("cli_diagnostic_skipped_input_translates");
        return;
    };
    let sc = Scratch::new();
    sc.file(&name, &content);
    let argv: Vec<String> = if via_stdin { vec!["-f".into(), src.name().into(), "-t".into(), to.name().into()] } else { vec!["-t".into(), to.name().into(), name.clone()] };
    let out = procmon::run(Run { bin: &procmon::release_bin(), argv: argv.clone(), cwd: sc.path(), stdin: if via_stdin { StdinKind::Bytes(content.clone()) } else { StdinKind::Null }, stdout: StdoutKind::Pipe, wall_secs: 60, cpu_secs: 30 });
    acc.evals += 1;
    acc.count("cli_diagnostics_compared");
    acc.max("longest_cli_diagnostic_bytes", out.stderr.len() as u64);
    if matches!(out.status, Status::Timeout | Status::SpawnError(_)) {
        acc.inconclusive += 1;
        return;
    }
    let want = format!("xt error in {}: {}\n", if via_stdin { "standard input" } else { name.as_str() }, lib_msg);
    if out.status != Status::Exit(1) || out.stderr != want.as_bytes() {
        let got = String::from_utf8_lossy(&out.stderr);
        acc.violation(Violation { sig: format!("command line: the diagnostic is not the library's message in full ({} bytes expected)", if want.len() > 4096 { "> 4096" } else { "<= 4096" }), case: json!({"part": "cli_diagnostic", "index": idx}), observed: format!("status {}; stderr has {} bytes, ends [{}]", out.status.show(), out.stderr.len(), preview(got.as_bytes().get(got.len().saturating_sub(80)..).unwrap_or(&[]), 80)), expected: format!("exit 1 and the {} bytes 'xt error in <input>: <message>' ending [{}]", want.len(), preview(want.as_bytes().get(want.len().saturating_sub(80)..).unwrap_or(&[]), 80)) });
    } else if want.len() > 4096 {
        acc.count("cli_diagnostics_longer_than_4_kib_in_full");
    }
}

pub fn run(ctx: &Ctx) -> i32 {
    let n = ctx.size(1500, 200000);
    let seed = ctx.seed;
    let acc = crate::par::run(n, 2, |i, acc| {
        let mut rng = Rng::derive(seed, 0xc11, i as u64);
        let mut cl = Classes::default();
        let o = GenOpts { max_depth: 3, max_width: 3, ..GenOpts::common() };
        let base = gen_doc(&mut rng, &o, &mut cl);
        let mut feats = Feats::default();
        acc.distinct(&base.show());
        acc.sample_every(401, || json!({"model_value": ev::truncate(&base.show(), 200)}));
        // (a) input side
        let f = ALL[i % 4];
        let doc = if f == Fmt::Toml {
            match tomlify(&base) {
                Some(d) => d,
                None => gen_doc(&mut rng, &GenOpts { max_depth: 3, max_width: 3, ..GenOpts::toml() }, &mut cl),
            }
        } else {
            base.clone()
        };
        let plain = rng.below(2) == 0;
        let mut good = spell(f, &doc, &mut rng, &mut feats, plain);
        if i % 3 == 1 && f != Fmt::Toml {
            // a stream of two or three documents: the defect may sit in a later document, where positions
            // must still be those of the whole input
            let small = GenOpts { max_depth: 2, max_width: 2, ..GenOpts::common() };
            let mut parts = vec![good.clone()];
            for _ in 0..rng.range(1, 2) {
                let d = gen_doc(&mut rng, &small, &mut cl);
                parts.push(spell(f, &d, &mut rng, &mut feats, plain));
            }
            good = match f {
                Fmt::Yaml => {
                    let mut b = vec![];
                    for p in &parts {
                        b.extend_from_slice(b"---\n");
                        b.extend_from_slice(p);
                        if !p.ends_with(b"\n") {
                            b.push(b'\n');
                        }
                    }
                    b
                }
                Fmt::Json => parts.join(&b"\n"[..]),
                _ => parts.concat(),
            };
            acc.count("input_side_multi_document_streams");
        }
        if !good.is_empty() && run_slice(&good, Some(f), Fmt::Json).verdict.is_ok() {
            let every = if good.len() <= 200 { 1 } else { good.len() / 100 };
            let mut pos = 0;
            while pos <= good.len() {
                for kind in 0..4 {
                    if pos == good.len() && kind != 1 {
                        continue;
                    }
                    let (bad, how) = plant_syntax_error(&good, pos, kind, f);
                    let mode = if (pos + kind) % 2 == 0 { Mode::Slice } else { Mode::Reader(if pos % 3 == 0 { Sched::One } else { Sched::All }) };
                    input_side(&bad, f, &mode, how, Some(pos), acc);
                }
                pos += every;
            }
        }
        // (b) unrepresentable value at a random path
        for u in [Unrep::NullKeyToJson, Unrep::SeqKeyToJson, Unrep::BytesToYaml, Unrep::NullToToml, Unrep::BigIntToMsgpack] {
            let mut d = if u == Unrep::NullToToml {
                match tomlify(&base) {
                    Some(d) => d,
                    None => Val::Map(vec![(Val::s("a"), Val::Seq(vec![Val::Int(1)]))]),
                }
            } else if base.is_collection() {
                base.clone()
            } else {
                Val::Seq(vec![base.clone()])
            };
            // keep nulls that would be refused earlier out of the way for the TOML case: tomlify did
            let mut path = String::from("$");
            plant_unrep(&mut d, u, &mut rng, 0, &mut path);
            for src in u.sources() {
                if !crate::c11_can_spell(*src, &d) {
                    continue;
                }
                let bytes = spell(*src, &d, &mut rng, &mut feats, true);
                let mode = if rng.chance(1, 2) { Mode::Slice } else { Mode::Reader(Sched::Random(rng.next(), 8)) };
                output_side_value(&bytes, *src, u, &mode, &path, acc);
            }
        }
        // (c) failing writer at every byte
        if i % 3 == 0 {
            let to = ALL[(i / 3) % 4];
            let src = [Fmt::Json, Fmt::Msgpack, Fmt::Yaml][(i / 12) % 3];
            let d = if to == Fmt::Toml { tomlify(&base) } else { Some(base.clone()) };
            if let Some(d) = d {
                let bytes = spell(src, &d, &mut rng, &mut feats, true);
                let clean = run_slice(&bytes, Some(src), to);
                if clean.verdict.is_ok() {
                    let step = if clean.out.len() > 600 { clean.out.len() / 300 } else { 1 };
                    let mut k = 0;
                    while k < clean.out.len() {
                        let style = [FaultStyle::ShortThenFail, FaultStyle::RejectCrossing, FaultStyle::ZeroLen, FaultStyle::RejectCrossing, FaultStyle::ShortThenFail, FaultStyle::ZeroLen, FaultStyle::ShortThenFail][k % 7];
                        acc.count(&format!("writer_fault_style_{style:?}"));
                        let mode = if k % 3 == 0 { Mode::Reader(Sched::All) } else { Mode::Slice };
                        output_side_writer(&bytes, src, to, &d, k, style, &mode, acc);
                        k += step;
                    }
                }
            }
        }
    });
    // (a') YAML in UTF-16/32 with one code unit that is not well-formed, behind 0..40 characters, with and
    //      without a byte order mark: the message names the unit and ITS byte offset in the input as given
    let mut acc = acc;
    let mut enc_cases = vec![];
    for enc in crate::c07::ENCS {
        for bom in [true, false] {
            for chars in 0..40usize {
                enc_cases.push((enc, bom, chars));
            }
        }
    }
    let enc_acc = crate::par::run(enc_cases.len(), 8, |i, acc| {
        let (enc, bom, chars) = enc_cases[i];
        let text: String = "k: [aa, bb, cc, dd, ee, ff, gg, hh, ii, jj]".chars().cycle().take(chars + 1).collect();
        let text = format!("a{}", &text[..chars.min(text.len())]); // starts with an ASCII character
        let mut bytes = enc.encode(&text, bom);
        let p = bytes.len();
        let bad: u32 = if enc.is16() { [0xDC00, 0xDFFF][i % 2] } else { [0x110000, 0xD800, 0x7FFF_FFFF][i % 3] };
        if enc.is16() {
            enc.unit16(bad as u16, &mut bytes);
        } else {
            enc.unit32(bad, &mut bytes);
        }
        bytes.extend_from_slice(&enc.encode(" z\n", false));
        for mode in [Mode::Slice, Mode::Reader(Sched::All), Mode::Reader(Sched::Fixed(3))] {
            for to in [Fmt::Json, Fmt::Yaml, Fmt::Msgpack] {
                acc.evals += 1;
                acc.count("illformed_code_unit_positions_checked");
                let mut w = Vec::new();
                let v = match &mode {
                    Mode::Slice => guarded(|| xt::translate_slice(&bytes, Some(xt::Format::Yaml), to.xt(), &mut w)),
                    Mode::Reader(s) => guarded(|| xt::translate_reader(SchedReader::new(&bytes, s.clone()), Some(xt::Format::Yaml), to.xt(), &mut w)),
                };
                let want_unit = format!("0x{bad:x}");
                let want_pos = format!("at byte {p}");
                let ok = match &v {
                    Verdict::Err(e) => e.contains(&want_unit) && (e.contains(&format!("{want_pos} ")) || e.ends_with(&want_pos) || e.contains(&format!("{want_pos}\n")) || e.contains(&format!("{want_pos}:")) || e.contains(&format!("{want_pos},"))),
                    _ => false,
                };
                if !ok {
                    acc.violation(Violation { sig: format!("ill-formed {} unit{}: the message does not name the unit at its byte offset", enc.name(), if bom { " behind a byte order mark" } else { "" }), case: json!({"part": "encoding_position", "encoding": enc.name(), "bom": bom, "input_hex": hex(&bytes), "mode": mode.describe(), "to": to.name()}), observed: v.show(), expected: format!("an error naming code unit {want_unit} {want_pos} (offsets count from the first byte of the input, byte order mark included)") });
                    return;
                }
            }
        }
    });
    acc.merge(enc_acc);
    // (c') integers beyond 64 bits (YAML holds them; they travel through their own visitor): the writer fails at
    //      every byte of the JSON / YAML output
    let wide: Vec<&str> = vec!["- 18446744073709551616\n- 1\n", "340282366920938463463374607431768211455\n", "k: -9223372036854775809\nm: [18446744073709551615, 170141183460469231731687303715884105727]\n", "-170141183460469231731687303715884105728\n"];
    let wide_acc = crate::par::run(wide.len() * 2, 1, |i, acc| {
        let input = wide[i / 2].as_bytes();
        let to = [Fmt::Json, Fmt::Yaml][i % 2];
        let clean = run_slice(input, Some(Fmt::Yaml), to);
        if !clean.verdict.is_ok() {
            return;
        }
        for k in 0..clean.out.len() {
            acc.evals += 1;
            acc.count("writer_faults_on_integers_beyond_64_bits");
            for mode in [Mode::Slice, Mode::Reader(Sched::All)] {
                let w = MonWriter::new().with_fault(k, if k % 2 == 0 { FaultStyle::ShortThenFail } else { FaultStyle::RejectCrossing });
                let wlog = w.log_handle();
                let v = match &mode {
                    Mode::Slice => guarded(|| xt::translate_slice(input, Some(xt::Format::Yaml), to.xt(), w)),
                    Mode::Reader(s) => guarded(|| xt::translate_reader(SchedReader::new(input, s.clone()), Some(xt::Format::Yaml), to.xt(), w)),
                };
                if wlog.borrow().faults_returned == 0 {
                    continue;
                }
                let ok = matches!(&v, Verdict::Err(e) if e.contains(WRITE_MARK));
                if !ok {
                    acc.violation(Violation { sig: format!("to {}: write failure on an integer beyond 64 bits reported without its cause", to.name()), case: json!({"part": "wide_integer", "input_preview": preview(input, 80), "to": to.name(), "k": k, "mode": mode.describe()}), observed: v.show(), expected: format!("an error containing '{WRITE_MARK}'") });
                    return;
                }
            }
        }
    });
    acc.merge(wide_acc);
    let n_cli = ctx.size(84, 840);
    let cli_acc = crate::par::run(n_cli, 2, |i, acc| cli_diagnostic(i, acc));
    acc.merge(cli_acc);
    let rule = format!("{} generated common-model documents; (a) each spelled in one format in turn and damaged at EVERY byte position (<= 200 B; sampled above) by deleting the byte, inserting a stray structural byte, inserting a control / invalid UTF-8 byte, or truncating there, slice and reader alternating, confirmed malformed by the independent reader, judged for the three streaming targets; (a') YAML in each of UTF-16LE/BE, UTF-32LE/BE with one ill-formed code unit behind 0..39 characters, with and without a byte order mark, slice and reader: the message names the unit and its byte offset in the input as given; (b) one unrepresentable construct (null key / sequence key -> JSON, binary -> YAML, null -> TOML, 65..128-bit integer -> MessagePack) planted at a random path (depth <= 6) from every source that can spell it; (c) every third document: the writer fails at EVERY byte of the fault-free output (sampled above 600 B), three fault styles (short accept then fail, reject the crossing write, accept nothing more: Ok(0) - whose cause is std's WriteZero), slice and reader; also for YAML documents with integers beyond 64 bits to JSON / YAML; (d) at the command line, failing inputs whose library message is short or many kilobytes long (a quoted 5-10 KB line, long keys, multi-byte text), file and stdin: stderr is exactly 'xt error in <input>: <the library's message>' and a newline; distinct non-trivial = distinct documents", n);
    ev::finish(
        Finish { ctx, level: "fault_enumeration", rule, assumptions: vec!["equality with the message the source crate gives when called directly is NOT demanded (it legitimately differs with the visitor and reader kind)".into(), "reference reasons come from handing the construct / the same failing writer directly to the target crate inside the harness".into()], extra: serde_json::Map::new(), exhaustive: false, min_distinct: 300, must_reach: vec![("cli_diagnostics_longer_than_4_kib_in_full".into(), 20), ("illformed_code_unit_positions_checked".into(), 1000), ("input_side_messages_ok".into(), 5000), ("value_reason_present".into(), 1000), ("writer_reason_present".into(), 5000)] },
        acc,
    )
}

pub fn replay(v: &Value) -> i32 {
    let c = &v["case"];
    if c["part"].as_str() == Some("cli_diagnostic") {
        let mut acc = Acc::default();
        cli_diagnostic(c["index"].as_u64().unwrap_or(0) as usize, &mut acc);
        return if acc.vio_count > 0 {
            println!("VIOLATION property=C11 replay=<this file> (reproduced): {}", acc.violations[0].observed);
            1
        } else {
            println!("not reproduced");
            0
        };
    }
    let Some(input) = c["input_hex"].as_str().and_then(unhex) else {
        println!("bad replay case");
        return 2;
    };
    let mode = c["mode"].as_str().and_then(Mode::parse).unwrap_or(Mode::Slice);
    let Some(src) = c["from"].as_str().and_then(Fmt::parse) else {
        println!("bad replay case");
        return 2;
    };
    let mut acc = Acc::default();
    match c["part"].as_str() {
        Some("input") => input_side(&input, src, &mode, "replay", c["planted_at"].as_u64().map(|x| x as usize), &mut acc),
        Some("value") => {
            let Some(u) = c["construct"].as_str().and_then(Unrep::parse) else { return 2 };
            output_side_value(&input, src, u, &mode, "", &mut acc)
        }
        Some("writer") => {
            let (Some(to), Some(k)) = (c["to"].as_str().and_then(Fmt::parse), c["k"].as_u64()) else { return 2 };
            let style = match c["style"].as_str() {
                Some("RejectCrossing") => FaultStyle::RejectCrossing,
                Some("ZeroLen") => FaultStyle::ZeroLen,
                _ => FaultStyle::ShortThenFail,
            };
            let Ok(doc) = crate::selfcheck::read_back(src, &input) else {
                println!("cannot re-read input");
                return 2;
            };
            output_side_writer(&input, src, to, &doc, k as usize, style, &mode, &mut acc)
        }
        _ => return 2,
    }
    println!("input [{}] from={} mode={}", preview(&input, 300), src.name(), mode.describe());
    if acc.vio_count > 0 {
        println!("VIOLATION property=C11 replay=<this file> (reproduced): {}", acc.violations[0].observed);
        1
    } else {
        println!("not reproduced");
        0
    }
}

//! C13 — CLI exit status and stream discipline.
//!
//! The release `xt` binary built from the working tree is run with every
//! argument vector up to a length bound over a vocabulary of option forms,
//! help/version requests, separators and path kinds, with several stdin
//! contents and stdout kinds (pipe, file, pseudo-terminal). The observed wait
//! status, stdout and stderr are judged by the CLI reference model.

use std::cell::RefCell;
use std::collections::BTreeMap;

use serde_json::{json, Value};

use crate::climodel::{self, CliClass, PathKind};
use crate::ev::{self, Acc, Ctx, Finish, Violation};
use crate::model::{hex, preview, unhex};
use crate::procmon::{self, Run, Scratch, StdinKind, StdoutKind};
use crate::rng::Rng;

pub const VOCAB: &[&str] = &[
    "-f", "-t", "-fj", "-fjson", "-f=yaml", "-fy", "-ft", "-fm", "-ty", "-tj", "-tm", "-tt", "-tmsgpack", "-ttoml", "-t=y", "-tx", "-f=", "-fJSON", "j", "json", "yaml", "m", "bogus", "-h", "--help", "-V", "--version", "--help=x", "--version=1", "-hV", "-Vh", "-tV", "-hx", "--", "-", "-x", "--bogus", "--from", "-F", "good.json", "good.yaml", "good", "bad.json", "undet", "nullval.json", "missing.json", "dir", "", "deep.json", "bom", "-tyml", "-fyml", "note.t", "/proc/version", "caf\u{fffd}.json", "n\u{fffd}ant", "big.yaml", "matrix.m",
];

pub fn files() -> BTreeMap<String, PathKind> {
    let mut m = BTreeMap::new();
    m.insert("good.json".into(), PathKind::Regular(b"{\"a\": [1, 2.5, \"x\"]}\n{\"b\": true}\n".to_vec()));
    m.insert("good.yaml".into(), PathKind::Regular(b"k: v\nlist:\n  - 1\n  - two\n".to_vec()));
    m.insert("good".into(), PathKind::Regular(b"[table]\nkey = \"value\"\nn = 3\n".to_vec()));
    m.insert("bad.json".into(), PathKind::Regular(b"{\"a\": [1, 2,, }\n".to_vec()));
    m.insert("undet".into(), PathKind::Regular(b"\x01\x02 this is no format {{{\n".to_vec()));
    m.insert("nullval.json".into(), PathKind::Regular(b"{\"a\": null}\n".to_vec()));
    m.insert("missing.json".into(), PathKind::Missing);
    m.insert("dir".into(), PathKind::Directory);
    // nested far beyond any depth limit: still an ordinary failure of that input (status 1), never a crash
    let mut deep = vec![b'['; 200_000];
    deep.push(b'1');
    deep.extend(std::iter::repeat(b']').take(200_000));
    m.insert("deep.json".into(), PathKind::Regular(deep));
    // a UTF-8 byte order mark in front of one line of YAML (no telling extension) that ends in multi-byte characters
    // (libyaml refuses multi-line YAML behind a UTF-8 BOM in every mode, so one line it is)
    m.insert("bom".into(), PathKind::Regular("\u{feff}k: \u{65e5}\u{672c}\n".as_bytes().to_vec()));
    // an extension that is a format's one-letter ALIAS is not a recognised extension: content decides
    m.insert("note.t".into(), PathKind::Regular(b"{\"json\": [1, 2]}\n".to_vec()));
    // names that are not valid UTF-8 (U+FFFD stands for the byte 0xE9, see procmon::os_name): one existing,
    // translatable file with a telling extension, one name that does not exist
    m.insert("caf\u{fffd}.json".into(), PathKind::Regular(b"{\"name\": \"not utf-8\"}\n".to_vec()));
    m.insert("n\u{fffd}ant".into(), PathKind::Missing);
    // integers beyond 64 bits (YAML holds them; JSON and YAML can write them, MessagePack and TOML refuse)
    m.insert("big.yaml".into(), PathKind::Regular(b"id: 18446744073709551616\nneg: -9223372036854775809\nlist: [340282366920938463463374607431768211455]\n".to_vec()));
    // JSON in a file whose extension is a one-letter format alias
    m.insert("matrix.m".into(), PathKind::Regular(b"[[1, 2], [3, 4]]\n".to_vec()));
    // a regular file of the proc file system: it reports size 0, cannot be mapped, and still has content
    // (whatever it holds on this machine: the model runs the library on the same bytes)
    match std::fs::read("/proc/version") {
        Ok(b) if !b.is_empty() => m.insert("/proc/version".into(), PathKind::Regular(b)),
        _ => m.insert("/proc/version".into(), PathKind::Missing),
    };
    // words of the vocabulary that end up as path operands name nothing
    for w in ["j", "json", "yaml", "m", "bogus", ""] {
        m.insert(w.into(), PathKind::Missing);
    }
    m
}

/// Files of the vocabulary whose content is fixed by hand and is known to translate to these targets. The
/// expectations of this check are otherwise computed with xt's own library (the subject here is the command
/// line, not the translation), so a library-level change that makes xt refuse one of these would move the
/// model along with the binary; for these (file, target) pairs the outcome is pinned: exit status 0.
pub const KNOWN_GOOD: &[(&str, &[&str])] = &[
    ("good.json", &["json", "yaml", "msgpack"]),
    ("good.yaml", &["json", "yaml", "msgpack", "toml"]),
    ("good", &["json", "yaml", "msgpack", "toml"]),
    ("nullval.json", &["json", "yaml", "msgpack"]),
    ("big.yaml", &["json", "yaml"]),
    ("matrix.m", &["json", "yaml", "msgpack"]),
    ("caf\u{fffd}.json", &["json", "yaml", "msgpack", "toml"]),
    ("note.t", &["json", "yaml", "msgpack", "toml"]),
    ("bom", &["json", "yaml", "msgpack", "toml"]),
];

pub const STDINS: &[&[u8]] = &[b"{\"stdin\": 1}\n", b"{\"stdin\": [}", b""];

thread_local! {
    static SCRATCH: RefCell<Option<Scratch>> = RefCell::new(None);
    /// the program name (argv[0]) the next runs of this thread are started under; None = "xt"
    static ARG0: RefCell<Option<String>> = RefCell::new(None);
    /// Some(prefix): standard input of the next runs of this thread is a regular file that starts with
    /// these bytes, opened with its offset just behind them
    static STDIN_PREFIX: RefCell<Option<Vec<u8>>> = RefCell::new(None);
}

pub fn judge_stdin_file(prefix: &[u8], argv: &[String], stdin: &[u8], stdout: &StdoutKind, acc: &mut Acc) {
    STDIN_PREFIX.with(|a| *a.borrow_mut() = Some(prefix.to_vec()));
    acc.count(if prefix.is_empty() { "stdin_is_a_regular_file_at_offset_0" } else { "stdin_is_a_regular_file_at_a_later_offset" });
    judge_delivery(argv, stdin, &[], stdout, acc);
    STDIN_PREFIX.with(|a| *a.borrow_mut() = None);
}

/// Program names a process can legitimately be started under: not valid UTF-8 (U+FFFD stands for the
/// byte 0xE9, see procmon::os_name), empty, a path, with a space.
pub const ARG0S: &[&str] = &["x\u{fffd}t", "\u{fffd}", "", "/usr/local/bin/xt", "x t", "\u{fffd}\u{fffd}-\u{65e5}"];

pub fn judge_as(arg0: &str, argv: &[String], stdin: &[u8], stdout: &StdoutKind, acc: &mut Acc) {
    ARG0.with(|a| *a.borrow_mut() = Some(arg0.to_string()));
    acc.count("runs_under_another_program_name");
    judge_delivery(argv, stdin, &[], stdout, acc);
    ARG0.with(|a| *a.borrow_mut() = None);
}

fn with_scratch<T>(f: impl FnOnce(&Scratch) -> T) -> T {
    SCRATCH.with(|s| {
        let mut s = s.borrow_mut();
        if s.is_none() {
            let sc = Scratch::new();
            for (name, kind) in files() {
                match kind {
                    PathKind::Regular(_) if name.starts_with('/') => {} // exists already (procfs)
                    PathKind::Regular(b) => {
                        sc.file(&name, &b);
                    }
                    PathKind::Directory => {
                        let _ = std::fs::create_dir_all(sc.path().join(&name));
                    }
                    _ => {}
                }
            }
            *s = Some(sc);
        }
        f(s.as_ref().unwrap())
    })
}

pub fn judge(argv: &[String], stdin: &[u8], stdout: &StdoutKind, acc: &mut Acc) {
    judge_delivery(argv, stdin, &[], stdout, acc)
}

/// `cuts`: if not empty, standard input arrives in bursts cut at these offsets,
/// with a pause after each burst (the expected outcome does not depend on it).
pub fn judge_delivery(argv: &[String], stdin: &[u8], cuts: &[usize], stdout: &StdoutKind, acc: &mut Acc) {
    acc.evals += 1;
    let class = climodel::classify(argv);
    let stdin_prefix = STDIN_PREFIX.with(|a| a.borrow().clone());
    let stdin_kind = if let Some(prefix) = &stdin_prefix {
        let mut whole = prefix.clone();
        whole.extend_from_slice(stdin);
        StdinKind::FileAtOffset(whole, prefix.len() as u64)
    } else if stdin == climodel::STDIN_IS_A_DIRECTORY {
        acc.count("stdin_is_a_directory");
        StdinKind::Directory
    } else if cuts.is_empty() {
        StdinKind::Bytes(stdin.to_vec())
    } else {
        let mut bursts = vec![];
        let mut at = 0;
        for c in cuts.iter().copied().chain([stdin.len()]) {
            let c = c.min(stdin.len());
            if c > at {
                bursts.push(stdin[at..c].to_vec());
                at = c;
            }
        }
        acc.count("stdin_delivered_in_bursts");
        StdinKind::Bursts(bursts, 25)
    };
    let arg0 = ARG0.with(|a| a.borrow().clone());
    let out = with_scratch(|sc| {
        let r = Run { bin: &procmon::release_bin(), argv: argv.to_vec(), cwd: sc.path(), stdin: stdin_kind, stdout: stdout.clone(), wall_secs: 60, cpu_secs: 20 };
        match &arg0 {
            Some(a) => procmon::run_as(r, a),
            None => procmon::run(r),
        }
    });
    if matches!(out.status, procmon::Status::Timeout | procmon::Status::SpawnError(_)) {
        acc.inconclusive += 1;
        acc.count("process_inconclusive");
        return;
    }
    let verdict = match &class {
        CliClass::Usage(_) => {
            acc.count("class_usage");
            climodel::judge_usage(&out)
        }
        CliClass::Help(_) if *stdout == StdoutKind::DevFull => {
            // help text cannot be delivered; the manual promises nothing beyond not failing loudly
            acc.count("class_help_dev_full");
            if matches!(out.status, procmon::Status::Exit(_)) { Ok(()) } else { Err(format!("wait status {}", out.status.show())) }
        }
        CliClass::Help(k) => {
            acc.count("class_help");
            climodel::judge_help(&out, k)
        }
        CliClass::Run { from, to, paths } if *stdout == StdoutKind::DevFull => {
            // every write fails: a run that has anything to write must end with status 1
            // and a message; a run that fails before writing keeps its usual outcome
            acc.count("class_run_dev_full");
            let exp = climodel::emulate(*from, *to, paths, &files(), stdin, &StdoutKind::Pipe);
            let err = String::from_utf8_lossy(&out.stderr);
            if exp.exit == 0 && exp.stdout_ceiling.is_empty() {
                if out.status == procmon::Status::Exit(0) { Ok(()) } else { Err(format!("wait status {} (nothing to write, expected exit 0)", out.status.show())) }
            } else if out.status != procmon::Status::Exit(1) || !err.starts_with("xt error") {
                Err(format!("wait status {} with stdout on a full device (expected exit 1 and a message beginning 'xt error': {})", out.status.show(), if exp.exit == 0 { "the output cannot be written" } else { exp.why.as_str() }))
            } else {
                Ok(())
            }
        }
        CliClass::Run { from, to, paths } => {
            acc.count("class_run");
            let exp = climodel::emulate(*from, *to, paths, &files(), stdin, stdout);
            acc.count(&format!("run_expected_exit_{}", exp.exit));
            if *stdout == StdoutKind::Pty && *to == crate::fmts::Fmt::Msgpack {
                acc.count("msgpack_to_terminal_cases");
            }
            let pinned = from.is_none() && paths.len() == 1 && !(*stdout == StdoutKind::Pty && *to == crate::fmts::Fmt::Msgpack) && KNOWN_GOOD.iter().any(|(f, tos)| *f == paths[0] && tos.contains(&to.name()));
            if pinned {
                acc.count("runs_with_a_pinned_outcome");
            }
            if pinned && out.status != procmon::Status::Exit(0) {
                Err(format!("a file known to translate to {} is refused: wait status {}", to.name(), out.status.show()))
            } else {
                climodel::judge_run(&out, &exp).map_err(|e| format!("{e} [{}]", exp.why))
            }
        }
    };
    acc.count(&format!("stdout_{}", match stdout { StdoutKind::Pipe => "pipe", StdoutKind::File => "file", StdoutKind::Pty => "pty", StdoutKind::DevFull => "dev_full", _ => "other" }));
    if let Err(e) = verdict {
        let sig_class = match &class {
            CliClass::Usage(w) => format!("usage({w})"),
            CliClass::Help(k) => format!("help({k:?})"),
            CliClass::Run { .. } => "run".into(),
        };
        acc.violation(Violation {
            sig: format!("{}: {}", sig_class, ev::truncate(&crate::c02_mask(&e), 80)),
            case: json!({"argv": argv, "arg0": arg0, "stdin_file_prefix_hex": stdin_prefix.as_ref().map(|p| hex(p)), "stdin_hex": hex(stdin), "stdin_cuts": cuts, "stdout": format!("{stdout:?}")}),
            observed: format!("{e}; status {}, stdout [{}], stderr [{}]", out.status.show(), preview(&out.stdout, 100), preview(&out.stderr, 160)),
            expected: format!("model class {:?}", class),
        });
    }
}

fn stdout_kind(i: usize) -> StdoutKind {
    match i % 5 {
        0 | 1 => StdoutKind::Pipe,
        2 => StdoutKind::File,
        3 => StdoutKind::DevFull,
        _ => StdoutKind::Pty,
    }
}

pub fn run(ctx: &Ctx) -> i32 {
    let v = VOCAB.len();
    let exhaustive_len = if ctx.thorough() { 3 } else { 2 };
    let mut total = 0usize;
    let mut ranges = vec![];
    for len in 0..=exhaustive_len {
        let c = v.pow(len as u32);
        ranges.push((len, total, c));
        total += c;
    }
    let n_random = ctx.size(5000, 60000);
    let seed = ctx.seed;
    // a targeted family the short exhaustive vectors cannot reach: every ordered pair
    // of translatable inputs (files and '-') with every target, with and without -f
    let goods = ["good.json", "good.yaml", "good", "-"];
    let mut pairs: Vec<Vec<String>> = vec![];
    for a in goods {
        for b in goods {
            for t in ["-tj", "-ty", "-tm", "-tt"] {
                pairs.push(vec![t.to_string(), a.to_string(), b.to_string()]);
                pairs.push(vec![a.to_string(), t.to_string(), b.to_string()]);
            }
        }
    }
    let pair_acc = crate::par::run(pairs.len(), 4, |i, acc| {
        acc.count("argv_two_input_pairs");
        acc.distinct(&pairs[i]);
        judge(&pairs[i], STDINS[0], &StdoutKind::Pipe, acc);
        judge(&pairs[i], STDINS[0], &StdoutKind::File, acc);
    });
    let acc = crate::par::run(total + n_random, 16, |i, acc| {
        let mut rng = Rng::derive(seed, 0xc13, i as u64);
        let argv: Vec<String> = if i < total {
            let (len, start, _) = *ranges.iter().find(|(_, s, c)| i >= *s && i < s + c).unwrap();
            let mut x = i - start;
            let mut a = vec![];
            for _ in 0..len {
                a.push(VOCAB[x % v].to_string());
                x /= v;
            }
            acc.count(&format!("argv_exhaustive_len{len}"));
            a
        } else {
            let len = rng.range(3, 6);
            acc.count("argv_random_longer");
            (0..len).map(|_| rng.pick(VOCAB).to_string()).collect()
        };
        acc.distinct(&argv);
        acc.sample_every(1499, || json!({"argv": argv}));
        // every argv with a pipe; a rotating second stdout kind and stdin content
        let stdin = STDINS[i % 3];
        judge(&argv, stdin, &StdoutKind::Pipe, acc);
        let k2 = stdout_kind(i + 2);
        if k2 != StdoutKind::Pipe {
            judge(&argv, STDINS[(i / 3) % 3], &k2, acc);
        }
    });
    let mut acc = acc;
    acc.merge(pair_acc);
    // the same judgement with the process started under other program names (argv[0]): every vector of
    // length 0..=1 and a sample of longer ones, under each name
    let n_named = (1 + v) + ctx.size(300, 3000);
    let named_acc = crate::par::run(n_named * ARG0S.len(), 8, |i, acc| {
        let (ai, k) = (i % ARG0S.len(), i / ARG0S.len());
        let mut rng = Rng::derive(seed, 0xc13a, k as u64);
        let argv: Vec<String> = if k == 0 {
            vec![]
        } else if k <= v {
            vec![VOCAB[k - 1].to_string()]
        } else {
            (0..rng.range(2, 4)).map(|_| rng.pick(VOCAB).to_string()).collect()
        };
        acc.distinct(&(ai, &argv));
        judge_as(ARG0S[ai], &argv, STDINS[k % 3], &if k % 4 == 3 { StdoutKind::File } else { StdoutKind::Pipe }, acc);
    });
    acc.merge(named_acc);
    // standard input is an open directory (`xt ... < dir`): an input like any other that fails when read
    let n_dir = (1 + v) + ctx.size(200, 3000);
    let dir_acc = crate::par::run(n_dir, 8, |k, acc| {
        let mut rng = Rng::derive(seed, 0xc13d, k as u64);
        let argv: Vec<String> = if k == 0 {
            vec![]
        } else if k <= v {
            vec![VOCAB[k - 1].to_string()]
        } else {
            let mut a: Vec<String> = (0..rng.range(1, 3)).map(|_| rng.pick(VOCAB).to_string()).collect();
            a.insert(rng.below(a.len() + 1), "-".into());
            a
        };
        acc.distinct(&("stdin-dir", &argv));
        judge(&argv, climodel::STDIN_IS_A_DIRECTORY, &if k % 3 == 2 { StdoutKind::File } else { StdoutKind::Pipe }, acc);
    });
    acc.merge(dir_acc);
    // standard input is a regular file (shell redirection), at offset 0 or behind bytes someone else consumed
    let n_file = (1 + v) + ctx.size(300, 3000);
    let prefixes: [&[u8]; 5] = [b"", b"{\"consumed\": true}\n", b"[0]\n[1]\n", b"x", b"--- skipped\n"];
    let file_acc = crate::par::run(n_file, 8, |k, acc| {
        let mut rng = Rng::derive(seed, 0xc13f, k as u64);
        let argv: Vec<String> = if k == 0 {
            vec![]
        } else if k <= v {
            vec![VOCAB[k - 1].to_string()]
        } else {
            let mut a: Vec<String> = (0..rng.range(1, 3)).map(|_| rng.pick(VOCAB).to_string()).collect();
            a.insert(rng.below(a.len() + 1), "-".into());
            a
        };
        acc.distinct(&("stdin-file", &argv, k % 5));
        judge_stdin_file(prefixes[k % 5], &argv, STDINS[(k / 5) % 3], &if k % 3 == 2 { StdoutKind::File } else { StdoutKind::Pipe }, acc);
    });
    acc.merge(file_acc);
    // standard input that trickles in: multi-document streams (complete, and with a malformed or
    // unrepresentable later part) cut into 2-4 bursts at and inside document boundaries
    let streams: Vec<(&str, Vec<u8>)> = vec![
        ("yaml", b"a: 1\n---\nb: 2\n---\nc: [3, 4]\n---\nd: end\n".to_vec()),
        ("yaml", b"- one\n- two\n---\n- three\n---\n{unclosed: [\n".to_vec()),
        ("yaml", b"k: v\n---\nl: w\n---\n? [composite]\n: key\n".to_vec()),
        ("json", b"{\"a\": 1}\n{\"b\": 2}\n{\"c\": [3, 4]}\n".to_vec()),
        ("json", b"{\"a\": 1}\n{\"b\": 2}\n{\"c\": [3, \n".to_vec()),
        ("json", b"[1]\n[2]\n[nul]\n".to_vec()),
        ("msgpack", vec![0x81, 0xa1, b'a', 0x01, 0x81, 0xa1, b'b', 0x02, 0x92, 0x03, 0x04]),
        ("msgpack", vec![0x81, 0xa1, b'a', 0x01, 0x81, 0xa1, b'b', 0x02, 0x92, 0x03]),
        ("yaml", { let mut v = b"big: |\n".to_vec(); for i in 0..900 { v.extend_from_slice(format!("  line {i} of a long block scalar\n").as_bytes()); } v.extend_from_slice(b"---\nsecond: 2\n---\nthird: {oops\n"); v }),
        ("yaml", { let mut v = vec![]; for i in 0..700 { v.extend_from_slice(format!("---\nid: {i}\ntext: document number {i}\n").as_bytes()); } v }),
    ];
    let mut bursty = vec![];
    for (si, (f, bytes)) in streams.iter().enumerate() {
        for explicit in [false, true] {
            for t in ["-tj", "-ty", "-tm", "-tt"] {
                for cutset in 0..(if ctx.thorough() { 12 } else { 3 }) {
                    bursty.push((si, *f, bytes, explicit, t, cutset));
                }
            }
        }
    }
    let b_acc = crate::par::run(bursty.len(), 1, |i, acc| {
        let (si, f, bytes, explicit, t, cutset) = bursty[i];
        let mut rng = Rng::derive(seed, 0xc13b, (i * 31 + cutset) as u64);
        let mut argv = vec![t.to_string()];
        if explicit {
            argv.push(format!("-f{f}"));
        }
        if cutset % 2 == 1 {
            argv.push("-".into());
        }
        // cut points: document boundaries found by a byte scan for '\n', plus random offsets
        let nl: Vec<usize> = bytes.iter().enumerate().filter(|(_, b)| **b == b'\n').map(|(i, _)| i + 1).collect();
        let mut cuts: Vec<usize> = (0..rng.range(1, 3)).map(|_| if !nl.is_empty() && rng.chance(2, 3) { *rng.pick(&nl) } else { 1 + rng.below(bytes.len().max(2) - 1) }).collect();
        cuts.sort();
        cuts.dedup();
        acc.distinct(&(si, explicit, t, cuts.clone()));
        judge_delivery(&argv, bytes, &cuts, &StdoutKind::Pipe, acc);
    });
    acc.merge(b_acc);
    let rule = format!("EVERY argument vector of length 0..={} over a {}-token vocabulary (-f/-t with every name and alias in attached, detached and '=' forms, repeated, missing value, invalid name; unknown short/long options; -h --help -V --version and clustered/valued forms; '--'; '-'; translatable / malformed / undetectable / unrepresentable / missing / directory / empty paths, a JSON file nested 200 000 deep, YAML behind a UTF-8 byte order mark, a file whose extension is a one-letter format alias, a procfs file (regular, reported size 0, not mappable, with content), file names that are not valid UTF-8 (existing and missing); the extension spelling 'yml' as an option value) plus {} random vectors of length 3-6 and every ordered pair of translatable inputs x every target; every vector of length 0..=1 and a sample of longer ones again with standard input an open directory (reads fail with EISDIR), with standard input a regular file at offset 0 or behind bytes already consumed, and with the process started under 6 other program names (argv[0] not valid UTF-8, empty, a path, with a space); each run with a pipe and (rotating) a file, a pseudo-terminal or /dev/full as stdout, stdin content rotating over translatable / malformed / empty; plus 10 multi-document streams (complete, or with a malformed / unrepresentable later document; up to 30 KiB) x named or detected source x 4 targets, trickling in on stdin in 2-4 bursts with pauses; for nine hand-written files the outcome of translating them alone is pinned (exit 0) instead of computed with the library; distinct non-trivial = distinct argument vectors", exhaustive_len, v, n_random);
    let mut extra = serde_json::Map::new();
    extra.insert("argv_exhaustive_up_to_length".into(), json!(exhaustive_len));
    ev::finish(
        Finish { ctx, level: "exploration", rule, assumptions: vec!["the harness runs as root, so an unreadable-file case cannot be produced (permission bits are ignored); missing files and directories stand in for open failures".into(), "argv is tokenised by the lexopt crate, the manual's rules are applied by the harness".into()], extra, exhaustive: false, min_distinct: 1000, must_reach: vec![("class_usage".into(), 500), ("class_help".into(), 200), ("class_run".into(), 500), ("run_expected_exit_0".into(), 100), ("run_expected_exit_1".into(), 100), ("msgpack_to_terminal_cases".into(), 10), ("stdout_pty".into(), 200), ("class_run_dev_full".into(), 50), ("stdin_delivered_in_bursts".into(), 200), ("runs_under_another_program_name".into(), 1000), ("stdin_is_a_directory".into(), 200), ("stdin_is_a_regular_file_at_a_later_offset".into(), 200), ("runs_with_a_pinned_outcome".into(), 50)] },
        acc,
    )
}

pub fn replay(v: &Value) -> i32 {
    let c = &v["case"];
    let argv: Vec<String> = c["argv"].as_array().map(|a| a.iter().filter_map(|x| x.as_str().map(String::from)).collect()).unwrap_or_default();
    let stdin = c["stdin_hex"].as_str().and_then(unhex).unwrap_or_default();
    let stdout = match c["stdout"].as_str() {
        Some("File") => StdoutKind::File,
        Some("Pty") => StdoutKind::Pty,
        Some("DevFull") => StdoutKind::DevFull,
        _ => StdoutKind::Pipe,
    };
    let mut acc = Acc::default();
    let cuts: Vec<usize> = c["stdin_cuts"].as_array().map(|a| a.iter().filter_map(|x| x.as_u64().map(|n| n as usize)).collect()).unwrap_or_default();
    match c["arg0"].as_str() {
        _ if c["stdin_file_prefix_hex"].is_string() => judge_stdin_file(&c["stdin_file_prefix_hex"].as_str().and_then(unhex).unwrap_or_default(), &argv, &stdin, &stdout, &mut acc),
        Some(a) => judge_as(a, &argv, &stdin, &stdout, &mut acc),
        None => judge_delivery(&argv, &stdin, &cuts, &stdout, &mut acc),
    }
    println!("argv {:?} stdout {:?} -> model class {:?}", argv, stdout, climodel::classify(&argv));
    if acc.vio_count > 0 {
        println!("VIOLATION property=C13 replay=<this file> (reproduced): {}", acc.violations[0].observed);
        1
    } else {
        println!("not reproduced");
        0
    }
}

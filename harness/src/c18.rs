//! C18 — nesting limits are clean, and the same for slice and reader input.
//!
//! In-process (large thread stacks, so the verdict itself never depends on the
//! harness stack): for each source format, nesting shape and depth in a window
//! around the format's limit and far beyond, verdict(slice) == verdict(reader)
//! for explicit and for detected source selection, all shapes share one limit,
//! verdicts are monotone in depth, MessagePack accepts exactly 1023 collections
//! around a scalar. The MessagePack size calculator (hook) is compared with the
//! harness's decoder. The real debug and release binaries on their default
//! stacks must survive every depth with the exit status the library predicts.

use serde_json::{json, Value};

use crate::ev::{self, Acc, Ctx, Finish, Violation};
use crate::fmts::{self, Fmt, ALL};
use crate::model::preview;
use crate::mon::Sched;
use crate::procmon::{self, Run, Scratch, Status, StdinKind, StdoutKind};
use crate::rng::Rng;
use crate::run::{run_mode, Mode};

#[derive(Clone, Copy, Debug, PartialEq, Eq, Hash)]
pub enum Shape {
    Arrays,
    Maps,
    Alternating,
    Random(u64),
    /// MessagePack only: each level nests in map-key position.
    KeyPosition,
}

impl Shape {
    fn name(self) -> String {
        match self {
            Shape::Arrays => "arrays".into(),
            Shape::Maps => "maps".into(),
            Shape::Alternating => "alternating".into(),
            Shape::Random(s) => format!("random:{s}"),
            Shape::KeyPosition => "key_position".into(),
        }
    }
    fn parse(s: &str) -> Option<Shape> {
        match s {
            "arrays" => Some(Shape::Arrays),
            "maps" => Some(Shape::Maps),
            "alternating" => Some(Shape::Alternating),
            "key_position" => Some(Shape::KeyPosition),
            _ => s.strip_prefix("random:").and_then(|x| x.parse().ok()).map(Shape::Random),
        }
    }
    /// true = array at level i
    fn is_array(self, i: usize, rng: &mut Rng) -> bool {
        match self {
            Shape::Arrays => true,
            Shape::Maps | Shape::KeyPosition => false,
            Shape::Alternating => i % 2 == 0,
            Shape::Random(_) => rng.chance(1, 2),
        }
    }
}

pub const LIMITS: [(Fmt, usize); 4] = [(Fmt::Msgpack, 1024), (Fmt::Json, 128), (Fmt::Yaml, 128), (Fmt::Toml, 80)];

/// A document of format `f` with `d` collections nested around a scalar.
pub fn nested(f: Fmt, shape: Shape, d: usize) -> Vec<u8> {
    nested_core(f, shape, d, false)
}

/// Like `nested`, but with `empty_core` the innermost of the `d` collections is
/// empty (there is no scalar inside): d levels of collections, nothing else.
pub fn nested_core(f: Fmt, shape: Shape, d: usize, empty_core: bool) -> Vec<u8> {
    if !empty_core || d < 2 {
        return nested_scalar(f, shape, d, None);
    }
    // d-1 collections around an empty collection of the kind the shape has at level d-1
    let mut rng = Rng::new(match shape {
        Shape::Random(s) => s,
        _ => 0,
    });
    let mut last_is_array = true;
    for i in 0..d {
        last_is_array = shape.is_array(i, &mut rng);
    }
    nested_scalar(f, shape, d - 1, Some(last_is_array))
}

fn nested_scalar(f: Fmt, shape: Shape, d: usize, core: Option<bool>) -> Vec<u8> {
    let core_text = match core {
        None => "1",
        Some(true) => "[]",
        Some(false) => "{}",
    };
    let core_mp: u8 = match core {
        None => 0x01,
        Some(true) => 0x90,
        Some(false) => 0x80,
    };
    let mut rng = Rng::new(match shape {
        Shape::Random(s) => s,
        _ => 0,
    });
    let kinds: Vec<bool> = (0..d).map(|i| shape.is_array(i, &mut rng)).collect();
    match f {
        Fmt::Json | Fmt::Yaml => {
            // flow syntax is shared by JSON and YAML
            let mut s = String::with_capacity(d * 7 + 4);
            for a in &kinds {
                s.push_str(if *a { "[" } else { "{\"a\":" });
            }
            s.push_str(core_text);
            for a in kinds.iter().rev() {
                s.push(if *a { ']' } else { '}' });
            }
            s.push('\n');
            s.into_bytes()
        }
        Fmt::Toml => {
            // root table plus d-1 nested values (the root counts as the first collection)
            let mut s = String::from("a = ");
            for a in kinds.iter().skip(1) {
                s.push_str(if *a { "[" } else { "{a = " });
            }
            s.push_str(core_text);
            for a in kinds.iter().skip(1).rev() {
                s.push(if *a { ']' } else { '}' });
            }
            s.push('\n');
            if d == 0 {
                return b"".to_vec();
            }
            s.into_bytes()
        }
        Fmt::Msgpack => {
            let mut b = Vec::with_capacity(d * 3 + 1);
            if shape == Shape::KeyPosition {
                // f(0) = 01 ; f(d) = 81 f(d-1) 01
                for _ in 0..d {
                    b.push(0x81);
                }
                b.push(core_mp);
                for _ in 0..d {
                    b.push(0x01);
                }
                return b;
            }
            for a in &kinds {
                if *a {
                    b.push(0x91);
                } else {
                    b.extend_from_slice(&[0x81, 0xa1, b'a']);
                }
            }
            b.push(core_mp);
            b
        }
    }
}

/// MessagePack only: the same `d` collections around a scalar, but spelled with
/// other headers than the one-entry fix markers: 16- and 32-bit length headers,
/// and collections of 16 entries (the nested child among 15 scalar siblings).
/// The count of collections around the scalar is still exactly `d`.
pub const MSGPACK_STYLES: [&str; 9] = ["hdr16", "hdr32", "wide_deepest", "wide_outermost", "wide_random", "very_wide_outermost", "very_wide_deepest", "half_of_16_bits_outermost", "most_of_16_bits_deepest"];

pub fn nested_msgpack_styled(shape: Shape, d: usize, style: &str) -> Vec<u8> {
    let mut rng = Rng::new(match shape {
        Shape::Random(s) => s,
        _ => 0,
    });
    let kinds: Vec<bool> = (0..d).map(|i| shape.is_array(i, &mut rng)).collect();
    let mut srng = Rng::new(0x57e1 ^ d as u64);
    let mut b = Vec::with_capacity(d * 6 + 64);
    let mut tails: Vec<Vec<u8>> = Vec::with_capacity(d);
    for (i, a) in kinds.iter().enumerate() {
        // (header kind: 0 fix, 1 = 16-bit, 2 = 32-bit; entries; position of the child)
        let (hdr, n, pos) = match style {
            "hdr16" => (1, 1usize, 0usize),
            "hdr32" => (2, 1, 0),
            "wide_deepest" if i + 1 == d => (1, 16, 15),
            "wide_outermost" if i == 0 => (1, 16, 0),
            // more siblings than the depth limit has levels
            "very_wide_outermost" if i == 0 => (1, 1100, 1099),
            "very_wide_deepest" if i + 1 == d => (1, 1100, 0),
            // entry counts in the upper half of what a 16-bit header holds (twice the count no longer fits 16 bits)
            "half_of_16_bits_outermost" if i == 0 => (1, 32768, 32767),
            "most_of_16_bits_deepest" if i + 1 == d => (1, 50000, 0),
            "wide_random" => match srng.below(6) {
                0 => (1, 16 + srng.below(3), srng.below(16)),
                1 => (2, 16, srng.below(16)),
                2 => (1, 1, 0),
                3 => (2, 1, 0),
                _ => (0, 1, 0),
            },
            _ => (0, 1, 0),
        };
        match (hdr, *a) {
            (0, true) => b.push(0x90 | n as u8),
            (0, false) => b.push(0x80 | n as u8),
            (1, true) => b.extend_from_slice(&[0xdc, (n >> 8) as u8, n as u8]),
            (1, false) => b.extend_from_slice(&[0xde, (n >> 8) as u8, n as u8]),
            (_, true) => b.extend_from_slice(&[0xdd, 0, 0, (n >> 8) as u8, n as u8]),
            (_, false) => b.extend_from_slice(&[0xdf, 0, 0, (n >> 8) as u8, n as u8]),
        }
        let sibling = |k: usize, out: &mut Vec<u8>| {
            if !*a {
                // distinct short keys k0000, k0001, ...
                let key = format!("k{k:04}");
                out.push(0xa0 | key.len() as u8);
                out.extend_from_slice(key.as_bytes());
            }
            out.push(0x01);
        };
        for k in 0..pos {
            sibling(k, &mut b);
        }
        if !*a {
            b.extend_from_slice(&[0xa1, b'a']);
        }
        let mut tail = vec![];
        for k in pos + 1..n {
            sibling(k, &mut tail);
        }
        tails.push(tail);
    }
    b.push(0x01);
    for t in tails.iter().rev() {
        b.extend_from_slice(t);
    }
    b
}

/// YAML block-style nesting for the window around the limit (indentation grows,
/// so only for small depths).
pub fn nested_yaml_block(shape: Shape, d: usize) -> Vec<u8> {
    let mut rng = Rng::new(match shape {
        Shape::Random(s) => s,
        _ => 0,
    });
    let mut s = String::new();
    let mut indent = 0;
    let mut at_line_start = true;
    for i in 0..d {
        let a = shape.is_array(i, &mut rng);
        if a {
            if at_line_start {
                s.push_str(&" ".repeat(indent));
            }
            s.push_str("- ");
            indent += 2;
            at_line_start = false;
        } else {
            if at_line_start {
                s.push_str(&" ".repeat(indent));
            }
            s.push_str("a:\n");
            indent += 1;
            at_line_start = true;
        }
    }
    if at_line_start {
        s.push_str(&" ".repeat(indent));
    }
    s.push_str("1\n");
    s.into_bytes()
}

pub fn depths(limit: usize, f: Fmt, thorough: bool) -> Vec<usize> {
    let mut v: Vec<usize> = vec![1, 2, 10];
    for d in limit.saturating_sub(6)..=limit + 6 {
        v.push(d);
    }
    v.extend([1000, 1023, 1024, 1025, 10_000]);
    if f != Fmt::Yaml {
        v.push(100_000);
        if thorough && f != Fmt::Toml {
            v.push(1_000_000);
        }
    } else if thorough {
        v.push(30_000);
    }
    v.sort();
    v.dedup();
    v
}

fn verdict_class(input: &[u8], mode: &Mode, from: Option<Fmt>, to: Fmt) -> String {
    let o = run_mode(input, mode, from, to);
    o.verdict.class().to_string()
}

/// In-process part for one (format, shape, target): returns the largest accepted depth.
pub fn inproc(f: Fmt, shape: Shape, to: Fmt, thorough: bool, acc: &mut Acc) -> Option<usize> {
    let limit = LIMITS.iter().find(|(x, _)| *x == f).unwrap().1;
    let mut last_ok: Option<usize> = None;
    let mut first_err: Option<usize> = None;
    for d in depths(limit, f, thorough) {
        let mut inputs = vec![(nested(f, shape, d), "flow"), (nested_core(f, shape, d, true), "flow_empty_core")];
        if f == Fmt::Yaml && d <= 300 && shape != Shape::KeyPosition {
            inputs.push((nested_yaml_block(shape, d), "block"));
        }
        // the same documents followed by a second, tiny document (a size or depth pre-pass that looks at
        // "the rest of the input" sees more than the nested value there)
        let tail: &[u8] = match f {
            Fmt::Msgpack => b"\x01",
            Fmt::Json => b"\n1",
            Fmt::Yaml => b"\n---\n1\n",
            Fmt::Toml => b"",
        };
        if !tail.is_empty() && d <= 100_000 {
            for (k, style) in [(0usize, "flow_then_second_document"), (1, "flow_empty_core_then_second_document")] {
                let mut b = inputs[k].0.clone();
                if !b.is_empty() {
                    b.extend_from_slice(tail);
                    inputs.push((b, style));
                    acc.count("documents_followed_by_a_second_document");
                }
            }
        }
        if f == Fmt::Msgpack && shape != Shape::KeyPosition && d >= 1 && d <= 100_000 {
            for st in MSGPACK_STYLES {
                if (st == "wide_random" && d > 10_000) || (st.contains("_of_16_bits_") && d > 1100) {
                    continue;
                }
                inputs.push((nested_msgpack_styled(shape, d, st), st));
                acc.count("msgpack_styled_documents");
            }
        }
        for (input, style) in inputs {
            if input.is_empty() {
                continue;
            }
            acc.evals += 1;
            acc.count(&format!("inproc_{}", f.name()));
            let case = || json!({"part": "inproc", "format": f.name(), "shape": shape.name(), "depth": d, "to": to.name(), "style": style});
            let mut classes: Vec<(String, String)> = vec![];
            for from in [Some(f), None] {
                let s = verdict_class(&input, &Mode::Slice, from, to);
                let r1 = verdict_class(&input, &Mode::Reader(Sched::All), from, to);
                let r2 = verdict_class(&input, &Mode::Reader(Sched::Fixed(7)), from, to);
                if s == "panic" || r1 == "panic" || r2 == "panic" {
                    acc.violation(Violation { sig: format!("{} depth panic", f.name()), case: case(), observed: format!("from={}: slice {s}, reader {r1}/{r2}", fmts::from_name(from)), expected: "Ok or Err".into() });
                    return None;
                }
                if s != r1 || s != r2 {
                    acc.violation(Violation { sig: format!("{} {} from={}: slice and reader disagree at a depth", f.name(), shape.name().split(':').next().unwrap(), fmts::from_name(from)), case: case(), observed: format!("depth {d}: slice {s}, reader(all) {r1}, reader(fixed 7) {r2}"), expected: "the same verdict from slice and reader".into() });
                    return None;
                }
                if from.is_none() && to != Fmt::Toml && d <= 2000 {
                    // the same detected runs on a Translator that has just translated a detected input of each
                    // format: the verdict at this depth may not depend on that
                    for (wname, warm) in crate::run::WARM_UPS {
                        for mode in [Mode::Slice, Mode::Reader(Sched::All)] {
                            let w = crate::run::run_after(&[warm], &input, &mode, None, to).verdict.class().to_string();
                            acc.count("verdicts_on_a_warmed_up_translator");
                            if w != s {
                                acc.violation(Violation { sig: format!("{} {}: the verdict at a depth depends on what the translator saw before (after {wname})", f.name(), shape.name().split(':').next().unwrap()), case: case(), observed: format!("depth {d}, detected, {}: {w} after a detected {wname} input, {s} on a fresh translator", mode.describe()), expected: "the same verdict as on a fresh translator".into() });
                                return None;
                            }
                        }
                    }
                }
                classes.push((fmts::from_name(from).to_string(), s));
            }
            if style == "flow_empty_core" || style.ends_with("_then_second_document") {
                // documents whose innermost collection is empty only take part in the
                // slice/reader comparison (their limit may legitimately differ by one)
                acc.count("empty_core_documents");
                continue;
            }
            // monotonicity and the limit are judged on the explicit runs
            let explicit_ok = classes[0].1 == "ok";
            if explicit_ok {
                if let Some(e) = first_err {
                    if d > e {
                        acc.violation(Violation { sig: format!("{} verdict not monotone in depth", f.name()), case: case(), observed: format!("depth {e} rejected but deeper depth {d} accepted"), expected: "accepted up to a limit, rejected beyond".into() });
                        return None;
                    }
                }
                last_ok = Some(last_ok.map_or(d, |l| l.max(d)));
            } else if first_err.map_or(true, |e| d < e) {
                first_err = Some(d);
                if let Some(l) = last_ok {
                    if l > d {
                        acc.violation(Violation { sig: format!("{} verdict not monotone in depth", f.name()), case: case(), observed: format!("depth {d} rejected but deeper depth {l} accepted"), expected: "accepted up to a limit, rejected beyond".into() });
                        return None;
                    }
                }
            }
        }
    }
    acc.max(&format!("deepest_accepted_{}", f.name()), last_ok.unwrap_or(0) as u64);
    last_ok
}

/// Flat YAML text whose characters U+0700..U+07FF encode as MessagePack collection markers: the
/// MessagePack trial runs into its nesting limit on it. That limit belongs to MessagePack input; the
/// text is one shallow document and must translate - detected exactly as when its format is named.
fn text_reading_as_nested_msgpack(acc: &mut Acc) {
    for d in [100usize, 1000, 1023, 1024, 1025, 3000, 20000] {
        for (f, text) in [(Fmt::Yaml, format!("\u{71c}: {}\n", "\u{71c}".repeat(d))), (Fmt::Yaml, format!("- \u{7a6}{}\n- 2\n", "\u{7a6}".repeat(d))), (Fmt::Yaml, (0..d).map(|i| format!("\u{710}{i}: 1\n")).collect::<String>())] {
            for mode in [Mode::Slice, Mode::Reader(Sched::All), Mode::Reader(Sched::Fixed(7))] {
                acc.evals += 1;
                acc.count("texts_reading_as_nested_msgpack");
                let named = run_mode(text.as_bytes(), &mode, Some(f), Fmt::Json);
                let detected = run_mode(text.as_bytes(), &mode, None, Fmt::Json);
                if named.verdict.class() != detected.verdict.class() || (named.verdict.is_ok() && named.out != detected.out) {
                    acc.violation(Violation { sig: format!("{} text of characters that encode as MessagePack markers: detected and named runs disagree", f.name()), case: json!({"part": "marker_text", "format": f.name(), "characters": d, "mode": mode.describe()}), observed: format!("named: {}; detected: {}", named.verdict.show(), detected.verdict.show()), expected: "the same verdict and output (MessagePack's nesting limit does not apply to text)".into() });
                    return;
                }
            }
        }
    }
}

fn size_hook(acc: &mut Acc, seed: u64, n: usize) {
    // the MessagePack size calculator vs the harness's decoder, on generated and truncated values
    for i in 0..n {
        let mut rng = Rng::derive(seed, 0xc18, i as u64);
        let mut cl = crate::gen::Classes::default();
        let mut feats = crate::spell::Feats::default();
        let doc = crate::gen::gen_doc(&mut rng, &crate::gen::GenOpts::common(), &mut cl);
        let mut b = crate::spell::spell(Fmt::Msgpack, &doc, &mut rng, &mut feats, false);
        let tn = rng.below(4);
        let tail = rng.bytes(tn);
        let full_len = b.len();
        b.extend(tail);
        if rng.chance(1, 3) {
            let cut = rng.below(full_len.max(1));
            b.truncate(cut);
        }
        acc.evals += 1;
        acc.count("size_hook_cases");
        let limit = xt::verif::msgpack_depth_limit();
        let got = crate::run::guarded_any(|| xt::verif::msgpack_value_size(&b, limit));
        let want = crate::read::msgpack::first_value_size(&b);
        let ok = match (&got, &want) {
            (Err(_), _) => false,
            (Ok(Ok(n)), Ok(m)) => n == m,
            (Ok(Ok(0)), Err(_)) => b.is_empty(),
            (Ok(Err(_)), Err(_)) => true,
            (Ok(Err(e)), Ok(_)) => e.contains("depth limit") && doc.depth() >= limit,
            (Ok(Ok(_)), Err(_)) => false,
        };
        if !ok {
            acc.violation(Violation { sig: "MessagePack size calculator disagrees with the independent decoder".into(), case: json!({"part": "size", "input_hex": crate::model::hex(&b)}), observed: format!("size calculator: {:?}; independent decoder: {:?}", got, want), expected: "the same size, or both reject".into() });
        }
    }
}

fn binaries(f: Fmt, shape: Shape, to: Fmt, d: usize, expect_ok: bool, acc: &mut Acc) {
    let input = nested(f, shape, d);
    let sc = Scratch::new();
    let name = format!("deep.{}", f.name());
    sc.file(&name, &input);
    sc.file("deep_noext", &input);
    for (bin, bname) in [(procmon::release_bin(), "release"), (procmon::debug_bin(), "debug")] {
        for variant in 0..4 {
            // 0: file by extension, 1: stdin with -f, 2: file without extension (detection), 3: stdin without -f (detection)
            let via_stdin = variant % 2 == 1;
            let detect = variant >= 2;
            if detect {
                // the detected verdict is predicted separately: detection may pick another format or none
                let d = run_mode(&input, &if via_stdin { Mode::Reader(Sched::All) } else { Mode::Slice }, None, to);
                if d.verdict.is_ok() != expect_ok {
                    continue;
                }
                acc.count("binary_runs_with_detection");
            }
            acc.evals += 1;
            acc.count(&format!("binary_runs_{bname}"));
            let argv: Vec<String> = match variant {
                0 => vec!["-t".into(), to.name().into(), name.clone()],
                1 => vec!["-f".into(), f.name().into(), "-t".into(), to.name().into()],
                2 => vec!["-t".into(), to.name().into(), "deep_noext".into()],
                _ => vec!["-t".into(), to.name().into()],
            };
            let out = procmon::run(Run { bin: &bin, argv, cwd: sc.path(), stdin: if via_stdin { StdinKind::Bytes(input.clone()) } else { StdinKind::Null }, stdout: StdoutKind::File, wall_secs: 300, cpu_secs: 200 });
            let case = || json!({"part": "binary", "binary": bname, "format": f.name(), "shape": shape.name(), "depth": d, "to": to.name(), "stdin": via_stdin, "detect": detect});
            match &out.status {
                Status::Timeout | Status::SpawnError(_) => acc.inconclusive += 1,
                Status::Signal(s) => acc.violation(Violation { sig: format!("{bname} binary died from a signal at a nesting depth ({})", f.name()), case: case(), observed: format!("killed by signal {s} at depth {d}; stderr [{}]", preview(&out.stderr, 200)), expected: "exit 0 or 1".into() }),
                Status::Exit(c) => {
                    let want = if expect_ok { 0 } else { 1 };
                    if *c != want {
                        acc.violation(Violation { sig: format!("{bname} binary exit status differs from the library verdict ({})", f.name()), case: case(), observed: format!("exit {c} at depth {d}; stderr [{}]", preview(&out.stderr, 200)), expected: format!("exit {want}") });
                    } else {
                        acc.count("binary_status_matches_library");
                    }
                }
            }
        }
    }
}

pub fn run(ctx: &Ctx) -> i32 {
    let thorough = ctx.thorough();
    // work items: (format, shape, target)
    let mut work = vec![];
    for (f, _) in LIMITS {
        let mut shapes = vec![Shape::Arrays, Shape::Maps, Shape::Alternating, Shape::Random(ctx.seed.wrapping_add(1)), Shape::Random(ctx.seed.wrapping_add(2))];
        if f == Fmt::Msgpack {
            shapes.push(Shape::KeyPosition);
        }
        for sh in shapes {
            for to in ALL {
                work.push((f, sh, to));
            }
        }
    }
    let results: std::sync::Mutex<Vec<((Fmt, Shape, Fmt), Option<usize>)>> = std::sync::Mutex::new(vec![]);
    let mut acc = crate::par::run(work.len(), 1, |i, acc| {
        let (f, sh, to) = work[i];
        acc.distinct(&(f.name(), sh.name(), to.name()));
        let l = inproc(f, sh, to, thorough, acc);
        acc.sample(json!({"format": f.name(), "shape": sh.name(), "to": to.name(), "deepest_accepted_depth": l, "document_at_depth_3": preview(&nested(f, sh, 3), 60)}));
        results.lock().unwrap().push((work[i], l));
        // real binaries: around the limit and far beyond, for this (format, shape, target)
        if let Some(l) = l {
            let far = if f == Fmt::Yaml { 10_000 } else { 100_000 };
            let pts: Vec<(usize, bool)> = if thorough { vec![(l.saturating_sub(1).max(1), true), (l, true), (l + 1, false), (l + 2, false), (1000, l >= 1000), (far, false)] } else { vec![(l, true), (l + 1, false), (far, false)] };
            for (d, ok) in pts {
                // TOML output needs a table root: skip targets that refuse the document for reasons other than depth
                let probe = run_mode(&nested(f, sh, d), &Mode::Slice, Some(f), to);
                if probe.verdict.is_ok() != ok {
                    continue;
                }
                binaries(f, sh, to, d, ok, acc);
            }
        }
    });
    // all shapes and targets of one format share one limit; MessagePack's is 1023
    let res = results.into_inner().unwrap();
    let mut extra = serde_json::Map::new();
    for (f, _) in LIMITS {
        let ls: Vec<(String, usize)> = res.iter().filter(|((ff, _, _), l)| *ff == f && l.is_some()).map(|((_, sh, to), l)| (format!("{}/{}", sh.name(), to.name()), l.unwrap())).collect();
        // targets that cannot take the document at all (e.g. TOML for an array root) report no limit
        let accepted: Vec<usize> = ls.iter().map(|x| x.1).filter(|l| *l > 10).collect();
        if let (Some(mn), Some(mx)) = (accepted.iter().min(), accepted.iter().max()) {
            extra.insert(format!("deepest_accepted_{}", f.name()), json!({"min": mn, "max": mx}));
            if mn != mx {
                let lo = ls.iter().find(|x| x.1 == *mn).unwrap();
                let hi = ls.iter().find(|x| x.1 == *mx).unwrap();
                acc.violation(Violation { sig: format!("{}: nesting limit differs between shapes/targets", f.name()), case: json!({"part": "limits", "format": f.name()}), observed: format!("deepest accepted depth {} for {} but {} for {}", lo.1, lo.0, hi.1, hi.0), expected: "one limit for arrays, maps, mixtures (and key-position nesting)".into() });
            }
            if f == Fmt::Msgpack && *mx != 1023 {
                acc.violation(Violation { sig: "MessagePack does not accept exactly 1023 collections around a scalar".into(), case: json!({"part": "limits", "format": "msgpack"}), observed: format!("deepest accepted: {mx}"), expected: "1023".into() });
            }
        }
    }
    size_hook(&mut acc, ctx.seed, ctx.size(20000, 400000));
    text_reading_as_nested_msgpack(&mut acc);
    let rule = format!("{} (source format, nesting shape, target) combinations: shapes arrays / maps / alternating / 2 random mixtures (+ key-position nesting for MessagePack; MessagePack documents also spelled with 16/32-bit length headers and with 16-entry collections on the deepest path, and with one collection of 32 768 / 50 000 entries outermost or deepest; every JSON / MessagePack / YAML document also followed by a second, tiny document) x 4 targets; depths: a +-6 window around each format's limit (MessagePack 1024, JSON 128, YAML 128, TOML 80; YAML also in block style), 1000..1025, 10^4, 10^5{} ; at every depth slice vs reader(all) vs reader(fixed 7), explicit and detected, and (depths up to 2000) detected on a translator that has just translated a detected input of each format; the debug and release binaries (default stack; file and stdin, source format given or detected) at the limit, one beyond and far beyond; MessagePack size calculator vs the harness decoder on generated, padded and truncated values; flat YAML text of 100..20 000 characters that encode as MessagePack collection markers (named vs detected); distinct non-trivial = distinct combinations", work.len(), if thorough { ", 10^6 (3*10^4 for YAML)" } else { "" });
    ev::finish(
        Finish { ctx, level: "exploration", rule, assumptions: vec!["YAML depths are capped (parsing is quadratic in depth)".into(), "targets that refuse the document for another reason (TOML with an array root) are left out of the limit comparison".into()], extra, exhaustive: false, min_distinct: 40, must_reach: vec![("binary_status_matches_library".into(), 100), ("binary_runs_debug".into(), 50), ("binary_runs_with_detection".into(), 50), ("size_hook_cases".into(), 1000), ("inproc_msgpack".into(), 100), ("msgpack_styled_documents".into(), 500)] },
        acc,
    )
}

pub fn inproc_main(_args: &[String]) -> i32 {
    2
}

pub fn replay(v: &Value) -> i32 {
    let c = &v["case"];
    let mut acc = Acc::default();
    match c["part"].as_str() {
        Some("inproc") | Some("binary") => {
            let (Some(f), Some(shape), Some(to), Some(d)) = (c["format"].as_str().and_then(Fmt::parse), c["shape"].as_str().and_then(Shape::parse), c["to"].as_str().and_then(Fmt::parse), c["depth"].as_u64()) else { return 2 };
            let l = inproc(f, shape, to, false, &mut acc);
            println!("{} {} -> {}: deepest accepted depth {:?}", f.name(), shape.name(), to.name(), l);
            if c["part"].as_str() == Some("binary") {
                let ok = run_mode(&nested(f, shape, d as usize), &Mode::Slice, Some(f), to).verdict.is_ok();
                binaries(f, shape, to, d as usize, ok, &mut acc);
            }
        }
        Some("size") => {
            println!("re-run the check to reproduce size-calculator cases");
            return 2;
        }
        _ => {
            println!("limit comparison: re-run the check");
            return 2;
        }
    }
    if acc.vio_count > 0 {
        println!("VIOLATION property=C18 replay=<this file> (reproduced): {}", acc.violations[0].observed);
        1
    } else {
        println!("not reproduced");
        0
    }
}

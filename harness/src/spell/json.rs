//! JSON speller: random whitespace, every escape form, exponent / padded /
//! 17-digit float forms.

use super::{float_text, raw_safe, Feats, FloatStyle};
use crate::model::Val;
use crate::rng::Rng;

fn ws(rng: &mut Rng, plain: bool, out: &mut String) {
    if plain {
        return;
    }
    match rng.below(10) {
        0 => out.push(' '),
        1 => out.push('\n'),
        2 => out.push('\t'),
        3 => out.push_str("  "),
        4 => out.push_str("\r\n"),
        _ => {}
    }
}

pub fn string(s: &str, rng: &mut Rng, feats: &mut Feats, plain: bool, out: &mut String) {
    out.push('"');
    for c in s.chars() {
        let u = c as u32;
        let must_escape = u < 0x20 || c == '"' || c == '\\';
        let escape = must_escape || (!plain && (rng.chance(1, 6) || !raw_safe(c) && rng.chance(1, 2)));
        if !escape {
            out.push(c);
            continue;
        }
        let short = match c {
            '"' => Some("\\\""),
            '\\' => Some("\\\\"),
            '/' => Some("\\/"),
            '\u{8}' => Some("\\b"),
            '\u{c}' => Some("\\f"),
            '\n' => Some("\\n"),
            '\r' => Some("\\r"),
            '\t' => Some("\\t"),
            _ => None,
        };
        if let Some(e) = short {
            if plain || rng.chance(2, 3) {
                out.push_str(e);
                continue;
            }
        }
        let upper = !plain && rng.chance(1, 2);
        let mut units = [0u16; 2];
        for unit in c.encode_utf16(&mut units) {
            if upper {
                out.push_str(&format!("\\u{:04X}", unit));
            } else {
                out.push_str(&format!("\\u{:04x}", unit));
            }
        }
        if u >= 0x10000 {
            feats.hit("json_surrogate_pair_escape");
        } else {
            feats.hit("json_u_escape");
        }
    }
    out.push('"');
}

fn value(v: &Val, rng: &mut Rng, feats: &mut Feats, plain: bool, out: &mut String) {
    match v {
        Val::Null => out.push_str("null"),
        Val::Bool(b) => out.push_str(if *b { "true" } else { "false" }),
        Val::Int(i) => out.push_str(&i.to_string()),
        Val::Float(b) => out.push_str(&float_text(*b, rng, feats, plain, FloatStyle::Json)),
        Val::Str(s) => string(s, rng, feats, plain, out),
        Val::Seq(xs) => {
            out.push('[');
            ws(rng, plain, out);
            for (i, x) in xs.iter().enumerate() {
                if i > 0 {
                    out.push(',');
                    ws(rng, plain, out);
                }
                value(x, rng, feats, plain, out);
                ws(rng, plain, out);
            }
            out.push(']');
        }
        Val::Map(m) => {
            out.push('{');
            ws(rng, plain, out);
            for (i, (k, x)) in m.iter().enumerate() {
                if i > 0 {
                    out.push(',');
                    ws(rng, plain, out);
                }
                match k {
                    Val::Str(s) => string(s, rng, feats, plain, out),
                    other => panic!("json speller: non-string key {other:?}"),
                }
                ws(rng, plain, out);
                out.push(':');
                ws(rng, plain, out);
                value(x, rng, feats, plain, out);
                ws(rng, plain, out);
            }
            out.push('}');
        }
        other => panic!("json speller: unsupported value {other:?}"),
    }
}

pub fn spell(v: &Val, rng: &mut Rng, feats: &mut Feats, plain: bool) -> String {
    let mut out = String::new();
    ws(rng, plain, &mut out);
    value(v, rng, feats, plain, &mut out);
    ws(rng, plain, &mut out);
    out
}

//! Hostile spellers: one model value -> many byte strings of a source format.
//! Each speller records which spelling features it used so that evidence can
//! count them.

pub mod json;
pub mod msgpack;
pub mod toml;
pub mod yaml;

use std::collections::BTreeMap;

use crate::fmts::Fmt;
use crate::model::Val;
use crate::rng::Rng;

#[derive(Default, Clone, Debug)]
pub struct Feats(pub BTreeMap<&'static str, u32>);

impl Feats {
    pub fn hit(&mut self, name: &'static str) {
        *self.0.entry(name).or_insert(0) += 1;
    }
    pub fn has(&self, name: &str) -> bool {
        self.0.contains_key(name)
    }
}

/// Spells one document in format `f`. `plain = true` asks for the most
/// conventional spelling (no exotic features), used as a baseline.
pub fn spell(f: Fmt, v: &Val, rng: &mut Rng, feats: &mut Feats, plain: bool) -> Vec<u8> {
    match f {
        Fmt::Json => json::spell(v, rng, feats, plain).into_bytes(),
        Fmt::Msgpack => msgpack::spell(v, rng, feats, plain),
        Fmt::Toml => toml::spell(v, rng, feats, plain).into_bytes(),
        Fmt::Yaml => yaml::spell_doc(v, rng, feats, plain).into_bytes(),
    }
}

/// Spells a finite f64 as decimal text that denotes exactly that value, in one
/// of several forms. `exp_ok`: exponent forms allowed; `need_dot`: the text must
/// contain '.' or an exponent so it cannot be taken for an integer.
pub fn float_text(bits: u64, rng: &mut Rng, feats: &mut Feats, plain: bool, style: FloatStyle) -> String {
    let x = f64::from_bits(bits);
    debug_assert!(x.is_finite());
    let shortest = format!("{:?}", x); // e.g. 1.0, 0.1, 1e16, 1.5e-7
    let choice = if plain { 0 } else { rng.below(6) };
    let cand = match choice {
        0 => shortest.clone(),
        1 => {
            feats.hit("float_17sig");
            format!("{:.16e}", x)
        }
        2 => {
            feats.hit("float_exp_upper_plus_padded");
            // d.ddddE+0NN
            let s = format!("{:e}", x);
            let (m, e) = s.split_once('e').unwrap();
            let (sign, digits) = match e.strip_prefix('-') {
                Some(d) => ("-", d),
                None => ("+", e),
            };
            format!("{}E{}{:0>3}", m, sign, digits)
        }
        3 => {
            // plain decimal expansion with many digits, for moderately sized values
            if x == 0.0 || (x.abs() >= 1e-4 && x.abs() < 1e17) {
                feats.hit("float_long_decimal");
                let s = format!("{:.40}", x);
                // trim some zeros but keep at least one fractional digit
                let t = s.trim_end_matches('0');
                if t.ends_with('.') {
                    format!("{t}0")
                } else {
                    t.to_string()
                }
            } else {
                shortest.clone()
            }
        }
        4 => {
            feats.hit("float_more_digits");
            format!("{:.20e}", x)
        }
        _ => {
            feats.hit("float_exp_lower");
            format!("{:e}", x)
        }
    };
    let mut cand = match style {
        FloatStyle::Json => cand,
        FloatStyle::Toml => toml_float_fix(&cand),
        FloatStyle::Yaml => cand,
    };
    // must look like a float, and must denote exactly the value
    let looks_float = cand.contains('.') || cand.contains('e') || cand.contains('E');
    if !looks_float {
        cand = shortest.clone();
    }
    let parsed: Result<f64, _> = cand.parse::<f64>();
    if parsed.map(|p| p.to_bits()) != Ok(bits) {
        cand = shortest.clone();
        if style == FloatStyle::Toml {
            cand = toml_float_fix(&cand);
        }
    }
    cand
}

#[derive(Clone, Copy, PartialEq)]
pub enum FloatStyle {
    Json,
    Toml,
    Yaml,
}

/// TOML requires digits on both sides of a '.', and "1e16" is fine.
fn toml_float_fix(s: &str) -> String {
    s.to_string()
}

/// A conservative set of characters that may appear raw in any text format's
/// quoted string without being altered by the scanner: printable, not a line
/// break in any YAML version, not BOM, not a non-character.
pub fn raw_safe(c: char) -> bool {
    match c {
        '\t' => false,
        ' '..='~' => true,
        '\u{a0}'..='\u{d7ff}' => c != '\u{2028}' && c != '\u{2029}',
        '\u{e000}'..='\u{fffd}' => c != '\u{feff}',
        '\u{10000}'..='\u{10ffff}' => (c as u32) & 0xfffe != 0xfffe,
        _ => false,
    }
}

//! MessagePack speller: minimal and every non-minimal width.

use super::Feats;
use crate::model::Val;
use crate::rng::Rng;

fn be(out: &mut Vec<u8>, v: u64, w: usize) {
    out.extend_from_slice(&v.to_be_bytes()[8 - w..]);
}

pub fn int(i: i128, rng: &mut Rng, feats: &mut Feats, plain: bool, out: &mut Vec<u8>) {
    // candidate encodings that can hold i
    let mut c: Vec<u8> = vec![];
    if (0..=127).contains(&i) {
        c.push(0);
    }
    if (-32..0).contains(&i) {
        c.push(1);
    }
    if (0..=0xff).contains(&i) {
        c.push(0xcc);
    }
    if (0..=0xffff).contains(&i) {
        c.push(0xcd);
    }
    if (0..=0xffff_ffff).contains(&i) {
        c.push(0xce);
    }
    if (0..=u64::MAX as i128).contains(&i) {
        c.push(0xcf);
    }
    if (i8::MIN as i128..=i8::MAX as i128).contains(&i) {
        c.push(0xd0);
    }
    if (i16::MIN as i128..=i16::MAX as i128).contains(&i) {
        c.push(0xd1);
    }
    if (i32::MIN as i128..=i32::MAX as i128).contains(&i) {
        c.push(0xd2);
    }
    if (i64::MIN as i128..=i64::MAX as i128).contains(&i) {
        c.push(0xd3);
    }
    assert!(!c.is_empty(), "msgpack speller: integer {i} out of range");
    let pick = if plain { c[0] } else { *rng.pick(&c) };
    if pick != c[0] {
        feats.hit("msgpack_nonminimal_int");
    }
    match pick {
        0 => out.push(i as u8),
        1 => out.push(i as i8 as u8),
        0xcc | 0xd0 => {
            out.push(pick);
            be(out, i as u64, 1)
        }
        0xcd | 0xd1 => {
            out.push(pick);
            be(out, i as u64, 2)
        }
        0xce | 0xd2 => {
            out.push(pick);
            be(out, i as u64, 4)
        }
        _ => {
            out.push(pick);
            be(out, i as u64, 8)
        }
    }
}

fn len_header(n: usize, fix: Option<(u8, usize)>, m8: Option<u8>, m16: u8, m32: u8, rng: &mut Rng, feats: &mut Feats, plain: bool, out: &mut Vec<u8>) {
    let mut c: Vec<u8> = vec![];
    if let Some((_, max)) = fix {
        if n <= max {
            c.push(0);
        }
    }
    if m8.is_some() && n <= 0xff {
        c.push(1);
    }
    if n <= 0xffff {
        c.push(2);
    }
    c.push(3);
    let pick = if plain { c[0] } else { *rng.pick(&c) };
    if pick != c[0] {
        feats.hit("msgpack_nonminimal_length");
    }
    match pick {
        0 => out.push(fix.unwrap().0 | n as u8),
        1 => {
            out.push(m8.unwrap());
            be(out, n as u64, 1)
        }
        2 => {
            out.push(m16);
            be(out, n as u64, 2)
        }
        _ => {
            out.push(m32);
            be(out, n as u64, 4)
        }
    }
}

pub fn value(v: &Val, rng: &mut Rng, feats: &mut Feats, plain: bool, out: &mut Vec<u8>) {
    match v {
        Val::Null => out.push(0xc0),
        Val::Bool(b) => out.push(if *b { 0xc3 } else { 0xc2 }),
        Val::Int(i) => int(*i, rng, feats, plain, out),
        Val::Float(b) => {
            out.push(0xcb);
            be(out, *b, 8)
        }
        Val::F32(b) => {
            out.push(0xca);
            be(out, *b as u64, 4)
        }
        Val::Str(s) => {
            len_header(s.len(), Some((0xa0, 31)), Some(0xd9), 0xda, 0xdb, rng, feats, plain, out);
            out.extend_from_slice(s.as_bytes());
        }
        Val::Bytes(b) => {
            len_header(b.len(), None, Some(0xc4), 0xc5, 0xc6, rng, feats, plain, out);
            out.extend_from_slice(b);
        }
        Val::Seq(xs) => {
            len_header(xs.len(), Some((0x90, 15)), None, 0xdc, 0xdd, rng, feats, plain, out);
            for x in xs {
                value(x, rng, feats, plain, out);
            }
        }
        Val::Map(m) => {
            len_header(m.len(), Some((0x80, 15)), None, 0xde, 0xdf, rng, feats, plain, out);
            for (k, x) in m {
                value(k, rng, feats, plain, out);
                value(x, rng, feats, plain, out);
            }
        }
        Val::Ext(t, d) => {
            match d.len() {
                1 => out.push(0xd4),
                2 => out.push(0xd5),
                4 => out.push(0xd6),
                8 => out.push(0xd7),
                16 => out.push(0xd8),
                n if n <= 0xff => {
                    out.push(0xc7);
                    be(out, n as u64, 1)
                }
                n if n <= 0xffff => {
                    out.push(0xc8);
                    be(out, n as u64, 2)
                }
                n => {
                    out.push(0xc9);
                    be(out, n as u64, 4)
                }
            }
            out.push(*t as u8);
            out.extend_from_slice(d);
        }
        Val::Datetime(_) => panic!("msgpack speller: datetime"),
    }
}

pub fn spell(v: &Val, rng: &mut Rng, feats: &mut Feats, plain: bool) -> Vec<u8> {
    let mut out = vec![];
    value(v, rng, feats, plain, &mut out);
    out
}

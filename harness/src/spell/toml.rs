//! TOML speller: basic / literal / multi-line strings, underscores and radix
//! forms, inline tables vs headers vs dotted keys, arrays of tables.
//!
//! Order discipline: the model's entry order is the order a TOML reader sees
//! keys for the first time. Within one table, entries spelled with `[header]`
//! or `[[header]]` must therefore come after every entry spelled inline, so
//! only a suffix of the entries that consists solely of tables / arrays of
//! tables may be spelled as headers.

use super::{float_text, Feats, FloatStyle};
use crate::model::Val;
use crate::rng::Rng;

fn is_bare_key(s: &str) -> bool {
    !s.is_empty() && s.bytes().all(|c| c.is_ascii_alphanumeric() || c == b'_' || c == b'-')
}

fn basic_string_body(s: &str, rng: &mut Rng, feats: &mut Feats, plain: bool, multiline: bool, out: &mut String) {
    for c in s.chars() {
        let u = c as u32;
        let must = (u < 0x20 && !(multiline && c == '\n') && c != '\t') || c == '"' || c == '\\' || u == 0x7f || !raw_safe_toml(c);
        if !must && (plain || !rng.chance(1, 8)) {
            out.push(c);
            continue;
        }
        let short = match c {
            '\u{8}' => Some("\\b"),
            '\t' => Some("\\t"),
            '\n' => Some("\\n"),
            '\u{c}' => Some("\\f"),
            '\r' => Some("\\r"),
            '"' => Some("\\\""),
            '\\' => Some("\\\\"),
            _ => None,
        };
        if let Some(e) = short {
            if plain || rng.chance(2, 3) {
                out.push_str(e);
                continue;
            }
        }
        if u <= 0xffff && (plain || rng.chance(1, 2)) {
            out.push_str(&format!("\\u{:04X}", u));
            feats.hit("toml_u4_escape");
        } else {
            out.push_str(&format!("\\U{:08X}", u));
            feats.hit("toml_u8_escape");
        }
    }
}

/// Characters TOML allows raw inside basic strings (non-ASCII is allowed; we
/// stay within the conservative shared set plus tab).
fn raw_safe_toml(c: char) -> bool {
    let u = c as u32;
    c == '\t' || c == '\n' || (u >= 0x20 && u != 0x7f)
}

pub fn string(s: &str, rng: &mut Rng, feats: &mut Feats, plain: bool, out: &mut String) {
    let has_ctl = s.chars().any(|c| ((c as u32) < 0x20 && c != '\t') || c as u32 == 0x7f);
    let literal_ok = !has_ctl && !s.contains('\'');
    let choice = if plain { 0 } else { rng.below(6) };
    match choice {
        1 | 2 if literal_ok => {
            feats.hit("toml_literal_string");
            out.push('\'');
            out.push_str(s);
            out.push('\'');
        }
        3 if s.contains('\n') || rng.chance(1, 3) => {
            feats.hit("toml_multiline_basic");
            out.push_str("\"\"\"");
            if rng.chance(1, 2) || s.starts_with('\n') {
                out.push('\n'); // a newline right after the delimiter is trimmed
            }
            basic_string_body(s, rng, feats, plain, true, out);
            out.push_str("\"\"\"");
        }
        4 if !s.chars().any(|c| ((c as u32) < 0x20 && c != '\t' && c != '\n') || c as u32 == 0x7f) && !s.contains("''") && !s.ends_with('\'') && !s.starts_with('\'') && (s.contains('\n') || rng.chance(1, 3)) => {
            feats.hit("toml_multiline_literal");
            out.push_str("'''");
            if rng.chance(1, 2) || s.starts_with('\n') {
                out.push('\n');
            }
            out.push_str(s);
            out.push_str("'''");
        }
        _ => {
            out.push('"');
            basic_string_body(s, rng, feats, plain, false, out);
            out.push('"');
        }
    }
}

pub fn key(s: &str, rng: &mut Rng, feats: &mut Feats, plain: bool, out: &mut String) {
    if is_bare_key(s) && (plain || rng.chance(4, 5)) {
        out.push_str(s);
        return;
    }
    let has_ctl = s.chars().any(|c| ((c as u32) < 0x20 && c != '\t') || c as u32 == 0x7f);
    if !has_ctl && !s.contains('\'') && !plain && rng.chance(1, 3) {
        feats.hit("toml_literal_key");
        out.push('\'');
        out.push_str(s);
        out.push('\'');
    } else {
        feats.hit("toml_quoted_key");
        out.push('"');
        basic_string_body(s, rng, feats, plain, false, out);
        out.push('"');
    }
}

fn underscored(digits: &str, rng: &mut Rng) -> String {
    let mut o = String::new();
    let b = digits.as_bytes();
    for (i, c) in b.iter().enumerate() {
        o.push(*c as char);
        if i + 1 < b.len() && rng.chance(1, 3) {
            o.push('_');
        }
    }
    o
}

fn int(i: i128, rng: &mut Rng, feats: &mut Feats, plain: bool, out: &mut String) {
    let choice = if plain { 0 } else { rng.below(8) };
    match choice {
        1 if i >= 0 => {
            feats.hit("toml_hex_int");
            out.push_str(&format!("0x{}", underscored(&format!("{:X}", i), rng)));
        }
        2 if i >= 0 => {
            feats.hit("toml_oct_int");
            out.push_str(&format!("0o{:o}", i));
        }
        3 if i >= 0 => {
            feats.hit("toml_bin_int");
            out.push_str(&format!("0b{}", underscored(&format!("{:b}", i), rng)));
        }
        4 if i >= 0 => {
            feats.hit("toml_plus_int");
            out.push_str(&format!("+{}", i));
        }
        5 => {
            feats.hit("toml_underscore_int");
            let s = i.to_string();
            match s.strip_prefix('-') {
                Some(d) => out.push_str(&format!("-{}", underscored(d, rng))),
                None => out.push_str(&underscored(&s, rng)),
            }
        }
        _ => out.push_str(&i.to_string()),
    }
}

fn is_aot(v: &Val) -> bool {
    matches!(v, Val::Seq(s) if !s.is_empty() && s.iter().all(|x| x.is_map()))
}

fn inline_value(v: &Val, rng: &mut Rng, feats: &mut Feats, plain: bool, out: &mut String) {
    match v {
        Val::Bool(b) => out.push_str(if *b { "true" } else { "false" }),
        Val::Int(i) => int(*i, rng, feats, plain, out),
        Val::Float(b) => {
            let x = f64::from_bits(*b);
            if x.is_nan() {
                out.push_str("nan");
            } else if x.is_infinite() {
                out.push_str(if x > 0.0 { "inf" } else { "-inf" });
            } else {
                out.push_str(&float_text(*b, rng, feats, plain, FloatStyle::Toml));
            }
        }
        Val::Str(s) => string(s, rng, feats, plain, out),
        Val::Datetime(d) => out.push_str(d),
        Val::Seq(xs) => {
            out.push('[');
            let nl = !plain && rng.chance(1, 4);
            for (i, x) in xs.iter().enumerate() {
                if i > 0 {
                    out.push(',');
                }
                if nl {
                    out.push_str("\n  ");
                } else if i > 0 {
                    out.push(' ');
                }
                inline_value(x, rng, feats, plain, out);
            }
            if nl && !xs.is_empty() {
                if rng.chance(1, 2) {
                    out.push(',');
                    feats.hit("toml_trailing_comma");
                }
                out.push('\n');
            }
            out.push(']');
        }
        Val::Map(m) => {
            feats.hit("toml_inline_table");
            out.push('{');
            for (i, (k, x)) in m.iter().enumerate() {
                if i > 0 {
                    out.push(',');
                }
                out.push(' ');
                key_of(k, rng, feats, plain, out);
                out.push_str(" = ");
                inline_value(x, rng, feats, plain, out);
            }
            if !m.is_empty() {
                out.push(' ');
            }
            out.push('}');
        }
        other => panic!("toml speller: unsupported value {other:?}"),
    }
}

fn key_of(k: &Val, rng: &mut Rng, feats: &mut Feats, plain: bool, out: &mut String) {
    match k {
        Val::Str(s) => key(s, rng, feats, plain, out),
        other => panic!("toml speller: non-string key {other:?}"),
    }
}

fn path_text(path: &[String]) -> String {
    path.join(".")
}

/// Emits the body of a table whose header (if any) has already been written.
fn table_body(m: &[(Val, Val)], path: &mut Vec<String>, rng: &mut Rng, feats: &mut Feats, plain: bool, out: &mut String) {
    // The longest suffix of entries that are tables / arrays of tables.
    let mut suffix_start = m.len();
    while suffix_start > 0 && (m[suffix_start - 1].1.is_map() || is_aot(&m[suffix_start - 1].1)) {
        suffix_start -= 1;
    }
    // Entries from `split` on are spelled with headers.
    let split = if plain { suffix_start } else { rng.range(suffix_start, m.len()) };
    for (k, v) in &m[..split] {
        // dotted keys for table values, sometimes
        if let (Val::Map(inner), false) = (v, plain) {
            if !inner.is_empty() && rng.chance(1, 3) && inner.iter().all(|(_, x)| !x.is_map() || true) {
                feats.hit("toml_dotted_key");
                let mut kt = String::new();
                key_of(k, rng, feats, plain, &mut kt);
                for (ik, iv) in inner {
                    out.push_str(&kt);
                    if rng.chance(1, 4) {
                        out.push_str(" . ");
                    } else {
                        out.push('.');
                    }
                    key_of(ik, rng, feats, plain, out);
                    out.push_str(" = ");
                    inline_value(iv, rng, feats, plain, out);
                    eol(rng, plain, out);
                }
                continue;
            }
        }
        key_of(k, rng, feats, plain, out);
        out.push_str(if plain || rng.chance(3, 4) { " = " } else { "=" });
        inline_value(v, rng, feats, plain, out);
        eol(rng, plain, out);
    }
    for (k, v) in &m[split..] {
        let mut kt = String::new();
        key_of(k, rng, feats, plain, &mut kt);
        path.push(kt);
        match v {
            Val::Map(inner) => {
                feats.hit("toml_table_header");
                if !plain && rng.chance(1, 5) {
                    out.push('\n');
                }
                out.push_str(&format!("[{}]", path_text(path)));
                eol(rng, plain, out);
                table_body(inner, path, rng, feats, plain, out);
            }
            Val::Seq(items) => {
                feats.hit("toml_array_of_tables");
                for it in items {
                    let Val::Map(inner) = it else { unreachable!() };
                    out.push_str(&format!("[[{}]]", path_text(path)));
                    eol(rng, plain, out);
                    table_body(inner, path, rng, feats, plain, out);
                }
            }
            _ => unreachable!(),
        }
        path.pop();
    }
}

fn eol(rng: &mut Rng, plain: bool, out: &mut String) {
    if !plain {
        match rng.below(10) {
            0 => out.push_str(" # comment"),
            1 => out.push_str("  "),
            2 => {
                out.push_str("\n# a full-line comment");
            }
            3 => out.push('\n'),
            4 => {
                out.push_str("\r\n");
                return;
            }
            _ => {}
        }
    }
    out.push('\n');
}

pub fn spell(v: &Val, rng: &mut Rng, feats: &mut Feats, plain: bool) -> String {
    let Val::Map(m) = v else { panic!("toml speller: root must be a table") };
    let mut out = String::new();
    if !plain && rng.chance(1, 6) {
        out.push_str("# leading comment\n\n");
    }
    let mut path = vec![];
    table_body(m, &mut path, rng, feats, plain, &mut out);
    out
}

//! YAML speller: block vs flow, plain / single / double / literal / folded
//! scalars where legal, escapes, explicit tags, anchors and aliases, comments,
//! document markers, directives.

use super::{float_text, raw_safe, Feats, FloatStyle};
use crate::model::Val;
use crate::read::yaml::resolve_plain;
use crate::rng::Rng;

/// Strings that serde_yaml (or YAML 1.1 readers) could take for something other
/// than a string although the 1.2 core schema says string; never spelled plain.
fn quirky(s: &str) -> bool {
    let l = s.to_ascii_lowercase();
    matches!(l.as_str(), "y" | "n" | "yes" | "no" | "on" | "off" | "inf" | "nan" | "infinity" | "+inf" | "-inf" | "+nan" | "-nan" | "<<" | "=")
        || l.starts_with("0b")
        || l.starts_with("+0")
        || l.starts_with("-0")
        || s.contains('_') && s.bytes().any(|c| c.is_ascii_digit())
        || s.bytes().next().map(|c| c.is_ascii_digit() || c == b'.' || c == b'+' || c == b'-').unwrap_or(false)
}

/// Conservative: may `s` be written as a plain scalar in any context?
fn plain_ok(s: &str) -> bool {
    if s.is_empty() || s.len() > 200 || quirky(s) {
        return false;
    }
    if !matches!(resolve_plain(s), Val::Str(_)) {
        return false;
    }
    let first = s.chars().next().unwrap();
    if !(first.is_alphanumeric() || first == '_' || first == '/') || !raw_safe(first) {
        return false;
    }
    let last = s.chars().last().unwrap();
    if last == ' ' || last == ':' {
        return false;
    }
    let mut prev = ' ';
    for c in s.chars() {
        let ok = raw_safe(c) && (c.is_alphanumeric() || matches!(c, '_' | '/' | '.' | '-' | ' ' | '+' | '@' | '(' | ')' | ';' | '=' | '~' | '$' | '^' | '<' | '>' | '*' | '&' | '!' | '%' | '\'' | '"' | ':' | '#'));
        if !ok {
            return false;
        }
        if c == '#' && prev == ' ' {
            return false;
        }
        if prev == ':' && c == ' ' {
            return false;
        }
        if c == ' ' && prev == ' ' {
            return false; // keep clear of folding questions
        }
        prev = c;
    }
    true
}

fn single_ok(s: &str) -> bool {
    s.chars().all(raw_safe)
}

fn double_quoted(s: &str, rng: &mut Rng, feats: &mut Feats, plain: bool, out: &mut String) {
    out.push('"');
    for c in s.chars() {
        let u = c as u32;
        // U+FEFF inside content is not YAML 1.2 (nb-char excludes the byte order mark), but libyaml - and
        // therefore xt and the harness's reader - take it as an ordinary character: a hostile spelling
        // leaves it raw (it can never open the stream here, so it cannot be taken for a mark)
        let must = (!raw_safe(c) && !(c == '\u{feff}' && !plain)) || c == '"' || c == '\\';
        if !must && (plain || !rng.chance(1, 8)) {
            if c == '\u{feff}' {
                feats.hit("yaml_raw_bom_character_in_content");
            }
            out.push(c);
            continue;
        }
        let named = match c {
            '\0' => Some("\\0"),
            '\u{7}' => Some("\\a"),
            '\u{8}' => Some("\\b"),
            '\t' => Some("\\t"),
            '\n' => Some("\\n"),
            '\u{b}' => Some("\\v"),
            '\u{c}' => Some("\\f"),
            '\r' => Some("\\r"),
            '\u{1b}' => Some("\\e"),
            '"' => Some("\\\""),
            '/' => Some("\\/"),
            '\\' => Some("\\\\"),
            '\u{85}' => Some("\\N"),
            '\u{a0}' => Some("\\_"),
            '\u{2028}' => Some("\\L"),
            '\u{2029}' => Some("\\P"),
            ' ' => Some("\\ "),
            _ => None,
        };
        if let Some(n) = named {
            if plain || rng.chance(2, 3) {
                out.push_str(n);
                continue;
            }
        }
        if u <= 0xff && (plain || rng.chance(1, 2)) {
            feats.hit("yaml_x_escape");
            out.push_str(&format!("\\x{:02x}", u));
        } else if u <= 0xffff && (plain || rng.chance(1, 2)) {
            feats.hit("yaml_u_escape");
            out.push_str(&format!("\\u{:04X}", u));
        } else {
            feats.hit("yaml_U_escape");
            out.push_str(&format!("\\U{:08x}", u));
        }
    }
    out.push('"');
}

/// Can `s` be a literal block scalar with clip (`|`) or strip (`|-`) chomping?
fn literal_ok(s: &str) -> bool {
    if s.is_empty() || s.starts_with(' ') || s.starts_with('\n') || s.starts_with('\t') {
        return false;
    }
    if s.ends_with("\n\n") {
        return false;
    }
    let body = s.strip_suffix('\n').unwrap_or(s);
    if body.is_empty() {
        return false;
    }
    for line in body.split('\n') {
        if line.chars().any(|c| !raw_safe(c)) {
            return false;
        }
        if line.ends_with(' ') || (line.is_empty() && false) {
            return false;
        }
        if line.starts_with(' ') && line.trim().is_empty() {
            return false;
        }
    }
    // a trailing empty line inside the body would be chomped
    !body.ends_with('\n')
}

struct Sp<'a> {
    rng: &'a mut Rng,
    feats: &'a mut Feats,
    plain: bool,
    anchors: Vec<(String, String)>, // (shown value, anchor name)
    anchor_mode: bool,
}

fn pad(n: usize) -> String {
    " ".repeat(n)
}

impl<'a> Sp<'a> {
    fn ch(&mut self, n: usize, d: usize) -> bool {
        !self.plain && self.rng.chance(n, d)
    }

    /// Scalar text for a single-line position (map value, seq item, flow item,
    /// key). Never contains a newline.
    fn inline_scalar(&mut self, v: &Val, flow: bool, is_key: bool) -> String {
        let mut o = String::new();
        match v {
            Val::Null => {
                let forms = ["null", "~", "Null", "NULL"];
                if self.plain {
                    o.push_str("null");
                } else if self.rng.chance(1, 8) {
                    self.feats.hit("yaml_tag_null");
                    o.push_str("!!null ~");
                } else {
                    o.push_str(forms[self.rng.below(forms.len())]);
                }
            }
            Val::Bool(b) => {
                let t = ["true", "True", "TRUE"];
                let f = ["false", "False", "FALSE"];
                let i = if self.plain { 0 } else { self.rng.below(3) };
                o.push_str(if *b { t[i] } else { f[i] });
            }
            Val::Int(i) => {
                let c = if self.plain { 0 } else { self.rng.below(10) };
                match c {
                    1 if *i >= 0 => {
                        self.feats.hit("yaml_hex_int");
                        o.push_str(&format!("0x{:x}", i));
                    }
                    2 if *i >= 0 => {
                        self.feats.hit("yaml_oct_int");
                        o.push_str(&format!("0o{:o}", i));
                    }
                    3 if *i >= 0 => {
                        self.feats.hit("yaml_plus_int");
                        o.push_str(&format!("+{}", i));
                    }
                    4 => {
                        self.feats.hit("yaml_tag_int");
                        o.push_str(&format!("!!int {}", i));
                    }
                    5 => {
                        self.feats.hit("yaml_tag_int_quoted");
                        o.push_str(&format!("!!int \"{}\"", i));
                    }
                    _ => o.push_str(&i.to_string()),
                }
            }
            Val::Float(b) => {
                let x = f64::from_bits(*b);
                if x.is_nan() {
                    o.push_str(*self.rng.pick(&[".nan", ".NaN", ".NAN"]));
                } else if x.is_infinite() {
                    if x > 0.0 {
                        o.push_str(*self.rng.pick(&[".inf", ".Inf", ".INF", "+.inf"]));
                    } else {
                        o.push_str(*self.rng.pick(&["-.inf", "-.Inf", "-.INF"]));
                    }
                } else {
                    let t = float_text(*b, self.rng, self.feats, self.plain, FloatStyle::Yaml);
                    if self.ch(1, 10) {
                        self.feats.hit("yaml_tag_float");
                        o.push_str(&format!("!!float {}", t));
                    } else {
                        o.push_str(&t);
                    }
                }
            }
            Val::Str(s) => {
                let can_plain = plain_ok(s) && !(flow && s.contains([',', '[', ']', '{', '}'])) && !(is_key && s.len() > 100);
                let can_single = single_ok(s);
                let c = if self.plain { 0 } else { self.rng.below(8) };
                if can_plain && (c <= 2) {
                    o.push_str(s);
                } else if can_plain && c == 3 {
                    self.feats.hit("yaml_tag_str");
                    o.push_str("!!str ");
                    o.push_str(s);
                } else if can_single && (c == 4 || c == 5) {
                    self.feats.hit("yaml_single_quoted");
                    o.push('\'');
                    o.push_str(&s.replace('\'', "''"));
                    o.push('\'');
                } else {
                    self.feats.hit("yaml_double_quoted");
                    double_quoted(s, self.rng, self.feats, self.plain, &mut o);
                }
            }
            other => panic!("yaml speller: not a scalar {other:?}"),
        }
        o
    }

    fn flow(&mut self, v: &Val) -> String {
        match v {
            Val::Seq(xs) => {
                let mut o = String::from("[");
                for (i, x) in xs.iter().enumerate() {
                    if i > 0 {
                        o.push_str(", ");
                    }
                    o.push_str(&self.flow(x));
                }
                o.push(']');
                o
            }
            Val::Map(m) => {
                let mut o = String::from("{");
                for (i, (k, x)) in m.iter().enumerate() {
                    if i > 0 {
                        o.push_str(", ");
                    }
                    if k.is_collection() {
                        o.push_str("? ");
                        o.push_str(&self.flow(k));
                        o.push_str(" : ");
                    } else if matches!(k, Val::Str(s) if s.len() > 200) {
                        // an implicit key may not be longer than 1024 characters: long keys take the explicit form
                        self.feats.hit("yaml_explicit_key");
                        o.push_str("? ");
                        o.push_str(&self.inline_scalar(k, true, true));
                        o.push_str(" : ");
                    } else {
                        o.push_str(&self.inline_scalar(k, true, true));
                        o.push_str(": ");
                    }
                    o.push_str(&self.flow(x));
                }
                o.push('}');
                o
            }
            s => self.inline_scalar(s, true, false),
        }
    }

    /// Anchor / alias handling for a value about to be emitted at a value
    /// position. Returns Some(alias text) if an alias replaces the node, and
    /// otherwise an optional "&name " prefix.
    fn anchor_for(&mut self, v: &Val) -> (Option<String>, String) {
        if !self.anchor_mode || matches!(v, Val::Float(_) | Val::Null | Val::Bool(_)) {
            return (None, String::new());
        }
        let shown = v.show();
        if let Some((_, name)) = self.anchors.iter().find(|(s, _)| *s == shown) {
            if self.rng.chance(2, 3) {
                self.feats.hit("yaml_alias");
                return (Some(format!("*{name}")), String::new());
            }
            return (None, String::new());
        }
        if self.rng.chance(1, 3) {
            let name = format!("a{}", self.anchors.len() + 1);
            self.anchors.push((shown, name.clone()));
            self.feats.hit("yaml_anchor");
            return (None, format!("&{name} "));
        }
        (None, String::new())
    }

    /// Emits `v` at a value position that continues the current line (after
    /// "key:" or "-" or "---"); `ind` is the indentation for nested block lines.
    /// The result starts with a space or a newline as needed and ends with '\n'.
    fn value_after(&mut self, v: &Val, ind: usize, allow_compact: bool) -> String {
        let (alias, anchor) = self.anchor_for(v);
        if let Some(a) = alias {
            return format!(" {a}\n");
        }
        match v {
            Val::Seq(xs) if !xs.is_empty() && !self.ch(1, 5) => {
                if allow_compact && anchor.is_empty() && self.ch(1, 2) {
                    self.feats.hit("yaml_compact_nested");
                    let b = self.block(v, ind);
                    format!(" {}", &b[ind..])
                } else {
                    format!("{}{}\n{}", if anchor.is_empty() { "" } else { " " }, anchor.trim_end(), self.block(v, ind))
                }
            }
            Val::Map(m) if !m.is_empty() && !self.ch(1, 5) => {
                if allow_compact && anchor.is_empty() && self.ch(1, 2) {
                    self.feats.hit("yaml_compact_nested");
                    let b = self.block(v, ind);
                    format!(" {}", &b[ind..])
                } else {
                    format!("{}{}\n{}", if anchor.is_empty() { "" } else { " " }, anchor.trim_end(), self.block(v, ind))
                }
            }
            Val::Seq(_) | Val::Map(_) => {
                self.feats.hit("yaml_flow_collection");
                format!(" {}{}\n", anchor, self.flow(v))
            }
            Val::Str(s) if !self.plain && literal_ok(s) && self.rng.chance(1, 2) => {
                self.feats.hit("yaml_literal_block");
                let (body, head) = match s.strip_suffix('\n') {
                    Some(b) => (b, "|"),
                    None => (s.as_str(), "|-"),
                };
                let mut o = format!(" {}{}\n", anchor, head);
                for line in body.split('\n') {
                    if line.is_empty() {
                        o.push('\n');
                    } else {
                        o.push_str(&pad(ind.max(1)));
                        o.push_str(line);
                        o.push('\n');
                    }
                }
                o
            }
            Val::Str(s) if !self.plain && !s.contains('\n') && literal_ok(s) && !s.contains("  ") && self.rng.chance(1, 6) => {
                self.feats.hit("yaml_folded_block");
                format!(" {}>-\n{}{}\n", anchor, pad(ind.max(1)), s)
            }
            s => {
                let t = self.inline_scalar(s, false, false);
                let comment = if self.ch(1, 10) && !t.is_empty() {
                    self.feats.hit("yaml_comment");
                    " # c"
                } else {
                    ""
                };
                format!(" {}{}{}\n", anchor, t, comment)
            }
        }
    }

    /// A non-empty block collection as full lines indented by `ind`.
    fn block(&mut self, v: &Val, ind: usize) -> String {
        let mut o = String::new();
        match v {
            Val::Seq(xs) => {
                for (n, x) in xs.iter().enumerate() {
                    if n > 0 && self.ch(1, 30) {
                        self.feats.hit("yaml_comment_line");
                        o.push_str(&format!("{}# comment line\n", pad(ind)));
                    }
                    o.push_str(&pad(ind));
                    o.push('-');
                    o.push_str(&self.value_after(x, ind + 2, true));
                }
            }
            Val::Map(m) => {
                for (n, (k, x)) in m.iter().enumerate() {
                    if n > 0 && self.ch(1, 30) {
                        o.push('\n');
                    }
                    o.push_str(&pad(ind));
                    let explicit = k.is_collection() || matches!(k, Val::Str(s) if s.len() > 100) || self.ch(1, 12);
                    if explicit {
                        self.feats.hit("yaml_explicit_key");
                        o.push('?');
                        let kt = self.value_after(k, ind + 2, true);
                        o.push_str(&kt);
                        o.push_str(&pad(ind));
                        o.push(':');
                        o.push_str(&self.value_after(x, ind + 2, true));
                    } else {
                        o.push_str(&self.inline_scalar(k, false, true));
                        o.push(':');
                        // a sequence as a map value may sit at the same indentation
                        let same = matches!(x, Val::Seq(s) if !s.is_empty()) && self.ch(1, 3);
                        if same {
                            self.feats.hit("yaml_seq_same_indent");
                        }
                        o.push_str(&self.value_after(x, if same { ind } else { ind + 2 }, false));
                    }
                }
            }
            _ => unreachable!(),
        }
        o
    }
}

/// How the document is introduced.
#[derive(Clone, Copy, PartialEq, Debug)]
pub enum Intro {
    /// No marker: the document starts implicitly.
    Implicit,
    /// `---` on its own line.
    Marker,
    /// `--- value` for the root on the marker line (scalars and flow only).
    MarkerInline,
    /// `%YAML 1.2` directive followed by `---`.
    Directive,
}

pub struct DocOpts {
    pub intro: Intro,
    /// Terminate with an explicit `...` line.
    pub end_marker: bool,
    /// Indent the whole root block by this many spaces (exposes chunk-offset
    /// mistakes; only for implicit block roots).
    pub root_indent: usize,
    pub leading_comment: bool,
}

pub fn spell_doc_with(v: &Val, rng: &mut Rng, feats: &mut Feats, plain: bool, opts: &DocOpts) -> String {
    let anchor_mode = !plain && rng.chance(1, 6);
    let mut sp = Sp { rng, feats, plain, anchors: vec![], anchor_mode };
    let mut o = String::new();
    if opts.leading_comment {
        o.push_str("# leading comment\n\n");
    }
    let block_root = matches!(v, Val::Seq(s) if !s.is_empty()) || matches!(v, Val::Map(m) if !m.is_empty());
    match opts.intro {
        Intro::Implicit => {}
        Intro::Marker | Intro::MarkerInline => o.push_str("---"),
        Intro::Directive => {
            sp.feats.hit("yaml_directive");
            o.push_str("%YAML 1.2\n---");
        }
    }
    let explicit = opts.intro != Intro::Implicit;
    if block_root && opts.intro != Intro::MarkerInline {
        if explicit {
            o.push('\n');
        }
        let ind = if opts.intro == Intro::Implicit { opts.root_indent } else { 0 };
        if ind > 0 {
            sp.feats.hit("yaml_indented_root");
        }
        o.push_str(&sp.block(v, ind));
    } else if block_root {
        // MarkerInline with a block root: use flow on the marker line
        sp.feats.hit("yaml_marker_inline");
        o.push(' ');
        o.push_str(&sp.flow(v));
        o.push('\n');
    } else {
        // scalar or empty collection root
        let t = sp.value_after(v, 2, false);
        if explicit {
            if opts.intro == Intro::MarkerInline {
                sp.feats.hit("yaml_marker_inline");
                o.push_str(&t);
            } else {
                // value on the next line
                o.push('\n');
                o.push_str(t.trim_start_matches(' '));
            }
        } else {
            o.push_str(t.trim_start_matches(' '));
        }
    }
    if opts.end_marker {
        sp.feats.hit("yaml_end_marker");
        o.push_str("...\n");
    }
    o
}

/// Spells one document with randomly chosen document-level options. An
/// implicit start is only chosen when the root does not begin with a block
/// scalar header or tag that would read differently, which is always the case
/// here.
pub fn spell_doc(v: &Val, rng: &mut Rng, feats: &mut Feats, plain: bool) -> String {
    let opts = if plain {
        DocOpts { intro: Intro::Implicit, end_marker: false, root_indent: 0, leading_comment: false }
    } else {
        let intro = match rng.below(8) {
            0 | 1 | 2 => Intro::Implicit,
            3 | 4 => Intro::Marker,
            5 | 6 => Intro::MarkerInline,
            _ => Intro::Directive,
        };
        DocOpts { intro, end_marker: rng.chance(1, 8), root_indent: 0, leading_comment: rng.chance(1, 10) }
    };
    // An implicit document whose root scalar is empty or null-by-emptiness is not
    // produced by inline_scalar, so an implicit intro is always well-defined.
    spell_doc_with(v, rng, feats, plain, &opts)
}

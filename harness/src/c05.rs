//! C05 — streaming translation: bounded lag and bounded memory.
//!
//! A packet reader that knows where every document ends and a counting writer
//! share a logical clock. At EVERY read() call the monitor checks: if the bytes
//! already delivered cover the end of document k+2, the writer must already
//! hold the complete translation of documents 0..=k. A counting global
//! allocator (thread-local counters) measures peak live heap of the call:
//! it must not grow with the stream length and must stay within a multiple of
//! the largest document.

use std::cell::RefCell;
use std::collections::VecDeque;
use std::io::{self, Read, Write};
use std::rc::Rc;

use serde_json::{json, Value};

use crate::ev::{self, Acc, Ctx, Finish, Violation};
use crate::fmts::{self, Fmt, STREAMING};
use crate::gen::{gen_collection, Classes, GenOpts};
use crate::known;
use crate::model::Val;
use crate::rng::Rng;
use crate::run::{guarded, run_slice, Verdict};
use crate::spell::{spell, Feats};

#[derive(Clone, Copy, Debug, PartialEq)]
pub enum Packets {
    DocPerRead,
    ThreeDocs,
    HalfDoc,
    SingleBytes,
    Block100k,
    Random,
}

pub const PACKETS: [Packets; 6] = [Packets::DocPerRead, Packets::ThreeDocs, Packets::HalfDoc, Packets::SingleBytes, Packets::Block100k, Packets::Random];

#[derive(Default)]
struct Clock {
    written: u64,
    hash: u64,
    write_calls: u64,
}

struct CountingWriter(Rc<RefCell<Clock>>);

impl Write for CountingWriter {
    fn write(&mut self, buf: &[u8]) -> io::Result<usize> {
        let mut c = self.0.borrow_mut();
        c.written += buf.len() as u64;
        c.write_calls += 1;
        let mut h = c.hash;
        for b in buf {
            h = (h ^ *b as u64).wrapping_mul(0x100_0000_01b3);
        }
        c.hash = h;
        Ok(buf.len())
    }
    fn flush(&mut self) -> io::Result<()> {
        Ok(())
    }
}

fn fnv_feed(mut h: u64, buf: &[u8]) -> u64 {
    for b in buf {
        h = (h ^ *b as u64).wrapping_mul(0x100_0000_01b3);
    }
    h
}

pub const FNV_INIT: u64 = 0xcbf2_9ce4_8422_2325;

#[derive(Clone, Debug, Default)]
pub struct LagReport {
    pub read_calls: u64,
    pub max_lag_docs: u64,
    /// first violation: (doc index k, delivered bytes, written bytes, required bytes)
    pub violation: Option<(u64, u64, u64, u64)>,
    pub docs_delivered: u64,
    /// live heap of the translating thread, sampled at the read() calls at which
    /// 1/10, 2/10, ... 9/10 of the stream's documents had been delivered
    pub live_deciles: Vec<isize>,
    /// the largest number of input bytes that had been delivered beyond the last document whose
    /// translation was completely written, seen at any read() call
    pub max_backlog_bytes: u64,
}

/// Generates the stream lazily from a pool and checks the lag invariant at
/// every read call.
struct PacketReader<'a> {
    pool: &'a [(Vec<u8>, u64)], // (input bytes incl. separator, output length)
    seq_rng: Rng,
    remaining_docs: usize,
    pending: VecDeque<u8>,
    /// end offsets (absolute) and output lengths of documents generated but not yet fully delivered
    in_flight: VecDeque<(u64, u64)>,
    /// output lengths of fully delivered documents, newest last, at most 2 kept
    recent: VecDeque<u64>,
    generated: u64,
    delivered: u64,
    required: u64,
    docs_delivered: u64,
    docs_required: u64,
    packets: Packets,
    pk_rng: Rng,
    clock: Rc<RefCell<Clock>>,
    report: Rc<RefCell<LagReport>>,
    out_cum_by_doc: VecDeque<u64>,
    total_docs: u64,
    /// pool[..n_random] are drawn at random; pool[n_random], if present, opens the stream
    n_random: usize,
    head_pending: bool,
    /// fully delivered documents whose translation is not yet completely written:
    /// (input end offset, cumulative output length through this document)
    unwritten: VecDeque<(u64, u64)>,
    out_cum: u64,
    written_through_input: u64,
}

impl<'a> PacketReader<'a> {
    fn gen_doc(&mut self) -> bool {
        if self.remaining_docs == 0 {
            return false;
        }
        self.remaining_docs -= 1;
        let i = if self.head_pending {
            self.head_pending = false;
            self.n_random
        } else {
            self.seq_rng.below(self.n_random)
        };
        let (bytes, out_len) = &self.pool[i];
        self.pending.extend(bytes.iter());
        self.generated += bytes.len() as u64;
        self.in_flight.push_back((self.generated, *out_len));
        true
    }
    fn avg_doc(&self) -> usize {
        (self.pool[..self.n_random].iter().map(|p| p.0.len()).sum::<usize>() / self.n_random).max(1)
    }
}

impl<'a> Read for PacketReader<'a> {
    fn read(&mut self, buf: &mut [u8]) -> io::Result<usize> {
        crate::alloc::set_paused(true);
        let r = self.read_inner(buf);
        crate::alloc::set_paused(false);
        r
    }
}

impl<'a> PacketReader<'a> {
    fn read_inner(&mut self, buf: &mut [u8]) -> io::Result<usize> {
        // ---- the monitor: judged at every read call ----
        {
            let written = self.clock.borrow().written;
            let mut rep = self.report.borrow_mut();
            rep.read_calls += 1;
            // lag in documents: fully delivered documents whose translation is not yet complete
            let mut w = written;
            let mut done_docs = self.docs_required;
            // count how many of the recent (delivered, not yet required) docs are already written
            let mut base = self.required;
            for l in &self.recent {
                if w >= base + *l {
                    base += *l;
                    done_docs += 1;
                } else {
                    break;
                }
            }
            let _ = &mut w;
            let lag = self.docs_delivered.saturating_sub(done_docs);
            if lag > rep.max_lag_docs {
                rep.max_lag_docs = lag;
            }
            while let Some((in_end, out_end)) = self.unwritten.front().copied() {
                if written >= out_end {
                    self.written_through_input = in_end;
                    self.unwritten.pop_front();
                } else {
                    break;
                }
            }
            rep.max_backlog_bytes = rep.max_backlog_bytes.max(self.delivered - self.written_through_input);
            if written < self.required && rep.violation.is_none() {
                rep.violation = Some((self.docs_required.saturating_sub(1), self.delivered, written, self.required));
            }
            rep.docs_delivered = self.docs_delivered;
            let k = rep.live_deciles.len() as u64 + 1;
            if k <= 9 && self.docs_delivered >= self.total_docs * k / 10 {
                rep.live_deciles.push(crate::alloc::live());
            }
        }
        if buf.is_empty() {
            return Ok(0);
        }
        // ---- how much to hand over ----
        let want = match self.packets {
            Packets::DocPerRead => {
                // up to the end of the next document
                if self.in_flight.is_empty() {
                    self.gen_doc();
                }
                self.in_flight.front().map(|(end, _)| (*end - self.delivered) as usize).unwrap_or(0)
            }
            Packets::ThreeDocs => {
                while self.in_flight.len() < 3 && self.gen_doc() {}
                self.in_flight.iter().nth(2).or(self.in_flight.back()).map(|(end, _)| (*end - self.delivered) as usize).unwrap_or(0)
            }
            Packets::HalfDoc => (self.avg_doc() / 2).max(1),
            Packets::SingleBytes => 1,
            Packets::Block100k => 100_000,
            Packets::Random => 1 + self.pk_rng.below(2 * self.avg_doc()),
        };
        let want = want.min(buf.len());
        while self.pending.len() < want && self.gen_doc() {}
        let n = want.min(self.pending.len());
        if n == 0 {
            // generate more if the packet rule asked for nothing but documents remain
            if self.gen_doc() {
                let n = self.pending.len().min(buf.len()).min(1.max(want));
                for b in buf.iter_mut().take(n) {
                    *b = self.pending.pop_front().unwrap();
                }
                self.delivered += n as u64;
                self.after_delivery();
                return Ok(n);
            }
            return Ok(0);
        }
        for b in buf.iter_mut().take(n) {
            *b = self.pending.pop_front().unwrap();
        }
        self.delivered += n as u64;
        self.after_delivery();
        Ok(n)
    }
}

impl<'a> PacketReader<'a> {
    fn after_delivery(&mut self) {
        while let Some((end, out_len)) = self.in_flight.front().copied() {
            if end <= self.delivered {
                self.in_flight.pop_front();
                self.docs_delivered += 1;
                self.recent.push_back(out_len);
                self.out_cum += out_len;
                self.unwritten.push_back((end, self.out_cum));
                // documents older than the two most recent fully delivered ones must be
                // completely written by the next read call
                while self.recent.len() > 2 {
                    let l = self.recent.pop_front().unwrap();
                    self.required += l;
                    self.docs_required += 1;
                }
            } else {
                break;
            }
        }
        let _ = &self.out_cum_by_doc;
    }
}

#[derive(Clone, Debug)]
pub struct StreamSpec {
    pub src: Fmt,
    pub detect: bool,
    pub to: Fmt,
    pub n_docs: usize,
    pub packets: Packets,
    pub size_class: usize,
    pub pool_seed: u64,
}

impl StreamSpec {
    pub fn json(&self) -> Value {
        json!({"source": self.src.name(), "detect": self.detect, "to": self.to.name(), "documents": self.n_docs, "packets": format!("{:?}", self.packets), "size_class": self.size_class, "pool_seed": self.pool_seed})
    }
    pub fn parse(v: &Value) -> Option<StreamSpec> {
        let packets = PACKETS.iter().copied().find(|p| Some(format!("{p:?}").as_str()) == v["packets"].as_str())?;
        Some(StreamSpec { src: Fmt::parse(v["source"].as_str()?)?, detect: v["detect"].as_bool()?, to: Fmt::parse(v["to"].as_str()?)?, n_docs: v["documents"].as_u64()? as usize, packets, size_class: v["size_class"].as_u64()? as usize, pool_seed: v["pool_seed"].as_u64()? })
    }
}

/// Document pool for a size class: 0 tiny, 1 ~1 KiB, 2 ~50 KiB, 3 ~300 KiB.
fn make_pool(spec: &StreamSpec) -> Vec<(Vec<u8>, u64)> {
    let mut rng = Rng::new(spec.pool_seed);
    let mut cl = Classes::default();
    let mut pool = vec![];
    let n_pool = if spec.size_class >= 2 { 3 } else { 6 };
    for p in 0..n_pool {
        let doc = match spec.size_class {
            0 => Val::Map(vec![(Val::s("k"), Val::Int(p as i128)), (Val::s("s"), Val::s("v"))]),
            1 => {
                let o = GenOpts { max_depth: 3, max_width: 5, nulls: true, big_uints: true, root_map: false, root_collection: true, extensions: false };
                let mut d = gen_collection(&mut rng, &o, 0, &mut cl, p % 2 == 0);
                // make sure it is not tiny
                if let Val::Map(m) = &mut d {
                    m.push((Val::Str(format!("pad{p}")), Val::Str("x".repeat(300))));
                } else if let Val::Seq(s) = &mut d {
                    s.push(Val::Str("x".repeat(300)));
                }
                d
            }
            2 => Val::Seq((0..2500).map(|i| Val::Map(vec![(Val::s("id"), Val::Int(i)), (Val::s("n"), Val::s("item"))])).collect()),
            _ => {
                if p % 2 == 0 {
                    Val::Map(vec![(Val::s("blob"), Val::Str("y".repeat(300_000)))])
                } else {
                    Val::Seq((0..40_000).map(|i| Val::Int(i)).collect())
                }
            }
        };
        let mut feats = Feats::default();
        let mut bytes = match spec.src {
            Fmt::Yaml if scalar_rooted_pool(spec) => {
                // documents whose ROOT is a scalar: plain, quoted, literal and folded block scalars, numbers
                let forms = [format!("--- plain text number {p}\n"), format!("--- \"quoted {p}\"\n"), format!("--- |\n  literal {p}\n  second line\n"), format!("--- >-\n  folded {p}\n  more\n"), format!("--- {}\n", 40 + p), format!("---\nmulti line\nplain scalar {p}\n")];
                forms[p % forms.len()].clone().into_bytes()
            }
            Fmt::Yaml => {
                let mut b = b"---\n".to_vec();
                b.extend(spell(Fmt::Yaml, &doc, &mut rng, &mut feats, true));
                b
            }
            f => spell(f, &doc, &mut rng, &mut feats, true),
        };
        if spec.src == Fmt::Json {
            bytes.push(b'\n');
        }
        let single = run_slice(&bytes, Some(spec.src), spec.to);
        if !single.verdict.is_ok() {
            continue;
        }
        pool.push((bytes, single.out.len() as u64));
    }
    if spec.src == Fmt::Yaml && spec.size_class <= 1 && !scalar_rooted_pool(spec) {
        // YAML-only machinery whose per-document resources must be released with the document:
        // anchors and aliases, tags, directives, explicit document ends, comments, block scalars
        let feature_docs: [&[u8]; 5] = [
            // other line break conventions (CRLF, lone CR): nothing in these documents is a line feed
            b"---\r\nk: 1\r\nlist:\r\n  - a\r\n  - b\r\n",
            b"---\rk: 1\rlist:\r  - a\r  - b\r",
            b"---\nbase: &b {x: 1, y: [1, 2]}\nagain: *b\nlist: [*b, *b]\nstr: &s \"text\"\nr: *s\n",
            b"%YAML 1.1\n%TAG !e! tag:example.com,2000:\n---\n# a comment\nt: !!str 12\nu: !!int \"7\"\nblock: |\n  line one\n  line two\nfolded: >-\n  a\n  b\n...\n",
            b"---\n- &a1 [1, 2, 3]\n- *a1\n- &a2 {k: *a1}\n- *a2\n- *a2\n",
        ];
        for b in feature_docs {
            let single = run_slice(b, Some(Fmt::Yaml), spec.to);
            if single.verdict.is_ok() {
                pool.push((b.to_vec(), single.out.len() as u64));
            }
        }
    }
    // a whole YAML stream in another line break convention: lone CR (no line feed anywhere) or CRLF
    if spec.src == Fmt::Yaml && matches!(spec.pool_seed % 5, 1 | 2) {
        let brk: &[u8] = if spec.pool_seed % 5 == 1 { b"\r" } else { b"\r\n" };
        let converted: Vec<Option<(Vec<u8>, u64)>> = pool
            .iter()
            .map(|(b, n)| {
                let mut c = Vec::with_capacity(b.len() + 16);
                for x in b {
                    if *x == b'\n' {
                        c.extend_from_slice(brk);
                    } else {
                        c.push(*x);
                    }
                }
                // only if the document still means the same (line breaks inside scalars are normalised by YAML)
                let same = run_slice(&c, Some(Fmt::Yaml), spec.to).out == run_slice(b, Some(Fmt::Yaml), spec.to).out;
                if same { Some((c, *n)) } else { None }
            })
            .collect();
        if converted.iter().all(|c| c.is_some()) {
            pool = converted.into_iter().map(|c| c.unwrap()).collect();
        }
    }
    // a whole YAML stream in UTF-16 or UTF-32 (no byte order mark; every document starts with an ASCII '-'):
    // xt re-encodes such input on the way in, which must not cost the streaming behaviour
    if let Some(enc) = stream_encoding(spec) {
        for (b, _) in pool.iter_mut() {
            let text = String::from_utf8_lossy(b).into_owned();
            let mut o = Vec::with_capacity(b.len() * 4);
            for c in text.chars() {
                match enc {
                    0 | 1 => {
                        let mut u = [0u16; 2];
                        for w in c.encode_utf16(&mut u) {
                            o.extend_from_slice(&if enc == 0 { w.to_le_bytes() } else { w.to_be_bytes() });
                        }
                    }
                    _ => o.extend_from_slice(&if enc == 2 { (c as u32).to_le_bytes() } else { (c as u32).to_be_bytes() }),
                }
            }
            *b = o;
        }
    }
    pool
}

/// A YAML stream (format named) all of whose documents have a scalar at the root.
fn scalar_rooted_pool(spec: &StreamSpec) -> bool {
    spec.src == Fmt::Yaml && spec.size_class == 0 && !spec.detect && spec.pool_seed % 2 == 0
}

/// Some(0..=3) = the YAML stream is UTF-16LE / UTF-16BE / UTF-32LE / UTF-32BE; None = UTF-8.
fn stream_encoding(spec: &StreamSpec) -> Option<u64> {
    if spec.src == Fmt::Yaml && spec.pool_seed % 7 == 3 { Some((spec.pool_seed / 7) % 4) } else { None }
}

/// For YAML sources the stream may OPEN with a document in a style that other
/// detection trials look at too (a flow sequence or flow mapping that is not
/// JSON, a block mapping without a document start marker). Returns the bytes
/// and the output length; chosen from the pool seed.
fn head_doc(spec: &StreamSpec) -> Option<(Vec<u8>, u64)> {
    if spec.src != Fmt::Yaml || matches!(spec.pool_seed % 5, 1 | 2) || stream_encoding(spec).is_some() || scalar_rooted_pool(spec) {
        return None;
    }
    let b: &[u8] = match spec.pool_seed % 4 {
        0 => return None,
        1 => b"[ev, 0]\n",
        2 => b"{ev: 0, at: start}\n",
        _ => b"ev: 0\nat: start\n",
    };
    let single = run_slice(b, Some(Fmt::Yaml), spec.to);
    if single.verdict.is_ok() {
        Some((b.to_vec(), single.out.len() as u64))
    } else {
        None
    }
}

pub struct StreamResult {
    pub verdict: Verdict,
    pub lag: LagReport,
    pub written: u64,
    pub expected: u64,
    pub hash_ok: bool,
    pub peak: isize,
    pub largest_doc: usize,
    pub input_bytes: u64,
    pub write_calls: u64,
}

pub fn run_stream(spec: &StreamSpec) -> Option<StreamResult> {
    let mut pool = make_pool(spec);
    if pool.is_empty() {
        return None;
    }
    let n_random = pool.len();
    let head = head_doc(spec);
    let has_head = head.is_some();
    if let Some(h) = head {
        pool.push(h);
    }
    // one stream in three runs on a Translator that has already translated (and detected) a small TOML
    // input: whatever the translator remembers from it must not delay or buffer the stream
    let warm_up: Option<Vec<u8>> = if spec.pool_seed % 3 == 0 {
        let o = run_slice(b"first = 1\n", None, spec.to);
        if o.verdict.is_ok() { Some(o.out) } else { None }
    } else {
        None
    };
    let prefix_len = warm_up.as_ref().map(|p| p.len() as u64).unwrap_or(0);
    let clock = Rc::new(RefCell::new(Clock { written: 0, hash: FNV_INIT, write_calls: 0 }));
    let report = Rc::new(RefCell::new(LagReport::default()));
    let seq_seed = spec.pool_seed ^ 0x5eed;
    let reader = PacketReader {
        pool: &pool,
        seq_rng: Rng::new(seq_seed),
        remaining_docs: spec.n_docs,
        pending: VecDeque::new(),
        in_flight: VecDeque::new(),
        recent: VecDeque::new(),
        generated: 0,
        delivered: 0,
        required: prefix_len,
        docs_delivered: 0,
        docs_required: 0,
        packets: spec.packets,
        pk_rng: Rng::new(spec.pool_seed ^ 0xbeef),
        clock: clock.clone(),
        report: report.clone(),
        out_cum_by_doc: VecDeque::new(),
        total_docs: spec.n_docs as u64,
        n_random,
        head_pending: has_head,
        unwritten: VecDeque::new(),
        out_cum: prefix_len,
        written_through_input: 0,
    };
    let writer = CountingWriter(clock.clone());
    let from = if spec.detect { None } else { Some(spec.src.xt()) };
    let to = spec.to.xt();
    let base = crate::alloc::reset_peak();
    let verdict = guarded(|| {
        let mut tr = xt::Translator::new(writer, to);
        if warm_up.is_some() {
            tr.translate_slice(b"first = 1\n", None)?;
        }
        tr.translate_reader(reader, from)?;
        tr.flush().map_err(xt::Error::from)
    });
    let peak = crate::alloc::peak() - base;
    // expected totals, recomputed from the same sequence
    let mut r = Rng::new(seq_seed);
    let mut expected = prefix_len;
    let mut input_bytes = 0u64;
    let mut h = match &warm_up {
        Some(p) => fnv_feed(FNV_INIT, p),
        None => FNV_INIT,
    };
    for d in 0..spec.n_docs {
        let i = if d == 0 && has_head { n_random } else { r.below(n_random) };
        expected += pool[i].1;
        input_bytes += pool[i].0.len() as u64;
        // the hash needs the bytes: translate on demand only for small pools (cached per pool entry)
        let _ = &mut h;
    }
    // hash: recompute by translating each distinct pool entry once
    let outs: Vec<Vec<u8>> = pool.iter().map(|(b, _)| run_slice(b, Some(spec.src), spec.to).out).collect();
    let mut r = Rng::new(seq_seed);
    for d in 0..spec.n_docs {
        let i = if d == 0 && has_head { n_random } else { r.below(n_random) };
        h = fnv_feed(h, &outs[i]);
    }
    let (written, hash, write_calls) = {
        let c = clock.borrow();
        (c.written, c.hash, c.write_calls)
    };
    let lag = report.borrow().clone();
    let largest_doc = pool.iter().map(|p| p.0.len()).max().unwrap_or(0);
    Some(StreamResult { verdict, lag, written, expected, hash_ok: hash == h, peak, largest_doc, input_bytes, write_calls })
}

pub const MEM_FIXED: isize = 2 << 20;
pub const MEM_PER_DOC_BYTE: isize = 128;
pub const MEM_GROWTH_SLACK: isize = 128 << 10;
pub const LIVE_GROWTH_FIXED: isize = 8 << 10;
pub const LIVE_GROWTH_PER_DOC_BYTE: isize = 8;
pub const LIVE_DELTA_FIXED: isize = 512;
pub const LIVE_DELTA_PER_DOC_BYTE: isize = 2;

pub fn judge(spec: &StreamSpec, acc: &mut Acc) {
    let Some(r) = run_stream(spec) else {
        acc.inconclusive += 1;
        return;
    };
    acc.evals += 1;
    acc.add("documents_streamed", spec.n_docs as u64);
    acc.add("read_calls_monitored", r.lag.read_calls);
    acc.add("input_bytes", r.input_bytes);
    acc.max(&format!("max_lag_docs_{}", spec.src.name()), r.lag.max_lag_docs);
    acc.max("max_peak_heap_bytes", r.peak.max(0) as u64);
    acc.max("max_peak_over_largest_doc_x100", if r.largest_doc > 4096 { (r.peak.max(0) as u64 * 100) / r.largest_doc as u64 } else { 0 });
    acc.count(&format!("streams_{}_{}", spec.src.name(), if spec.detect { "detected" } else { "explicit" }));
    acc.count(&format!("packets_{:?}", spec.packets));
    if scalar_rooted_pool(spec) {
        acc.count("yaml_streams_of_scalar_rooted_documents");
    }
    if let Some(e) = stream_encoding(spec) {
        acc.count("yaml_streams_in_utf16_or_utf32");
        acc.count(&format!("yaml_stream_encoding_{}", ["utf16le", "utf16be", "utf32le", "utf32be"][e as usize]));
    }
    let case = || spec.json();
    if !r.verdict.is_ok() || r.written != r.expected || !r.hash_ok {
        acc.violation(Violation { sig: format!("stream {}->{} not translated completely", spec.src.name(), spec.to.name()), case: case(), observed: format!("{}; {} bytes written, {} expected, content hash {}", r.verdict.show(), r.written, r.expected, if r.hash_ok { "matches" } else { "differs" }), expected: "Ok and exactly the concatenated translations".into() });
        return;
    }
    acc.max(&format!("max_backlog_bytes_{}", if stream_encoding(spec).is_some() { "yaml_utf16_utf32" } else { spec.src.name() }), r.lag.max_backlog_bytes);
    if let Some((k, delivered, written, required)) = r.lag.violation {
        // recorded finding: a UTF-16 / UTF-32 YAML stream is re-encoded into the parser's 16 KiB input
        // buffer, and the re-encoder fills that buffer completely before it returns - so up to 16 KiB of
        // re-encoded text (32 KiB of UTF-16, 64 KiB of UTF-32) are gathered before anything is translated.
        // The backlog stays below that constant; a backlog beyond it is not this finding.
        if let Some(e) = stream_encoding(spec) {
            let width: u64 = if e < 2 { 2 } else { 4 };
            let allowed = 16384 * width + 8192 + 4 * r.largest_doc as u64 + 64;
            if r.lag.max_backlog_bytes <= allowed && known::listed("C05", "C05-reencoded-yaml-stream-held-back-by-16k") {
                acc.known("C05-reencoded-yaml-stream-held-back-by-16k", || format!("{} documents in {} ({:?}): at most {} input bytes delivered beyond the last translated document (constant bound {})", spec.n_docs, ["UTF-16LE", "UTF-16BE", "UTF-32LE", "UTF-32BE"][e as usize], spec.packets, r.lag.max_backlog_bytes, allowed));
                acc.count("reencoded_streams_within_the_constant_backlog");
                return;
            }
        }
        acc.violation(Violation { sig: format!("lag: {} {:?} {}", spec.src.name(), spec.packets, if spec.detect { "detected" } else { "explicit" }), case: case(), observed: format!("at a read() call the reader had already delivered {delivered} bytes (through document {}), but only {written} bytes were written; the translations of documents 0..={k} need {required}", k + 2), expected: "the complete translation of document k handed to the writer before data beyond document k+2 is requested".into() });
        return;
    }
    let bound = MEM_FIXED + MEM_PER_DOC_BYTE * r.largest_doc as isize;
    if r.peak > bound {
        acc.violation(Violation { sig: format!("memory: peak heap above the per-document bound ({})", spec.src.name()), case: case(), observed: format!("peak live heap {} bytes for a stream of {} documents, largest document {} bytes", r.peak, spec.n_docs, r.largest_doc), expected: format!("<= {} (2 MiB + 128 x largest document)", bound) });
        return;
    }
    // live heap at the deciles of the SAME run: a per-document leak shows as growth in EVERY interval
    // (a one-time step - a buffer that reaches its working size - shows in one interval only)
    if spec.n_docs >= 1000 && r.lag.live_deciles.len() == 9 {
        let d = &r.lag.live_deciles;
        let deltas: Vec<isize> = (4..8).map(|i| d[i + 1] - d[i]).collect(); // 50->60, ..., 80->90 per cent
        let min_delta = *deltas.iter().min().unwrap();
        let total: isize = d[8] - d[4];
        acc.count("live_heap_decile_series_compared");
        acc.max("max_live_heap_min_decile_delta_bytes", min_delta.max(0) as u64);
        acc.max("max_live_heap_growth_bytes_50pct_to_90pct", total.max(0) as u64);
        let per_interval = LIVE_DELTA_FIXED + LIVE_DELTA_PER_DOC_BYTE * r.largest_doc as isize;
        let overall = LIVE_GROWTH_FIXED + LIVE_GROWTH_PER_DOC_BYTE * r.largest_doc as isize;
        if min_delta > per_interval && total > overall {
            acc.violation(Violation { sig: format!("memory: live heap grows steadily while the stream is translated ({}, {})", spec.src.name(), if spec.detect { "detected" } else { "explicit" }), case: case(), observed: format!("live heap at the deciles of the {} documents: {:?}; every interval of the second half grows by more than {} bytes, {} bytes in total; largest document {} bytes", spec.n_docs, d, per_interval, total, r.largest_doc), expected: format!("no steady growth (per interval <= {per_interval}, or in total <= {overall})") });
            return;
        }
    }
    // independence from the stream length: the same stream at a tenth of the length
    if spec.n_docs >= 300 {
        let short = StreamSpec { n_docs: spec.n_docs / 10, ..spec.clone() };
        if let Some(s) = run_stream(&short) {
            acc.count("length_pairs_compared");
            acc.max("max_peak_growth_bytes_N_vs_N_over_10", (r.peak - s.peak).max(0) as u64);
            if r.peak > s.peak + MEM_GROWTH_SLACK {
                acc.violation(Violation { sig: format!("memory grows with the stream length ({}, {})", spec.src.name(), if spec.detect { "detected" } else { "explicit" }), case: case(), observed: format!("peak live heap {} bytes for {} documents vs {} bytes for {} documents", r.peak, spec.n_docs, s.peak, short.n_docs), expected: "peak(N) <= peak(N/10) + 128 KiB".into() });
            }
        }
    }
}

// ---------------------------------------------------------------------------
// The same property at the process boundary: the real binary fed batch by batch
// ---------------------------------------------------------------------------

/// One equal-sized document number `i` of the command-line streams (the output of each is equally long too).
fn cli_doc(src: Fmt, i: usize) -> Vec<u8> {
    let id = format!("{:07}", i % 10_000_000);
    match src {
        Fmt::Json => format!("{{\"id\":\"{id}\",\"text\":\"row of a live stream\"}}\n").into_bytes(),
        Fmt::Yaml => format!("---\nid: \"{id}\"\ntext: row of a live stream\n").into_bytes(),
        _ => {
            let mut b = vec![0x82, 0xa2, b'i', b'd', 0xa7];
            b.extend_from_slice(id.as_bytes());
            b.extend_from_slice(&[0xa4, b't', b'e', b'x', b't', 0xb4]);
            b.extend_from_slice(b"row of a live stream");
            b
        }
    }
}

#[derive(Clone, Copy, Debug, PartialEq)]
pub enum Channel {
    Pipe,
    /// standard input is one end of a connected AF_UNIX stream socket (socket activation, `xt < /dev/tcp/..`)
    Socket,
    /// a named FIFO given as a path operand
    Fifo,
}

/// Feeds the release binary `batches` batches of `per_batch` documents through `channel`, and after each
/// batch - with the input still open - waits (bounded) until the translations of all but the last three
/// documents delivered so far have arrived on stdout. Also samples the process's resident set size.
/// Returns Err(reason) for a violation, Ok(None) if inconclusive, Ok(Some(rss growth in KiB)).
fn cli_stream_once(src: Fmt, detect: bool, to: Fmt, channel: Channel, batches: usize, per_batch: usize, wait_secs: u64, acc: &mut Acc) -> Result<Option<i64>, String> {
    use std::os::fd::OwnedFd;
    use std::process::{Command, Stdio};
    use std::sync::atomic::{AtomicU64, Ordering};
    use std::sync::Arc;
    let one = run_slice(&cli_doc(src, 1), Some(src), to);
    if !one.verdict.is_ok() || one.out.is_empty() {
        return Ok(None);
    }
    let out_len = one.out.len() as u64;
    let sc = crate::procmon::Scratch::new();
    let mut cmd = Command::new(crate::procmon::release_bin());
    cmd.arg("-t").arg(to.name()).current_dir(sc.path()).env_clear().stdout(Stdio::piped()).stderr(Stdio::piped());
    if !detect {
        cmd.arg("-f").arg(src.name());
    }
    let _g = crate::procmon::shared_guard();
    let mut feed: Box<dyn Write + Send> = match channel {
        Channel::Pipe => {
            cmd.stdin(Stdio::piped());
            Box::new(io::sink()) // replaced below
        }
        Channel::Socket => {
            let (a, b) = match std::os::unix::net::UnixStream::pair() {
                Ok(p) => p,
                Err(_) => return Ok(None),
            };
            cmd.stdin(Stdio::from(OwnedFd::from(b)));
            Box::new(a)
        }
        Channel::Fifo => {
            sc.fifo("live");
            cmd.arg("live").stdin(Stdio::null());
            Box::new(io::sink()) // replaced below
        }
    };
    let mut child = match cmd.spawn() {
        Ok(c) => c,
        Err(_) => return Ok(None),
    };
    drop(cmd);
    match channel {
        Channel::Pipe => feed = Box::new(child.stdin.take().unwrap()),
        Channel::Fifo => match std::fs::OpenOptions::new().write(true).open(sc.path().join("live")) {
            Ok(f) => feed = Box::new(f),
            Err(_) => {
                let _ = child.kill();
                let _ = child.wait();
                return Ok(None);
            }
        },
        Channel::Socket => {}
    }
    let got = Arc::new(AtomicU64::new(0));
    let mut so = child.stdout.take().unwrap();
    let g2 = got.clone();
    let reader = std::thread::spawn(move || {
        let mut buf = [0u8; 65536];
        loop {
            match so.read(&mut buf) {
                Ok(0) | Err(_) => break,
                Ok(n) => {
                    g2.fetch_add(n as u64, Ordering::SeqCst);
                }
            }
        }
    });
    let mut se = child.stderr.take().unwrap();
    let errs = std::thread::spawn(move || {
        let mut v = vec![];
        let _ = se.read_to_end(&mut v);
        v
    });
    let pid = child.id();
    let rss_kib = || -> i64 { std::fs::read_to_string(format!("/proc/{pid}/statm")).ok().and_then(|s| s.split_whitespace().nth(1).and_then(|x| x.parse::<i64>().ok())).map(|pages| pages * 4).unwrap_or(-1) };
    let mut verdict: Result<Option<i64>, String> = Ok(None);
    let mut rss_mid = -1i64;
    let mut sent = 0usize;
    'outer: for b in 0..batches {
        let mut chunk = Vec::with_capacity(per_batch * 64);
        for _ in 0..per_batch {
            chunk.extend_from_slice(&cli_doc(src, sent));
            sent += 1;
        }
        if feed.write_all(&chunk).and_then(|_| feed.flush()).is_err() {
            verdict = Err(format!("the process stopped reading after {} documents", sent - per_batch));
            break;
        }
        // bounded wait on a logical condition: all but the last three documents delivered so far are out
        // (the binary writes through an 8 KiB buffer that it flushes when full and at the end of each input:
        //  up to one buffer of finished translations may legitimately still sit there)
        let need = ((sent.saturating_sub(3)) as u64 * out_len).saturating_sub(8192);
        let mut waited = 0u64;
        while got.load(Ordering::SeqCst) < need {
            std::thread::sleep(std::time::Duration::from_millis(20));
            waited += 20;
            if waited >= wait_secs * 1000 {
                verdict = Err(format!("batch {} of {}: {} documents delivered and the input still open, but only {} of their translations ({} bytes of {}) arrived within {} s", b + 1, batches, sent, got.load(Ordering::SeqCst) / out_len, got.load(Ordering::SeqCst), need, wait_secs));
                break 'outer;
            }
        }
        acc.add("cli_stream_batches_translated_while_the_input_was_open", 1);
        if b == batches / 2 {
            rss_mid = rss_kib();
        }
        if b + 1 == batches {
            let end = rss_kib();
            verdict = Ok(if rss_mid > 0 && end > 0 { Some(end - rss_mid) } else { None });
        }
    }
    drop(feed);
    // a generous watchdog for the exit itself
    let mut waited = 0;
    loop {
        match child.try_wait() {
            Ok(Some(_)) => break,
            Ok(None) if waited < 30_000 => {
                std::thread::sleep(std::time::Duration::from_millis(20));
                waited += 20;
            }
            _ => {
                let _ = child.kill();
                let _ = child.wait();
                break;
            }
        }
    }
    let _ = reader.join();
    let stderr = errs.join().unwrap_or_default();
    if verdict.is_ok() && got.load(Ordering::SeqCst) != sent as u64 * out_len {
        return Err(format!("the stream of {} documents ended with {} bytes on stdout, expected {}; stderr [{}]", sent, got.load(Ordering::SeqCst), sent as u64 * out_len, crate::model::preview(&stderr, 160)));
    }
    verdict
}

pub fn cli_stream(src: Fmt, detect: bool, to: Fmt, channel: Channel, batches: usize, per_batch: usize, acc: &mut Acc) {
    acc.evals += 1;
    acc.count("cli_streams");
    acc.count(&format!("cli_stream_{channel:?}"));
    let mut r = cli_stream_once(src, detect, to, channel, batches, per_batch, 20, acc);
    if r.is_err() {
        // a wall-clock wait decided: say it again with a long wait before believing it
        acc.count("cli_stream_delays_re_examined_with_a_long_wait");
        r = cli_stream_once(src, detect, to, channel, batches, per_batch, 90, acc);
    }
    match r {
        Ok(None) => acc.inconclusive += 1,
        Ok(Some(growth)) => {
            acc.max("max_cli_rss_growth_kib_second_half_of_stream", growth.max(0) as u64);
            // second half of the stream: (batches/2) x per_batch more documents; a process that keeps them grows by
            // their size at least. 4 MiB of slack covers allocator and page-cache noise.
            let kept = ((batches - batches / 2 - 1) * per_batch * cli_doc(src, 0).len()) as i64 / 1024;
            if growth > 4096 && growth > kept / 2 {
                acc.violation(Violation { sig: format!("command line: resident memory grows with the stream ({} via {channel:?})", src.name()), case: json!({"part": "cli_stream", "source": src.name(), "detect": detect, "to": to.name(), "channel": format!("{channel:?}"), "batches": batches, "per_batch": per_batch}), observed: format!("resident set grew by {growth} KiB over the second half of the stream ({kept} KiB of input)"), expected: "no growth with the number of documents".into() });
            } else {
                acc.count("cli_stream_memory_flat");
            }
        }
        Err(e) => acc.violation(Violation { sig: format!("command line: output withheld while the input is open ({}{} via {channel:?})", src.name(), if detect { " detected" } else { "" }), case: json!({"part": "cli_stream", "source": src.name(), "detect": detect, "to": to.name(), "channel": format!("{channel:?}"), "batches": batches, "per_batch": per_batch}), observed: e, expected: "all but the last three documents delivered so far (less one 8 KiB stdout buffer) translated while the input is still open".into() }),
    }
}

/// A stream in a FILE that cannot be mapped because the process's address space is smaller than the file
/// (RLIMIT_AS): the reader fallback has to stream it - all documents translated, within the limit.
pub fn cli_unmappable_file(src: Fmt, docs: usize, limit_mib: u64, acc: &mut Acc) {
    use std::os::unix::process::CommandExt as _;
    use std::process::{Command, Stdio};
    acc.evals += 1;
    let one = run_slice(&cli_doc(src, 1), Some(src), Fmt::Json);
    if !one.verdict.is_ok() {
        acc.inconclusive += 1;
        return;
    }
    let sc = crate::procmon::Scratch::new();
    let name = format!("stream.{}", src.name());
    {
        let mut f = std::io::BufWriter::new(std::fs::File::create(sc.path().join(&name)).expect("scratch file"));
        for i in 0..docs {
            let _ = f.write_all(&cli_doc(src, i));
        }
    }
    let size = std::fs::metadata(sc.path().join(&name)).map(|m| m.len()).unwrap_or(0);
    let _g = crate::procmon::shared_guard();
    let mut cmd = Command::new(crate::procmon::release_bin());
    cmd.current_dir(sc.path()).env_clear().args(["-t", "json", &name]).stdin(Stdio::null()).stdout(Stdio::piped()).stderr(Stdio::piped());
    let limit = limit_mib << 20;
    // SAFETY: only an async-signal-safe call between fork and exec
    unsafe {
        cmd.pre_exec(move || {
            let lim = libc::rlimit { rlim_cur: limit, rlim_max: limit };
            if libc::setrlimit(libc::RLIMIT_AS, &lim) != 0 {
                return Err(std::io::Error::last_os_error());
            }
            Ok(())
        });
    }
    let Ok(mut child) = cmd.spawn() else {
        acc.inconclusive += 1;
        return;
    };
    drop(cmd);
    let mut so = child.stdout.take().unwrap();
    let counter = std::thread::spawn(move || {
        let mut buf = [0u8; 65536];
        let mut n = 0u64;
        loop {
            match so.read(&mut buf) {
                Ok(0) | Err(_) => break,
                Ok(k) => n += k as u64,
            }
        }
        n
    });
    let mut se = child.stderr.take().unwrap();
    let mut err = vec![];
    let _ = se.read_to_end(&mut err);
    let status = child.wait();
    let got = counter.join().unwrap_or(0);
    acc.count("cli_unmappable_file_runs");
    acc.max("largest_unmappable_file_bytes", size);
    let want = docs as u64 * one.out.len() as u64;
    let ok = status.as_ref().map(|s| s.success()).unwrap_or(false) && got == want;
    if ok {
        acc.count("cli_unmappable_file_streamed_in_full");
    } else {
        acc.violation(Violation { sig: format!("command line: a {} file larger than the address space is not streamed", src.name()), case: json!({"part": "cli_unmappable", "source": src.name(), "documents": docs, "limit_mib": limit_mib}), observed: format!("status {:?}; {} of {} output bytes; stderr [{}]", status.map(|s| s.to_string()), got, want, crate::model::preview(&err, 200)), expected: format!("exit 0 and all {docs} documents ({size} bytes of input under an address-space limit of {limit_mib} MiB)") });
    }
}

pub fn specs(ctx: &Ctx) -> Vec<StreamSpec> {
    let mut v = vec![];
    let mut rng = Rng::derive(ctx.seed, 0xc05, 0);
    let n = ctx.size(360, 2400);
    for i in 0..n {
        let src = STREAMING[i % 3];
        let to = STREAMING[(i / 3) % 3];
        let packets = PACKETS[(i / 9) % 6];
        let detect = (i / 54) % 2 == 1;
        let size_class = [0usize, 1, 1, 2, 0, 3][(i / 108 + i) % 6];
        let n_docs = match (size_class, ctx.thorough()) {
            (0, false) => *rng.pick(&[30usize, 300, 3000]),
            (0, true) => *rng.pick(&[300usize, 3000, 30000, 300000]),
            (1, false) => *rng.pick(&[30usize, 300, 1000]),
            (1, true) => *rng.pick(&[300usize, 3000, 30000]),
            (2, false) => *rng.pick(&[10usize, 30]),
            (2, true) => *rng.pick(&[30usize, 300]),
            (_, false) => *rng.pick(&[5usize, 12]),
            (_, true) => *rng.pick(&[12usize, 60]),
        };
        // single-byte packets over big streams would only burn time
        let n_docs = if packets == Packets::SingleBytes { n_docs.min(if size_class >= 2 { 5 } else { 3000 }) } else { n_docs };
        v.push(StreamSpec { src, detect, to, n_docs, packets, size_class, pool_seed: rng.next() });
    }
    v
}

pub fn run(ctx: &Ctx) -> i32 {
    let sp = specs(ctx);
    let acc = crate::par::run(sp.len(), 1, |i, acc| {
        acc.distinct(&format!("{:?}", sp[i]));
        acc.sample_every(37, || sp[i].json());
        judge(&sp[i], acc);
    });
    let mut acc = acc;
    // the real binary, fed batch by batch through a pipe, a connected socket and a FIFO
    let mut cli = vec![];
    for src in STREAMING {
        for channel in [Channel::Pipe, Channel::Socket, Channel::Fifo] {
            for detect in [false, true] {
                cli.push((src, channel, detect, STREAMING[(cli.len() / 2) % 3]));
            }
        }
    }
    let (batches, per_batch) = if ctx.thorough() { (40, 20_000) } else { (8, 1500) };
    let cli_acc = crate::par::run(cli.len(), 1, |i, acc| {
        let (src, channel, detect, to) = cli[i];
        acc.distinct(&format!("cli {src:?} {channel:?} {detect} {to:?}"));
        cli_stream(src, detect, to, channel, batches, per_batch, acc);
    });
    acc.merge(cli_acc);
    // a file operand larger than the process's address space (it cannot be mapped: the reader fallback streams it)
    let un: Vec<(Fmt, usize, u64)> = if ctx.thorough() { vec![(Fmt::Json, 3_000_000, 96), (Fmt::Yaml, 2_000_000, 96), (Fmt::Msgpack, 3_000_000, 96)] } else { vec![(Fmt::Json, 1_500_000, 64), (Fmt::Msgpack, 2_000_000, 64)] };
    let un_acc = crate::par::run(un.len(), 1, |i, acc| {
        let (src, docs, limit) = un[i];
        cli_unmappable_file(src, docs, limit, acc);
    });
    acc.merge(un_acc);
    let rule = format!("{} streams: sources JSON/MessagePack/YAML x targets JSON/MessagePack/YAML x 6 packetisations (one document per read, three per read, half a document, single bytes, 100 KB blocks, random) x explicit/detected x document size classes (tiny, ~1 KiB generated, ~50 KiB, ~300 KiB; YAML streams also open with a flow sequence, a flow mapping or an unmarked block mapping, use CR or CRLF line breaks throughout, consist of scalar-rooted documents only (plain, quoted, literal, folded, numbers), or - one in seven - are UTF-16LE/BE or UTF-32LE/BE throughout) x stream lengths up to {} documents, generated on the fly with O(1) harness memory; the lag invariant is evaluated at EVERY read() call; peak live heap measured with a counting allocator per call and compared with the same stream at a tenth of the length; live heap sampled at the deciles of every stream of >= 1000 documents (steady growth over the second half = a per-document leak); plus the release binary fed {} batches of {} documents through a pipe, a connected AF_UNIX socket and a named FIFO (3 sources x named/detected, rotating target): after every batch, with the input still open, all but the last three documents delivered so far (less the 8 KiB stdout buffer) must have been translated (bounded wait, re-examined with a long wait before it counts), and the resident set may not grow with the stream; plus file operands of 80-180 MB under an address-space limit of 64 / 96 MiB (the file cannot be mapped; the reader fallback has to stream it in full); distinct non-trivial = distinct stream specifications", sp.len(), if ctx.thorough() { 300000 } else { 3000 }, batches, per_batch);
    ev::finish(
        Finish { ctx, level: "exploration", rule, assumptions: vec!["memory bound constants: 2 MiB + 128 x largest document; growth slack 128 KiB (measured slack on the pinned tree: < 16 KiB, worst ratio 46 for dense YAML)".into(), "the harness's own allocations during a call are bounded by one packet plus a few queue entries".into(), "command-line streams: 'arrives' is decided by a bounded wait (20 s, then 90 s in a second run) on a logical condition; the resident set is read from /proc/<pid>/statm".into()], extra: serde_json::Map::new(), exhaustive: false, min_distinct: 100, must_reach: vec![("read_calls_monitored".into(), 10000), ("length_pairs_compared".into(), 20), ("live_heap_decile_series_compared".into(), 20), ("streams_yaml_detected".into(), 5), ("streams_json_detected".into(), 5), ("streams_msgpack_detected".into(), 5), ("yaml_streams_in_utf16_or_utf32".into(), 8), ("yaml_streams_of_scalar_rooted_documents".into(), 3), ("cli_stream_batches_translated_while_the_input_was_open".into(), 100), ("cli_stream_Socket".into(), 6), ("cli_stream_memory_flat".into(), 10), ("cli_unmappable_file_streamed_in_full".into(), 2)] },
        acc,
    )
}

pub fn mem_main(_args: &[String]) -> i32 {
    2
}

pub fn replay(v: &Value) -> i32 {
    if v["case"]["part"].as_str() == Some("cli_unmappable") {
        let c = &v["case"];
        let Some(src) = c["source"].as_str().and_then(Fmt::parse) else { return 2 };
        let mut acc = Acc::default();
        cli_unmappable_file(src, c["documents"].as_u64().unwrap_or(1_500_000) as usize, c["limit_mib"].as_u64().unwrap_or(64), &mut acc);
        return if acc.vio_count > 0 { println!("VIOLATION property=C05 replay=<this file> (reproduced): {}", acc.violations[0].observed); 1 } else { println!("not reproduced"); 0 };
    }
    if v["case"]["part"].as_str() == Some("cli_stream") {
        let c = &v["case"];
        let (Some(src), Some(to)) = (c["source"].as_str().and_then(Fmt::parse), c["to"].as_str().and_then(Fmt::parse)) else { return 2 };
        let channel = match c["channel"].as_str() {
            Some("Socket") => Channel::Socket,
            Some("Fifo") => Channel::Fifo,
            _ => Channel::Pipe,
        };
        let mut acc = Acc::default();
        cli_stream(src, c["detect"].as_bool().unwrap_or(false), to, channel, c["batches"].as_u64().unwrap_or(8) as usize, c["per_batch"].as_u64().unwrap_or(1500) as usize, &mut acc);
        return if acc.vio_count > 0 {
            println!("VIOLATION property=C05 replay=<this file> (reproduced): {}", acc.violations[0].observed);
            1
        } else {
            println!("not reproduced");
            0
        };
    }
    let Some(spec) = StreamSpec::parse(&v["case"]) else {
        println!("bad replay case");
        return 2;
    };
    let mut acc = Acc::default();
    judge(&spec, &mut acc);
    if let Some(r) = run_stream(&spec) {
        println!("{:?}: {} written {} expected {} max lag {} docs, {} read calls, peak heap {} bytes, largest doc {}", spec, r.verdict.show(), r.written, r.expected, r.lag.max_lag_docs, r.lag.read_calls, r.peak, r.largest_doc);
    }
    if acc.vio_count > 0 {
        println!("VIOLATION property=C05 replay=<this file> (reproduced): {}", acc.violations[0].observed);
        1
    } else {
        println!("not reproduced");
        0
    }
}

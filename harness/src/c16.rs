//! C16 — broken pipes and other write errors at the CLI.
//!
//! The consumer of stdout reads exactly k bytes and closes, for k from 0 to
//! several pipe capacities, while more than 1 MiB of output remains (so xt must
//! meet EPIPE; no race with normal completion). xt must die from SIGPIPE with
//! an empty stderr. With stdout on /dev/full it must exit 1 with a message.

use serde_json::{json, Value};

use crate::ev::{self, Acc, Ctx, Finish, Violation};
use crate::fmts::{Fmt, ALL};
use crate::model::preview;
use crate::procmon::{self, Run, Scratch, Status, StdinKind, StdoutKind};

pub const KS: &[usize] = &[0, 1, 100, 4095, 4096, 8191, 8192, 8193, 65535, 65536, 65537, 131072, 327680];

fn big_json(bytes: usize, single_table: bool) -> Vec<u8> {
    let mut s = String::new();
    if single_table {
        s.push_str("{\"rows\":[");
        let mut i = 0;
        while s.len() < bytes {
            if i > 0 {
                s.push(',');
            }
            s.push_str(&format!("{{\"id\":{i},\"text\":\"row number {i} of a large table\"}}"));
            i += 1;
        }
        s.push_str("]}\n");
    } else {
        let mut i = 0;
        while s.len() < bytes {
            s.push_str(&format!("{{\"id\":{i},\"text\":\"row number {i} of a long stream\",\"tags\":[\"a\",\"b\"]}}\n"));
            i += 1;
        }
    }
    s.into_bytes()
}

#[derive(Clone, Debug)]
pub struct Case {
    pub to: Fmt,
    pub k: usize,
    pub layout: &'static str, // one_file | stdin | many_files
    pub single_table: bool,
    /// format of the input data
    pub src: Fmt,
    /// true: xt must find the format by content (no -f, no telling file extension)
    pub detect: bool,
}

impl Case {
    fn json(&self) -> Value {
        json!({"to": self.to.name(), "k": self.k, "layout": self.layout, "single_table": self.single_table, "source": self.src.name(), "detect": self.detect})
    }
}

/// A large input in format `src` (made from the JSON rows with the library
/// itself; it is only input here, never an oracle). None if it cannot be made.
fn big_input(src: Fmt, bytes: usize, single_table: bool) -> Option<Vec<u8>> {
    use std::collections::HashMap;
    use std::sync::{Mutex, OnceLock};
    static CACHE: OnceLock<Mutex<HashMap<(u8, usize, bool), Option<Vec<u8>>>>> = OnceLock::new();
    let single = single_table || src == Fmt::Toml;
    let key = (src as u8, bytes, single);
    let cache = CACHE.get_or_init(|| Mutex::new(HashMap::new()));
    if let Some(v) = cache.lock().unwrap().get(&key) {
        return v.clone();
    }
    let j = big_json(bytes, single);
    let v = if src == Fmt::Json {
        Some(j)
    } else {
        let o = crate::run::run_slice(&j, Some(Fmt::Json), src);
        if o.verdict.is_ok() {
            Some(o.out)
        } else {
            None
        }
    };
    cache.lock().unwrap().insert(key, v.clone());
    v
}

/// Names the input so that the CLI resolves the source format as the case wants.
fn file_name(stem: &str, src: Fmt, detect: bool) -> String {
    if detect {
        stem.to_string()
    } else {
        format!("{stem}.{}", match src {
            Fmt::Json => "json",
            Fmt::Msgpack => "msgpack",
            Fmt::Toml => "toml",
            Fmt::Yaml => "yaml",
        })
    }
}

pub fn judge_pipe(case: &Case, acc: &mut Acc) {
    acc.evals += 1;
    let sc = Scratch::new();
    let single = case.single_table || case.to == Fmt::Toml || case.src == Fmt::Toml;
    let mut argv: Vec<String> = vec!["-t".into(), case.to.name().into()];
    let mut stdin = StdinKind::Null;
    let many = case.layout == "many_files" && case.to != Fmt::Toml;
    let Some(data) = big_input(case.src, if many { 400 << 10 } else { 3 << 20 }, if many { false } else { single }) else {
        acc.inconclusive += 1;
        return;
    };
    // the library must be able to translate this input the way the CLI will be asked to, with far more output than k
    let probe = crate::run::run_slice(&data, if case.detect { None } else { Some(case.src) }, case.to);
    if !probe.verdict.is_ok() || probe.out.len() * (if many { 10 } else { 1 }) < case.k + (1 << 20) {
        acc.count("skipped_library_cannot_produce_enough_output");
        return;
    }
    match case.layout {
        "stdin" => {
            if !case.detect {
                argv.push("-f".into());
                argv.push(case.src.name().into());
            }
            stdin = StdinKind::Bytes(data);
        }
        "many_files" if many => {
            for i in 0..10 {
                let n = file_name(&format!("part{i}"), case.src, case.detect);
                sc.file(&n, &data);
                argv.push(n);
            }
        }
        _ => {
            let n = file_name("big", case.src, case.detect);
            sc.file(&n, &data);
            argv.push(n);
        }
    }
    let out = procmon::run(Run { bin: &procmon::release_bin(), argv: argv.clone(), cwd: sc.path(), stdin, stdout: StdoutKind::CloseAfter(case.k), wall_secs: 120, cpu_secs: 60 });
    acc.count(&format!("closing_point_k_{}", case.k));
    acc.count(&format!("layout_{}", case.layout));
    acc.count(&format!("target_{}", case.to.name()));
    acc.count(&format!("source_{}{}", case.src.name(), if case.detect { "_detected" } else { "" }));
    if matches!(out.status, Status::Timeout | Status::SpawnError(_)) {
        acc.inconclusive += 1;
        return;
    }
    if out.stdout.len() != case.k {
        // the consumer could not even get k bytes: the output was shorter than planned (harness sizing problem)
        acc.inconclusive += 1;
        acc.count("consumer_got_fewer_bytes_than_k");
        return;
    }
    let ok = out.status == Status::Signal(libc::SIGPIPE) && out.stderr.is_empty();
    if ok {
        acc.count("killed_by_sigpipe_silently");
    } else {
        acc.violation(Violation { sig: format!("closed pipe {}{}->{} {}: {}", case.src.name(), if case.detect { "(detected)" } else { "" }, case.to.name(), case.layout, if out.status == Status::Signal(libc::SIGPIPE) { "stderr not empty".to_string() } else { out.status.show() }), case: case.json(), observed: format!("status {}, stderr [{}]", out.status.show(), preview(&out.stderr, 200)), expected: "killed by SIGPIPE with nothing on stderr".into() });
    }
}

/// A small document (a few hundred bytes at most) in each format.
fn small_input(src: Fmt, variant: usize) -> Vec<u8> {
    let j: &[u8] = match variant % 3 {
        0 => b"{\"late\": [1, 2, 3]}\n",
        1 => b"{\"a\": {\"b\": \"text\", \"c\": [true, 1.5]}, \"d\": \"x\"}\n",
        _ => b"{\"rows\": [{\"id\": 1, \"t\": \"one\"}, {\"id\": 2, \"t\": \"two\"}, {\"id\": 3, \"t\": \"three\"}]}\n",
    };
    if src == Fmt::Json {
        return j.to_vec();
    }
    crate::run::run_slice(j, Some(Fmt::Json), src).out
}

/// The consumer is gone BEFORE any input arrives: stdin delivers the (small or
/// medium) input only after the read end of stdout has been closed, so whatever
/// xt writes - during translation or in its final flush - meets a closed pipe.
pub fn judge_consumer_gone_first(src: Fmt, detect: bool, to: Fmt, size: &'static str, variant: usize, acc: &mut Acc) {
    judge_consumer_gone_env(src, detect, to, size, variant, procmon::SigEnv::Default, acc)
}

/// The same with the SIGPIPE disposition the process inherits chosen by the caller: ignored (xt resets
/// it and still dies from SIGPIPE, silently) or blocked in the signal mask (raising it cannot terminate
/// the process: the remaining promise is silence and a failure status - never a panic, never status 0).
pub fn judge_consumer_gone_env(src: Fmt, detect: bool, to: Fmt, size: &'static str, variant: usize, env: procmon::SigEnv, acc: &mut Acc) {
    let data = match size {
        "small" => small_input(src, variant),
        _ => match big_input(src, 40 << 10, true) {
            Some(d) => d,
            None => return,
        },
    };
    let probe = crate::run::run_mode(&data, &crate::run::Mode::Reader(crate::mon::Sched::All), if detect { None } else { Some(src) }, to);
    if !probe.verdict.is_ok() || probe.out.is_empty() {
        acc.count("skipped_library_cannot_produce_enough_output");
        return;
    }
    acc.evals += 1;
    let sc = Scratch::new();
    let mut argv: Vec<String> = vec!["-t".into(), to.name().into()];
    if !detect {
        argv.push("-f".into());
        argv.push(src.name().into());
    }
    if variant % 2 == 1 {
        argv.push("-".into());
    }
    let bin = procmon::release_bin();
    let mk = || Run { bin: &bin, argv: argv.clone(), cwd: sc.path(), stdin: StdinKind::BytesAfterConsumerLeft(data.clone()), stdout: StdoutKind::CloseAfter(0), wall_secs: 120, cpu_secs: 60 };
    let mut out = if env == procmon::SigEnv::Default { procmon::run(mk()) } else { procmon::run_sig(mk(), env) };
    if out.status == Status::Exit(0) {
        acc.count("exit_0_observations_confirmed_under_exclusion");
        out = if env == procmon::SigEnv::Default { procmon::run_exclusive(mk()) } else { procmon::run_sig_exclusive(mk(), env) };
    }
    acc.count("consumer_gone_first_runs");
    acc.count(&format!("consumer_gone_first_{}{}_{}", src.name(), if detect { "_detected" } else { "" }, size));
    if env != procmon::SigEnv::Default {
        acc.count(&format!("consumer_gone_with_sigpipe_{}", if env == procmon::SigEnv::PipeIgnored { "ignored" } else { "blocked" }));
    }
    if matches!(out.status, Status::Timeout | Status::SpawnError(_)) {
        acc.inconclusive += 1;
        return;
    }
    if env == procmon::SigEnv::PipeBlocked {
        // the signal cannot terminate the process: silence and a failure status are what is left of the promise
        if matches!(out.status, Status::Exit(c) if c != 0) && out.stderr.is_empty() {
            acc.count("sigpipe_blocked_silent_failure_status");
        } else if out.status == Status::Signal(libc::SIGPIPE) && out.stderr.is_empty() {
            acc.count("killed_by_sigpipe_silently");
        } else {
            acc.violation(Violation { sig: format!("consumer gone, SIGPIPE blocked in the inherited mask, {}{}->{} {}: {}", src.name(), if detect { "(detected)" } else { "" }, to.name(), size, out.status.show()), case: json!({"consumer_gone_first": true, "sig_env": "blocked", "source": src.name(), "detect": detect, "to": to.name(), "size": size, "variant": variant}), observed: format!("status {}, stderr [{}]", out.status.show(), preview(&out.stderr, 200)), expected: "a failure status (or death by SIGPIPE) with nothing on stderr - no panic, no message, not status 0".into() });
        }
        return;
    }
    if out.status == Status::Signal(libc::SIGPIPE) && out.stderr.is_empty() {
        acc.count("killed_by_sigpipe_silently");
    } else {
        acc.violation(Violation { sig: format!("consumer gone before the input arrived {}{}->{} {}: {}", src.name(), if detect { "(detected)" } else { "" }, to.name(), size, out.status.show()), case: json!({"consumer_gone_first": true, "sig_env": if env == procmon::SigEnv::PipeIgnored { "ignored" } else { "default" }, "source": src.name(), "detect": detect, "to": to.name(), "size": size, "variant": variant}), observed: format!("status {}, stderr [{}]", out.status.show(), preview(&out.stderr, 200)), expected: "killed by SIGPIPE with nothing on stderr (never exit status 0 with output missing)".into() });
    }
}

/// stdout on /dev/full, the input on stdin: every combination of source format,
/// detection, target and size class must end with status 1 and a message.
pub fn judge_devfull_stdin(src: Fmt, detect: bool, to: Fmt, size: &'static str, variant: usize, acc: &mut Acc) {
    judge_failing_sink(src, detect, to, size, variant, 0, acc)
}

/// The same matrix with a choice of failing sink: 0 = /dev/full (a character device), 1 = a regular
/// file that may not grow at all, 2 = a regular file that may grow to 10 000 bytes (write(2) fails
/// with EFBIG beyond the limit, as ENOSPC/EDQUOT would on a full file system).
pub fn judge_failing_sink(src: Fmt, detect: bool, to: Fmt, size: &'static str, variant: usize, sink: u64, acc: &mut Acc) {
    let data = match size {
        "small" => small_input(src, variant),
        _ => match big_input(src, 40 << 10, true) {
            Some(d) => d,
            None => return,
        },
    };
    let probe = crate::run::run_mode(&data, &crate::run::Mode::Reader(crate::mon::Sched::All), if detect { None } else { Some(src) }, to);
    if !probe.verdict.is_ok() || probe.out.is_empty() {
        acc.count("skipped_library_cannot_produce_enough_output");
        return;
    }
    acc.evals += 1;
    let sc = Scratch::new();
    let mut argv: Vec<String> = vec!["-t".into(), to.name().into()];
    let mut stdin = StdinKind::Null;
    if variant % 2 == 0 {
        if !detect {
            argv.push("-f".into());
            argv.push(src.name().into());
        }
        stdin = StdinKind::Bytes(data);
    } else {
        let n = file_name("in", src, detect);
        sc.file(&n, &data);
        argv.push(n);
    }
    let limit = if sink == 1 { 0u64 } else if sink >= 3 { u64::MAX } else { 10_000 };
    if sink == 2 && probe.out.len() as u64 <= limit {
        acc.count("skipped_output_fits_under_the_file_size_limit");
        acc.evals -= 1;
        return;
    }
    let the_bin = procmon::release_bin();
    let mk = |stdin: StdinKind| Run { bin: &the_bin, argv: argv.clone(), cwd: sc.path(), stdin, stdout: if sink == 0 { StdoutKind::DevFull } else if sink == 3 { StdoutKind::FullNonBlockingPipe } else if sink == 4 { StdoutKind::HungUpPty } else { StdoutKind::FileLimited(limit) }, wall_secs: 60, cpu_secs: 30 };
    let mut out = procmon::run(mk(stdin.clone()));
    if out.status == Status::Exit(0) && sink == 4 {
        // a terminal counts as hung up only while nobody holds its master: confirm while no other child of the
        // harness is between fork and exec (see procmon::run_exclusive)
        acc.count("exit_0_observations_confirmed_under_exclusion");
        out = procmon::run_exclusive(mk(stdin.clone()));
    }
    let label = if sink == 0 { "dev_full" } else if sink == 3 { "full_nonblocking_pipe" } else if sink == 4 { "hung_up_terminal" } else { "limited_regular_file" };
    acc.count(&format!("{label}_runs"));
    acc.count(&format!("{label}_{}{}_{}_{}", src.name(), if detect { "_detected" } else { "" }, size, if variant % 2 == 0 { "stdin" } else { "file" }));
    if matches!(out.status, Status::Timeout | Status::SpawnError(_)) {
        acc.inconclusive += 1;
        return;
    }
    let err = String::from_utf8_lossy(&out.stderr);
    if out.status != Status::Exit(1) || !err.starts_with("xt error") {
        acc.violation(Violation { sig: format!("{} {}{}->{} {} {}: {}", if sink == 0 { "/dev/full" } else if sink == 3 { "full non-blocking pipe" } else if sink == 4 { "terminal that hung up (EIO)" } else { "regular file that cannot grow" }, src.name(), if detect { "(detected)" } else { "" }, to.name(), size, if variant % 2 == 0 { "stdin" } else { "file" }, out.status.show()), case: json!({"devfull_matrix": true, "sink": sink, "source": src.name(), "detect": detect, "to": to.name(), "size": size, "variant": variant}), observed: format!("status {}, stderr [{}], {} bytes reached the file", out.status.show(), preview(&out.stderr, 200), out.stdout.len()), expected: "exit 1 and a message beginning 'xt error'".into() });
    } else {
        acc.count(&format!("{label}_status_1_with_message"));
        if sink != 0 && out.stdout.len() as u64 > limit {
            acc.inconclusive += 1; // the limit did not apply: the run tells nothing
        }
    }
}

/// The consumer takes a few bytes of the FIRST input's (already flushed) output
/// and leaves; only then does a second, small input arrive on stdin. Its output
/// fits in the stdout buffer, so the failure is met in the per-input flush.
pub fn judge_late_small_input(to: Fmt, k: usize, first_bytes: usize, acc: &mut Acc) {
    acc.evals += 1;
    let sc = Scratch::new();
    sc.file("first.json", &big_json(first_bytes, false));
    let argv: Vec<String> = vec!["-t".into(), to.name().into(), "first.json".into(), "-".into()];
    let bin = procmon::release_bin();
    let mk = || Run { bin: &bin, argv: argv.clone(), cwd: sc.path(), stdin: StdinKind::BytesAfterConsumerLeft(b"{\"late\": [1, 2, 3]}\n".to_vec()), stdout: StdoutKind::CloseAfter(k), wall_secs: 120, cpu_secs: 60 };
    let mut out = procmon::run(mk());
    if out.status == Status::Exit(0) {
        // "exit 0" needs a reader on the pipe: confirm it while nothing else is being spawned (see procmon::run_exclusive)
        acc.count("exit_0_observations_confirmed_under_exclusion");
        out = procmon::run_exclusive(mk());
    }
    acc.count("late_small_input_runs");
    if matches!(out.status, Status::Timeout | Status::SpawnError(_)) || out.stdout.len() != k {
        acc.inconclusive += 1;
        return;
    }
    if out.status == Status::Signal(libc::SIGPIPE) && out.stderr.is_empty() {
        acc.count("killed_by_sigpipe_silently");
    } else {
        acc.violation(Violation { sig: format!("consumer left before a later small input, to={}: {}", to.name(), out.status.show()), case: json!({"late_small_input": true, "to": to.name(), "k": k, "first_bytes": first_bytes}), observed: format!("status {}, stderr [{}]", out.status.show(), preview(&out.stderr, 200)), expected: "killed by SIGPIPE with nothing on stderr (never exit status 0 with output missing)".into() });
    }
}

/// Standard output is a SOCKET whose peer takes k bytes and closes: the same promise as for a pipe.
pub fn judge_socket(to: Fmt, k: usize, via_stdin: bool, acc: &mut Acc) {
    acc.evals += 1;
    let sc = Scratch::new();
    let data = big_json(3 << 20, to == Fmt::Toml);
    sc.file("in.json", &data);
    let argv: Vec<String> = if via_stdin { vec!["-t".into(), to.name().into()] } else { vec!["-t".into(), to.name().into(), "in.json".into()] };
    let bin = procmon::release_bin();
    let mk = || Run { bin: &bin, argv: argv.clone(), cwd: sc.path(), stdin: if via_stdin { StdinKind::Bytes(data.clone()) } else { StdinKind::Null }, stdout: StdoutKind::SocketCloseAfter(k), wall_secs: 120, cpu_secs: 60 };
    let mut out = procmon::run(mk());
    if out.status == Status::Exit(0) {
        acc.count("exit_0_observations_confirmed_under_exclusion");
        out = procmon::run_exclusive(mk());
    }
    acc.count("socket_consumer_runs");
    if matches!(out.status, Status::Timeout | Status::SpawnError(_)) || out.stdout.len() != k {
        acc.inconclusive += 1;
        return;
    }
    let err = String::from_utf8_lossy(&out.stderr);
    if out.status == Status::Signal(libc::SIGPIPE) && out.stderr.is_empty() {
        acc.count("socket_killed_by_sigpipe_silently");
    } else if out.status == Status::Exit(1) && err.starts_with("xt error") && err.contains("os error 104") {
        // the kernel reported a connection reset instead of a broken pipe: "any other write failure"
        acc.count("socket_connection_reset_reported_as_an_error");
    } else {
        acc.violation(Violation { sig: format!("stdout a socket whose peer left after {} bytes, to={}: {}", if k == 0 { "0".to_string() } else { "k".to_string() }, to.name(), out.status.show()), case: json!({"socket": true, "to": to.name(), "k": k, "stdin": via_stdin}), observed: format!("status {}, stderr [{}]", out.status.show(), preview(&out.stderr, 200)), expected: "killed by SIGPIPE with nothing on stderr".into() });
    }
}

pub fn judge_devfull(to: Fmt, bytes: usize, acc: &mut Acc) {
    acc.evals += 1;
    let sc = Scratch::new();
    sc.file("in.json", &big_json(bytes, true));
    let out = procmon::run(Run { bin: &procmon::release_bin(), argv: vec!["-t".into(), to.name().into(), "in.json".into()], cwd: sc.path(), stdin: StdinKind::Null, stdout: StdoutKind::DevFull, wall_secs: 60, cpu_secs: 30 });
    acc.count("dev_full_runs");
    if matches!(out.status, Status::Timeout | Status::SpawnError(_)) {
        acc.inconclusive += 1;
        return;
    }
    let err = String::from_utf8_lossy(&out.stderr);
    if out.status != Status::Exit(1) || !err.starts_with("xt error") {
        acc.violation(Violation { sig: format!("/dev/full to={} {}", to.name(), if bytes < 8192 { "below buffer" } else { "above buffer" }), case: json!({"devfull": true, "to": to.name(), "bytes": bytes}), observed: format!("status {}, stderr [{}]", out.status.show(), preview(&out.stderr, 200)), expected: "exit 1 and a message beginning 'xt error'".into() });
    }
}

/// stdout on /dev/full with the FIRST failing write landing on every kind of output token: the
/// output is a long run of one-byte values and one-byte separators, shifted by `pad` bytes, so that
/// for some pad the write that overflows the 8 KiB buffer is a separator, for another a value.
pub fn judge_devfull_alignment(src: Fmt, to: Fmt, pad: usize, acc: &mut Acc) {
    let mut j = format!("{{\"p\":\"{}\",\"rows\":[", "x".repeat(pad));
    for i in 0..6000 {
        if i > 0 {
            j.push(',');
        }
        j.push('0');
    }
    j.push_str("],\"m\":{");
    for i in 0..2000 {
        if i > 0 {
            j.push(',');
        }
        j.push_str(&format!("\"k{i}\":{}", i % 10));
    }
    j.push_str("}}\n");
    let data = if src == Fmt::Json { j.into_bytes() } else { crate::run::run_slice(j.as_bytes(), Some(Fmt::Json), src).out };
    if data.is_empty() {
        return;
    }
    acc.evals += 1;
    let sc = Scratch::new();
    let argv: Vec<String> = vec!["-t".into(), to.name().into(), "-f".into(), src.name().into()];
    let out = procmon::run(Run { bin: &procmon::release_bin(), argv, cwd: sc.path(), stdin: StdinKind::Bytes(data), stdout: StdoutKind::DevFull, wall_secs: 60, cpu_secs: 30 });
    acc.count("dev_full_alignment_runs");
    if matches!(out.status, Status::Timeout | Status::SpawnError(_)) {
        acc.inconclusive += 1;
        return;
    }
    let err = String::from_utf8_lossy(&out.stderr);
    if out.status != Status::Exit(1) || !err.starts_with("xt error") {
        acc.violation(Violation { sig: format!("/dev/full {}->{} at a buffer boundary: {}", src.name(), to.name(), out.status.show()), case: json!({"devfull_alignment": true, "source": src.name(), "to": to.name(), "pad": pad}), observed: format!("status {}, stderr [{}]", out.status.show(), preview(&out.stderr, 200)), expected: "exit 1 and a message beginning 'xt error'".into() });
    } else {
        acc.count("dev_full_status_1_with_message");
    }
}

/// The input is a FIFO operand (it cannot be memory-mapped, xt reads it through a reader like standard
/// input, but it is a named path): stdout on /dev/full, or a consumer that is gone before the FIFO
/// delivers anything. The feeder opens the FIFO, waits, and only then writes.
pub fn judge_fifo_input(src: Fmt, detect: bool, to: Fmt, devfull: bool, variant: usize, acc: &mut Acc) {
    let data = small_input(src, variant);
    let probe = crate::run::run_mode(&data, &crate::run::Mode::Reader(crate::mon::Sched::All), if detect { None } else { Some(src) }, to);
    if !probe.verdict.is_ok() || probe.out.is_empty() {
        return;
    }
    acc.evals += 1;
    let sc = Scratch::new();
    let name = file_name("pipe", src, detect);
    sc.fifo(&name);
    let argv: Vec<String> = vec!["-t".into(), to.name().into(), name.clone()];
    let feeder = procmon::feed_fifo_bursts(sc.path().join(&name), vec![vec![], data], 150);
    let bin = procmon::release_bin();
    let mk = || Run { bin: &bin, argv: argv.clone(), cwd: sc.path(), stdin: StdinKind::Null, stdout: if devfull { StdoutKind::DevFull } else { StdoutKind::CloseAfter(0) }, wall_secs: 60, cpu_secs: 30 };
    let mut out = procmon::run(mk());
    let _ = feeder.join();
    acc.count(if devfull { "fifo_input_dev_full_runs" } else { "fifo_input_consumer_gone_runs" });
    if matches!(out.status, Status::Timeout | Status::SpawnError(_)) {
        acc.inconclusive += 1;
        return;
    }
    let case = || json!({"fifo_input": true, "source": src.name(), "detect": detect, "to": to.name(), "devfull": devfull, "variant": variant});
    if devfull {
        let err = String::from_utf8_lossy(&out.stderr);
        if out.status != Status::Exit(1) || !err.starts_with("xt error") {
            acc.violation(Violation { sig: format!("/dev/full, FIFO input {}{}->{}: {}", src.name(), if detect { "(detected)" } else { "" }, to.name(), out.status.show()), case: case(), observed: format!("status {}, stderr [{}]", out.status.show(), preview(&out.stderr, 200)), expected: "exit 1 and a message beginning 'xt error'".into() });
        } else {
            acc.count("dev_full_status_1_with_message");
        }
    } else {
        if out.status == Status::Exit(0) {
            // confirm without concurrent spawns (see procmon::run_exclusive)
            acc.count("exit_0_observations_confirmed_under_exclusion");
            let feeder = procmon::feed_fifo_bursts(sc.path().join(&name), vec![vec![], small_input(src, variant)], 150);
            out = procmon::run_exclusive(mk());
            let _ = feeder.join();
        }
        if out.status == Status::Signal(libc::SIGPIPE) && out.stderr.is_empty() {
            acc.count("killed_by_sigpipe_silently");
        } else if !matches!(out.status, Status::Timeout | Status::SpawnError(_)) {
            acc.violation(Violation { sig: format!("consumer gone, FIFO input {}{}->{}: {}", src.name(), if detect { "(detected)" } else { "" }, to.name(), out.status.show()), case: case(), observed: format!("status {}, stderr [{}]", out.status.show(), preview(&out.stderr, 200)), expected: "killed by SIGPIPE with nothing on stderr".into() });
        }
    }
}

/// A zero-length regular file is one empty TOML table: a few bytes of output for JSON / YAML / MessagePack
/// targets that exist only in the buffer until the flush. stdout on /dev/full: status 1 and a message.
pub fn judge_devfull_empty_file(name: &'static str, to: Fmt, acc: &mut Acc) {
    let probe = crate::run::run_slice(b"", if name.ends_with(".toml") { Some(Fmt::Toml) } else { None }, to);
    if !probe.verdict.is_ok() || probe.out.is_empty() {
        return;
    }
    acc.evals += 1;
    let sc = Scratch::new();
    sc.file(name, b"");
    let out = procmon::run(Run { bin: &procmon::release_bin(), argv: vec!["-t".into(), to.name().into(), name.into()], cwd: sc.path(), stdin: StdinKind::Null, stdout: StdoutKind::DevFull, wall_secs: 60, cpu_secs: 30 });
    acc.count("dev_full_zero_length_file_runs");
    if matches!(out.status, Status::Timeout | Status::SpawnError(_)) {
        acc.inconclusive += 1;
        return;
    }
    let err = String::from_utf8_lossy(&out.stderr);
    if out.status != Status::Exit(1) || !err.starts_with("xt error") {
        acc.violation(Violation { sig: format!("/dev/full zero-length file ->{}: {}", to.name(), out.status.show()), case: json!({"devfull_empty_file": true, "name": name, "to": to.name()}), observed: format!("status {}, stderr [{}]", out.status.show(), preview(&out.stderr, 200)), expected: "exit 1 and a message beginning 'xt error'".into() });
    } else {
        acc.count("dev_full_status_1_with_message");
    }
}

pub fn cases(ctx: &Ctx) -> Vec<Case> {
    let mut v = vec![];
    let layouts: &[&'static str] = &["one_file", "stdin", "many_files"];
    let sources = [Fmt::Json, Fmt::Yaml, Fmt::Msgpack, Fmt::Toml];
    for (ti, to) in ALL.iter().enumerate() {
        for (ki, k) in KS.iter().enumerate() {
            for (li, layout) in layouts.iter().enumerate() {
                let single_table = (ki + li) % 2 == 0;
                // JSON source named explicitly: every (target, k, layout)
                v.push(Case { to: *to, k: *k, layout, single_table, src: Fmt::Json, detect: false });
                if ctx.thorough() {
                    // thorough: every source format, named and detected
                    for src in sources {
                        for detect in [false, true] {
                            if !(src == Fmt::Json && !detect) {
                                v.push(Case { to: *to, k: *k, layout, single_table, src, detect });
                            }
                        }
                    }
                } else {
                    // quick: one more (source, detection) choice per (target, k, layout), rotating with the seed
                    let r = ti * 7 + ki * 3 + li + ctx.seed as usize;
                    let choices = [(Fmt::Yaml, false), (Fmt::Yaml, true), (Fmt::Msgpack, false), (Fmt::Msgpack, true), (Fmt::Toml, false), (Fmt::Toml, true), (Fmt::Json, true)];
                    let (src, detect) = choices[r % choices.len()];
                    v.push(Case { to: *to, k: *k, layout, single_table, src, detect });
                }
            }
        }
    }
    if ctx.thorough() {
        // more closing points around buffer and pipe-capacity multiples
        for to in ALL {
            for base in [8192usize, 16384, 65536, 131072, 262144] {
                for d in [-2i64, -1, 0, 1, 2] {
                    for (src, detect) in [(Fmt::Json, false), (Fmt::Yaml, true), (Fmt::Msgpack, false)] {
                        v.push(Case { to, k: (base as i64 + d) as usize, layout: "one_file", single_table: false, src, detect });
                        v.push(Case { to, k: (base as i64 + d) as usize, layout: "stdin", single_table: false, src, detect });
                    }
                }
            }
        }
    }
    v
}

pub fn run(ctx: &Ctx) -> i32 {
    let cs = cases(ctx);
    let mut acc = crate::par::run(cs.len(), 1, |i, acc| {
        acc.distinct(&format!("{:?}", cs[i]));
        acc.sample_every(17, || cs[i].json());
        judge_pipe(&cs[i], acc);
    });
    for to in ALL {
        for bytes in [200usize, 4000, 9000, 100_000] {
            judge_devfull(to, bytes, &mut acc);
        }
    }
    // matrices: consumer gone before the input arrives; /dev/full with every source
    let mut matrix = vec![];
    for src in ALL {
        for detect in [false, true] {
            for to in ALL {
                for size in ["small", "medium"] {
                    for variant in 0..std::env::var("XTV_C16_VARIANTS").ok().and_then(|v| v.parse().ok()).unwrap_or(if ctx.thorough() { 6 } else { 2 }) {
                        matrix.push((src, detect, to, size, variant));
                    }
                }
            }
        }
    }
    let m_acc = crate::par::run(matrix.len(), 1, |i, acc| {
        let (src, detect, to, size, variant) = matrix[i];
        judge_consumer_gone_first(src, detect, to, size, variant, acc);
        judge_devfull_stdin(src, detect, to, size, variant, acc);
        judge_failing_sink(src, detect, to, size, variant, 1 + (variant as u64 + size.len() as u64) % 2, acc);
        judge_failing_sink(src, detect, to, size, variant, 3, acc);
        if to != Fmt::Msgpack {
            // (xt refuses MessagePack on a terminal before writing anything)
            judge_failing_sink(src, detect, to, size, variant, 4, acc);
        }
        judge_consumer_gone_env(src, detect, to, size, variant, if (variant + src as usize + to as usize) % 2 == 0 { procmon::SigEnv::PipeIgnored } else { procmon::SigEnv::PipeBlocked }, acc);
    });
    acc.merge(m_acc);
    let mut align = vec![];
    for src in [Fmt::Json, Fmt::Yaml, Fmt::Msgpack] {
        for to in [Fmt::Json, Fmt::Yaml, Fmt::Msgpack] {
            for pad in 0..(if ctx.thorough() { 64 } else { 6 }) {
                align.push((src, to, pad));
            }
        }
    }
    let a_acc = crate::par::run(align.len(), 1, |i, acc| {
        let (src, to, pad) = align[i];
        judge_devfull_alignment(src, to, pad, acc);
    });
    acc.merge(a_acc);
    let mut socks = vec![];
    for to in ALL {
        for k in [0usize, 1, 4096, 70000] {
            for via_stdin in [false, true] {
                socks.push((to, k, via_stdin));
            }
        }
    }
    let s_acc = crate::par::run(socks.len(), 1, |i, acc| {
        let (to, k, via_stdin) = socks[i];
        judge_socket(to, k, via_stdin, acc);
    });
    acc.merge(s_acc);
    for name in ["empty", "empty.toml"] {
        for to in ALL {
            judge_devfull_empty_file(name, to, &mut acc);
        }
    }
    let mut fifo_cases = vec![];
    for src in ALL {
        for detect in [false, true] {
            for to in ALL {
                for devfull in [true, false] {
                    for variant in 0..(if ctx.thorough() { 4 } else { 1 }) {
                        fifo_cases.push((src, detect, to, devfull, variant + (to as usize + src as usize) % 2));
                    }
                }
            }
        }
    }
    let f_acc = crate::par::run(fifo_cases.len(), 1, |i, acc| {
        let (src, detect, to, devfull, variant) = fifo_cases[i];
        judge_fifo_input(src, detect, to, devfull, variant, acc);
    });
    acc.merge(f_acc);
    // TOML takes one input only; the other three targets get the late-input layout
    for to in [Fmt::Json, Fmt::Msgpack, Fmt::Yaml] {
        for (k, first) in [(0usize, 300usize), (4, 300), (4, 20_000), (100, 9_000), (1, 40_000)] {
            judge_late_small_input(to, k, first, &mut acc);
        }
    }
    let rule = format!("{} closing-pipe runs: the consumer takes exactly k bytes for k in {:?} and closes while more than 1 MiB of output remains, x 4 targets x input layouts (one 3 MiB file, 3 MiB on stdin, ten 400 KiB files so that the failure is also met in the per-input flush), single-table and multi-document inputs, JSON input named explicitly for every case plus (quick) one rotating or (thorough) every other choice of source format JSON/YAML/MessagePack/TOML, named or detected; a matrix source x named/detected x target x small/40 KiB input in which the consumer is gone before stdin delivers anything (failure met in the final flush for small outputs) and the same matrix with stdout on /dev/full (stdin and file) and with stdout on a REGULAR FILE that may not grow (RLIMIT_FSIZE 0 or 10 000 bytes with SIGXFSZ ignored: write(2) fails with EFBIG, like a full file system) on a full pipe in non-blocking mode (EAGAIN) and on a terminal that hung up (the slave of a pseudo-terminal whose master is closed: EIO); the consumer-gone matrix once more with SIGPIPE inherited as ignored (xt must still die from it, silently) or blocked in the signal mask (it cannot terminate: a silent failure status, never a panic or status 0); /dev/full runs whose output is a long run of one-byte values and separators shifted by 0..5 (thorough: 0..63) bytes, so that the first failing write lands on every kind of token; stdout a connected stream SOCKET whose peer takes 0 / 1 / 4096 / 70 000 bytes and closes (4 targets, file and stdin); a zero-length file (one empty TOML table) on /dev/full; FIFO operands (source x named/detected x target) on /dev/full and with the consumer gone before the FIFO delivers; plus 16 runs with stdout on /dev/full (outputs below and above the 8 KiB buffer) and 15 runs in which the consumer leaves after the first input's output and a second, small input arrives only afterwards (failure met in the per-input flush); distinct non-trivial = distinct (target, k, layout) cases", cs.len(), KS);
    ev::finish(
        Finish { ctx, level: "fault_enumeration", rule, assumptions: vec!["the kernel's pipe semantics: a write to a pipe whose read end is closed fails with EPIPE".into(), "a run in which the consumer could not obtain k bytes is inconclusive, not a violation".into(), "an 'exit 0 although the consumer had left' observation is confirmed by one more run during which no other process is spawned (a concurrently spawned child briefly holds a copy of the read end)".into()], extra: serde_json::Map::new(), exhaustive: false, min_distinct: 40, must_reach: vec![("killed_by_sigpipe_silently".into(), 40), ("dev_full_runs".into(), 16), ("dev_full_status_1_with_message".into(), 100), ("limited_regular_file_status_1_with_message".into(), 60), ("full_nonblocking_pipe_status_1_with_message".into(), 60), ("hung_up_terminal_status_1_with_message".into(), 40), ("consumer_gone_with_sigpipe_ignored".into(), 30), ("socket_killed_by_sigpipe_silently".into(), 24), ("sigpipe_blocked_silent_failure_status".into(), 30), ("consumer_gone_first_runs".into(), 100), ("dev_full_alignment_runs".into(), 50), ("dev_full_zero_length_file_runs".into(), 6), ("fifo_input_dev_full_runs".into(), 20), ("fifo_input_consumer_gone_runs".into(), 20), ("source_yaml_detected".into(), 3), ("source_msgpack".into(), 3), ("late_small_input_runs".into(), 15), ("layout_many_files".into(), 5), ("layout_stdin".into(), 5)] },
        acc,
    )
}

pub fn replay(v: &Value) -> i32 {
    let c = &v["case"];
    let mut acc = Acc::default();
    let Some(to) = c["to"].as_str().and_then(Fmt::parse) else { return 2 };
    if c["socket"].as_bool() == Some(true) {
        judge_socket(to, c["k"].as_u64().unwrap_or(0) as usize, c["stdin"].as_bool().unwrap_or(false), &mut acc);
    } else if c["fifo_input"].as_bool() == Some(true) {
        let Some(src) = c["source"].as_str().and_then(Fmt::parse) else { return 2 };
        judge_fifo_input(src, c["detect"].as_bool().unwrap_or(false), to, c["devfull"].as_bool().unwrap_or(true), c["variant"].as_u64().unwrap_or(0) as usize, &mut acc);
    } else if c["devfull_empty_file"].as_bool() == Some(true) {
        judge_devfull_empty_file(if c["name"].as_str() == Some("empty.toml") { "empty.toml" } else { "empty" }, to, &mut acc);
    } else if c["devfull_alignment"].as_bool() == Some(true) {
        let Some(src) = c["source"].as_str().and_then(Fmt::parse) else { return 2 };
        judge_devfull_alignment(src, to, c["pad"].as_u64().unwrap_or(0) as usize, &mut acc);
    } else if c["consumer_gone_first"].as_bool() == Some(true) || c["devfull_matrix"].as_bool() == Some(true) {
        let Some(src) = c["source"].as_str().and_then(Fmt::parse) else { return 2 };
        let size: &'static str = if c["size"].as_str() == Some("small") { "small" } else { "medium" };
        let (detect, variant) = (c["detect"].as_bool().unwrap_or(false), c["variant"].as_u64().unwrap_or(0) as usize);
        if c["consumer_gone_first"].as_bool() == Some(true) {
            let env = match c["sig_env"].as_str() {
                Some("blocked") => procmon::SigEnv::PipeBlocked,
                Some("ignored") => procmon::SigEnv::PipeIgnored,
                _ => procmon::SigEnv::Default,
            };
            judge_consumer_gone_env(src, detect, to, size, variant, env, &mut acc);
        } else {
            judge_failing_sink(src, detect, to, size, variant, c["sink"].as_u64().unwrap_or(0), &mut acc);
        }
    } else if c["late_small_input"].as_bool() == Some(true) {
        judge_late_small_input(to, c["k"].as_u64().unwrap_or(0) as usize, c["first_bytes"].as_u64().unwrap_or(300) as usize, &mut acc);
    } else if c["devfull"].as_bool() == Some(true) {
        judge_devfull(to, c["bytes"].as_u64().unwrap_or(200) as usize, &mut acc);
    } else {
        let layout: &'static str = match c["layout"].as_str() {
            Some("stdin") => "stdin",
            Some("many_files") => "many_files",
            _ => "one_file",
        };
        judge_pipe(&Case { to, k: c["k"].as_u64().unwrap_or(0) as usize, layout, single_table: c["single_table"].as_bool().unwrap_or(false), src: c["source"].as_str().and_then(Fmt::parse).unwrap_or(Fmt::Json), detect: c["detect"].as_bool().unwrap_or(false) }, &mut acc);
    }
    if acc.vio_count > 0 {
        println!("VIOLATION property=C16 replay=<this file> (reproduced): {}", acc.violations[0].observed);
        1
    } else {
        println!("not reproduced");
        0
    }
}

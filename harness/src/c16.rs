//! C16 — broken pipes and other write errors at the CLI.
//!
//! The consumer of stdout reads exactly k bytes and closes, for k from 0 to
//! several pipe capacities, while more than 1 MiB of output remains (so xt must
//! meet EPIPE; no race with normal completion). xt must die from SIGPIPE with
//! an empty stderr. With stdout on /dev/full it must exit 1 with a message.

use serde_json::{json, Value};

use crate::ev::{self, Acc, Ctx, Finish, Violation};
use crate::fmts::{Fmt, ALL};
use crate::model::preview;
use crate::procmon::{self, Run, Scratch, Status, StdinKind, StdoutKind};

pub const KS: &[usize] = &[0, 1, 100, 4095, 4096, 8191, 8192, 8193, 65535, 65536, 65537, 131072, 327680];

fn big_json(bytes: usize, single_table: bool) -> Vec<u8> {
    let mut s = String::new();
    if single_table {
        s.push_str("{\"rows\":[");
        let mut i = 0;
        while s.len() < bytes {
            if i > 0 {
                s.push(',');
            }
            s.push_str(&format!("{{\"id\":{i},\"text\":\"row number {i} of a large table\"}}"));
            i += 1;
        }
        s.push_str("]}\n");
    } else {
        let mut i = 0;
        while s.len() < bytes {
            s.push_str(&format!("{{\"id\":{i},\"text\":\"row number {i} of a long stream\",\"tags\":[\"a\",\"b\"]}}\n"));
            i += 1;
        }
    }
    s.into_bytes()
}

#[derive(Clone, Debug)]
pub struct Case {
    pub to: Fmt,
    pub k: usize,
    pub layout: &'static str, // one_file | stdin | many_files
    pub single_table: bool,
}

impl Case {
    fn json(&self) -> Value {
        json!({"to": self.to.name(), "k": self.k, "layout": self.layout, "single_table": self.single_table})
    }
}

pub fn judge_pipe(case: &Case, acc: &mut Acc) {
    acc.evals += 1;
    let sc = Scratch::new();
    let single = case.single_table || case.to == Fmt::Toml;
    let mut argv: Vec<String> = vec!["-t".into(), case.to.name().into()];
    let mut stdin = StdinKind::Null;
    match case.layout {
        "stdin" => stdin = StdinKind::Bytes(big_json(3 << 20, single)),
        "many_files" if !single => {
            for i in 0..10 {
                let n = format!("part{i}.json");
                sc.file(&n, &big_json(400 << 10, false));
                argv.push(n);
            }
        }
        _ => {
            sc.file("big.json", &big_json(3 << 20, single));
            argv.push("big.json".into());
        }
    }
    let out = procmon::run(Run { bin: &procmon::release_bin(), argv: argv.clone(), cwd: sc.path(), stdin, stdout: StdoutKind::CloseAfter(case.k), wall_secs: 120, cpu_secs: 60 });
    acc.count(&format!("closing_point_k_{}", case.k));
    acc.count(&format!("layout_{}", case.layout));
    acc.count(&format!("target_{}", case.to.name()));
    if matches!(out.status, Status::Timeout | Status::SpawnError(_)) {
        acc.inconclusive += 1;
        return;
    }
    if out.stdout.len() != case.k {
        // the consumer could not even get k bytes: the output was shorter than planned (harness sizing problem)
        acc.inconclusive += 1;
        acc.count("consumer_got_fewer_bytes_than_k");
        return;
    }
    let ok = out.status == Status::Signal(libc::SIGPIPE) && out.stderr.is_empty();
    if ok {
        acc.count("killed_by_sigpipe_silently");
    } else {
        acc.violation(Violation { sig: format!("closed pipe to={} {}: {}", case.to.name(), case.layout, if out.status == Status::Signal(libc::SIGPIPE) { "stderr not empty".to_string() } else { out.status.show() }), case: case.json(), observed: format!("status {}, stderr [{}]", out.status.show(), preview(&out.stderr, 200)), expected: "killed by SIGPIPE with nothing on stderr".into() });
    }
}

/// The consumer takes a few bytes of the FIRST input's (already flushed) output
/// and leaves; only then does a second, small input arrive on stdin. Its output
/// fits in the stdout buffer, so the failure is met in the per-input flush.
pub fn judge_late_small_input(to: Fmt, k: usize, first_bytes: usize, acc: &mut Acc) {
    acc.evals += 1;
    let sc = Scratch::new();
    sc.file("first.json", &big_json(first_bytes, false));
    let argv: Vec<String> = vec!["-t".into(), to.name().into(), "first.json".into(), "-".into()];
    let out = procmon::run(Run { bin: &procmon::release_bin(), argv, cwd: sc.path(), stdin: StdinKind::BytesAfterConsumerLeft(b"{\"late\": [1, 2, 3]}\n".to_vec()), stdout: StdoutKind::CloseAfter(k), wall_secs: 120, cpu_secs: 60 });
    acc.count("late_small_input_runs");
    if matches!(out.status, Status::Timeout | Status::SpawnError(_)) || out.stdout.len() != k {
        acc.inconclusive += 1;
        return;
    }
    if out.status == Status::Signal(libc::SIGPIPE) && out.stderr.is_empty() {
        acc.count("killed_by_sigpipe_silently");
    } else {
        acc.violation(Violation { sig: format!("consumer left before a later small input, to={}: {}", to.name(), out.status.show()), case: json!({"late_small_input": true, "to": to.name(), "k": k, "first_bytes": first_bytes}), observed: format!("status {}, stderr [{}]", out.status.show(), preview(&out.stderr, 200)), expected: "killed by SIGPIPE with nothing on stderr (never exit status 0 with output missing)".into() });
    }
}

pub fn judge_devfull(to: Fmt, bytes: usize, acc: &mut Acc) {
    acc.evals += 1;
    let sc = Scratch::new();
    sc.file("in.json", &big_json(bytes, true));
    let out = procmon::run(Run { bin: &procmon::release_bin(), argv: vec!["-t".into(), to.name().into(), "in.json".into()], cwd: sc.path(), stdin: StdinKind::Null, stdout: StdoutKind::DevFull, wall_secs: 60, cpu_secs: 30 });
    acc.count("dev_full_runs");
    if matches!(out.status, Status::Timeout | Status::SpawnError(_)) {
        acc.inconclusive += 1;
        return;
    }
    let err = String::from_utf8_lossy(&out.stderr);
    if out.status != Status::Exit(1) || !err.starts_with("xt error") {
        acc.violation(Violation { sig: format!("/dev/full to={} {}", to.name(), if bytes < 8192 { "below buffer" } else { "above buffer" }), case: json!({"devfull": true, "to": to.name(), "bytes": bytes}), observed: format!("status {}, stderr [{}]", out.status.show(), preview(&out.stderr, 200)), expected: "exit 1 and a message beginning 'xt error'".into() });
    }
}

pub fn cases(ctx: &Ctx) -> Vec<Case> {
    let mut v = vec![];
    let layouts: &[&'static str] = &["one_file", "stdin", "many_files"];
    for (ti, to) in ALL.iter().enumerate() {
        for (ki, k) in KS.iter().enumerate() {
            for (li, layout) in layouts.iter().enumerate() {
                // quick: a rotating third of the layouts per (target, k); thorough: all
                let _ = (ti, ki, li);
                {
                    v.push(Case { to: *to, k: *k, layout, single_table: (ki + li) % 2 == 0 });
                }
            }
        }
    }
    if ctx.thorough() {
        // more closing points around buffer and pipe-capacity multiples
        for to in ALL {
            for base in [8192usize, 16384, 65536, 131072, 262144] {
                for d in [-2i64, -1, 0, 1, 2] {
                    v.push(Case { to, k: (base as i64 + d) as usize, layout: "one_file", single_table: false });
                }
            }
        }
    }
    v
}

pub fn run(ctx: &Ctx) -> i32 {
    let cs = cases(ctx);
    let mut acc = crate::par::run(cs.len(), 1, |i, acc| {
        acc.distinct(&format!("{:?}", cs[i]));
        acc.sample_every(17, || cs[i].json());
        judge_pipe(&cs[i], acc);
    });
    for to in ALL {
        for bytes in [200usize, 4000, 9000, 100_000] {
            judge_devfull(to, bytes, &mut acc);
        }
    }
    // TOML takes one input only; the other three targets get the late-input layout
    for to in [Fmt::Json, Fmt::Msgpack, Fmt::Yaml] {
        for (k, first) in [(0usize, 300usize), (4, 300), (4, 20_000), (100, 9_000), (1, 40_000)] {
            judge_late_small_input(to, k, first, &mut acc);
        }
    }
    let rule = format!("{} closing-pipe runs: the consumer takes exactly k bytes for k in {:?} and closes while more than 1 MiB of output remains, x 4 targets x input layouts (one 3 MiB file, 3 MiB on stdin, ten 400 KiB files so that the failure is also met in the per-input flush), single-table and multi-document inputs; plus 16 runs with stdout on /dev/full (outputs below and above the 8 KiB buffer) and 15 runs in which the consumer leaves after the first input's output and a second, small input arrives only afterwards (failure met in the per-input flush); distinct non-trivial = distinct (target, k, layout) cases", cs.len(), KS);
    ev::finish(
        Finish { ctx, level: "fault_enumeration", rule, assumptions: vec!["the kernel's pipe semantics: a write to a pipe whose read end is closed fails with EPIPE".into(), "a run in which the consumer could not obtain k bytes is inconclusive, not a violation".into()], extra: serde_json::Map::new(), exhaustive: false, min_distinct: 40, must_reach: vec![("killed_by_sigpipe_silently".into(), 40), ("dev_full_runs".into(), 16), ("late_small_input_runs".into(), 15), ("layout_many_files".into(), 5), ("layout_stdin".into(), 5)] },
        acc,
    )
}

pub fn replay(v: &Value) -> i32 {
    let c = &v["case"];
    let mut acc = Acc::default();
    let Some(to) = c["to"].as_str().and_then(Fmt::parse) else { return 2 };
    if c["late_small_input"].as_bool() == Some(true) {
        judge_late_small_input(to, c["k"].as_u64().unwrap_or(0) as usize, c["first_bytes"].as_u64().unwrap_or(300) as usize, &mut acc);
    } else if c["devfull"].as_bool() == Some(true) {
        judge_devfull(to, c["bytes"].as_u64().unwrap_or(200) as usize, &mut acc);
    } else {
        let layout: &'static str = match c["layout"].as_str() {
            Some("stdin") => "stdin",
            Some("many_files") => "many_files",
            _ => "one_file",
        };
        judge_pipe(&Case { to, k: c["k"].as_u64().unwrap_or(0) as usize, layout, single_table: c["single_table"].as_bool().unwrap_or(false) }, &mut acc);
    }
    if acc.vio_count > 0 {
        println!("VIOLATION property=C16 replay=<this file> (reproduced): {}", acc.violations[0].observed);
        1
    } else {
        println!("not reproduced");
        0
    }
}

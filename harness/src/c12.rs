//! C12 — I/O faults and partial I/O are handled faithfully by the library.
//!
//! Fault enumeration: for every corpus input that translates without faults,
//! the reader fails (and keeps failing) after k bytes for EVERY k in 0..=len,
//! the writer fails after accepting k bytes for EVERY k below the fault-free
//! output length (two styles), writers accept only short pieces, and flush
//! fails. Oracles: Err (never Ok, never panic), reader error text preserved,
//! accepted bytes a prefix of the fault-free output.

use serde_json::{json, Value};

use crate::corpus::valid_stream;
use crate::ev::{self, Acc, Ctx, Finish, Violation};
use crate::fmts::{self, Fmt, ALL};
use crate::gen::{Classes, GenOpts};
use crate::model::{hex, preview, unhex};
use crate::mon::{FaultStyle, MonWriter, Sched, SchedReader, FLUSH_MARK, READ_MARK};
use crate::rng::Rng;
use crate::run::{guarded, is_prefix, run_slice, Mode, Verdict};
use crate::spell::Feats;

fn case_json(kind: &str, input: &[u8], from: Option<Fmt>, to: Fmt, k: usize, extra: &str) -> Value {
    json!({"fault": kind, "input_hex": hex(input), "input_preview": preview(input, 200), "from": fmts::from_name(from), "to": to.name(), "k": k, "detail": extra})
}

fn yaml_prefix_ok(out: &[u8], clean: &[u8]) -> bool {
    if is_prefix(out, clean) {
        return true;
    }
    // the YAML writer emits the '---' header before it asks the source for the
    // document, so a fault between documents can leave one trailing header
    if let Some(stripped) = out.strip_suffix(b"---\n") {
        return is_prefix(stripped, clean);
    }
    false
}

pub fn reader_fault(input: &[u8], from: Option<Fmt>, to: Fmt, k: usize, sched: &Sched, clean: &[u8], acc: &mut Acc) {
    acc.evals += 1;
    acc.count("reader_fault_points");
    let mut out = Vec::new();
    // the kind of the injected error rotates: some kinds are what the format
    // trials use to mean "not this format"
    let kinds = [std::io::ErrorKind::Other, std::io::ErrorKind::UnexpectedEof, std::io::ErrorKind::InvalidData, std::io::ErrorKind::BrokenPipe];
    let kind = kinds[(k / 3) % 4];
    acc.count(&format!("reader_fault_kind_{kind:?}"));
    // ... and so does the way the error is built: with a custom payload, as a raw OS error, as a bare kind
    let repr = ((k / 2) % 3) as u8;
    acc.count(&format!("reader_fault_representation_{}", ["custom_payload", "raw_os_error", "bare_kind"][repr as usize]));
    let mark = crate::mon::fault_text(repr, kind);
    let r = SchedReader::new(input, sched.clone()).with_fault(k).with_fault_kind(kind).with_fault_repr(repr);
    let log = r.log_handle();
    let v = guarded(|| xt::translate_reader(r, from.map(Fmt::xt), to.xt(), &mut out));
    let faults = log.borrow().faults_returned;
    if faults == 0 {
        // xt finished without ever reading at/after offset k: no fault was injected
        acc.count("reader_fault_not_reached");
        if !v.is_ok() || out != clean {
            acc.violation(Violation { sig: format!("{}->{} run without injected fault differs from the fault-free run", fmts::from_name(from), to.name()), case: case_json("reader", input, from, to, k, &sched.describe()), observed: format!("{} [{}]", v.show(), preview(&out, 120)), expected: "the fault-free outcome".into() });
        }
        return;
    }
    acc.count("reader_faults_delivered");
    let prefix_ok = if to == Fmt::Yaml { yaml_prefix_ok(&out, clean) } else { is_prefix(&out, clean) };
    let problem = match &v {
        Verdict::Ok => Some("returned Ok although the reader failed".to_string()),
        Verdict::Panic(p) => Some(format!("panicked: {p}")),
        Verdict::Err(e) if !e.contains(mark.as_str()) => {
            // recorded finding: beyond 2 MiB of a first YAML document detection gives up without reading on
            if from.is_none() && k >= 2 << 20 && e == "unable to detect input format" && (match xt::verif::detect_slice(input).ok().flatten().map(Fmt::from_xt) { Some(Fmt::Yaml) => true, Some(Fmt::Msgpack) => kind == std::io::ErrorKind::UnexpectedEof, _ => false }) && crate::known::listed("C12", "C12-detection-loses-reader-error-beyond-2-mib") {
                acc.known("C12-detection-loses-reader-error-beyond-2-mib", || format!("input [{}] ({} bytes), reader failing after {k} bytes: Err({e})", preview(input, 40), input.len()));
                return;
            }
            Some(format!("error text lost the reader's error [{mark}]: Err({e})"))
        }
        Verdict::Err(_) if !prefix_ok => Some(format!("bytes written are not a prefix of the fault-free output: [{}] vs [{}]", preview(&out, 160), preview(clean, 160))),
        Verdict::Err(e) => {
            acc.count(&format!("reader_fault_error_{}", classify_err(e)));
            None
        }
    };
    if let Some(p) = problem {
        acc.violation(Violation { sig: format!("reader fault {}->{}: {}", fmts::from_name(from), to.name(), ev::truncate(&crate::c02_mask(&p), 70)), case: case_json("reader", input, from, to, k, &sched.describe()), observed: p, expected: format!("Err containing '{mark}', output a prefix of the fault-free output") });
    }
}

fn classify_err(e: &str) -> &'static str {
    if e.starts_with(READ_MARK) {
        "bare_io_text"
    } else if e.contains("translation failed") {
        "mentions_translation_failed"
    } else {
        "wrapped"
    }
}

pub fn writer_fault(input: &[u8], from: Option<Fmt>, to: Fmt, k: usize, style: FaultStyle, reader: Option<&Sched>, clean: &[u8], acc: &mut Acc) {
    acc.evals += 1;
    acc.count("writer_fault_points");
    acc.count(&format!("writer_fault_style_{style:?}"));
    let w = MonWriter::new().with_fault(k, style);
    let wlog = w.log_handle();
    let v = match reader {
        None => guarded(|| xt::translate_slice(input, from.map(Fmt::xt), to.xt(), w)),
        Some(s) => guarded(|| xt::translate_reader(SchedReader::new(input, s.clone()), from.map(Fmt::xt), to.xt(), w)),
    };
    let log = wlog.borrow();
    if log.faults_returned == 0 {
        acc.count("writer_fault_not_reached");
        if !v.is_ok() || log.bytes != clean {
            acc.violation(Violation { sig: "run without injected write fault differs from the fault-free run".into(), case: case_json("writer", input, from, to, k, &format!("{style:?}")), observed: format!("{} [{}]", v.show(), preview(&log.bytes, 120)), expected: "the fault-free outcome".into() });
        }
        return;
    }
    let problem = match &v {
        Verdict::Ok => Some("returned Ok although the writer failed".to_string()),
        Verdict::Panic(p) => Some(format!("panicked: {p}")),
        Verdict::Err(_) if !is_prefix(&log.bytes, clean) => Some(format!("accepted bytes are not a prefix of the fault-free output: [{}] vs [{}]", preview(&log.bytes, 160), preview(clean, 160))),
        Verdict::Err(_) => None,
    };
    acc.max("max_writes_after_fault", log.writes_after_fault);
    if let Some(p) = problem {
        acc.violation(Violation { sig: format!("writer fault {}->{}: {}", fmts::from_name(from), to.name(), ev::truncate(&crate::c02_mask(&p), 70)), case: case_json("writer", input, from, to, k, &format!("{style:?}|{}", reader.map(|s| s.describe()).unwrap_or_else(|| "slice".into()))), observed: p, expected: "Err, accepted bytes a prefix of the fault-free output".into() });
    }
}

pub fn short_writes(input: &[u8], from: Option<Fmt>, to: Fmt, seed: u64, max: usize, clean: &[u8], acc: &mut Acc) {
    acc.evals += 1;
    acc.count("short_write_runs");
    let w = MonWriter::new().with_short(seed, max);
    let wlog = w.log_handle();
    let v = guarded(|| xt::translate_slice(input, from.map(Fmt::xt), to.xt(), w));
    let log = wlog.borrow();
    if !v.is_ok() || log.bytes != clean {
        acc.violation(Violation { sig: format!("short writes {}->{}", fmts::from_name(from), to.name()), case: case_json("short", input, from, to, max, &seed.to_string()), observed: format!("{} [{}]", v.show(), preview(&log.bytes, 160)), expected: format!("Ok and exactly the fault-free output [{}]", preview(clean, 160)) });
    }
}

/// Two calls on one Translator(to = TOML), the writer failing ONE write call of the first after k bytes
/// (hard or transient kind) and accepting again afterwards: whatever the second call does, the accepted
/// bytes stay a prefix of the fault-free output of the history (the first document; a second is refused).
pub fn toml_second_call_after_fault(seed: u64, i: usize, acc: &mut Acc) {
    use crate::run::{run_history, Call};
    let mut rng = Rng::derive(seed, 0xc12f, i as u64);
    let mut cl = Classes::default();
    let mut feats = Feats::default();
    let o = GenOpts { max_depth: 3, max_width: 3, ..GenOpts::toml() };
    let mut calls = vec![];
    for _ in 0..2 {
        let d = crate::gen::gen_doc(&mut rng, &o, &mut cl);
        let Some(d) = crate::gen::tomlify(&d) else { return };
        let src = ALL[rng.below(4)];
        let bytes = crate::spell::spell(src, &d, &mut rng, &mut feats, true);
        calls.push(Call { input: bytes, from: Some(src), mode: if rng.chance(1, 2) { Mode::Slice } else { Mode::Reader(Sched::Fixed(7)) } });
    }
    let (cv, clean) = run_history(&calls, Fmt::Toml, MonWriter::new(), false);
    if clean.bytes.is_empty() || !cv.first().map(|v| v.is_ok()).unwrap_or(false) {
        return;
    }
    let k = rng.below(clean.bytes.len());
    let kind = *rng.pick(&[std::io::ErrorKind::WouldBlock, std::io::ErrorKind::TimedOut, std::io::ErrorKind::Other, std::io::ErrorKind::BrokenPipe, std::io::ErrorKind::Interrupted]);
    acc.evals += 1;
    acc.count("toml_second_call_after_a_faulted_first_call");
    let (verdicts, wlog) = run_history(&calls, Fmt::Toml, MonWriter::new().with_fault(k, FaultStyle::TransientOnce(kind)), false);
    if verdicts.iter().any(|v| v.is_panic()) || !is_prefix(&wlog.bytes, &clean.bytes) {
        acc.violation(Violation { sig: format!("TOML output: after a write fault ({kind:?}) in the first call a second call appends to the partial document"), case: json!({"fault": "toml_second_call", "seed": seed, "index": i}), observed: format!("fault after {k} bytes; calls returned [{}]; accepted [{}]", verdicts.iter().map(|v| v.class()).collect::<Vec<_>>().join(", "), preview(&wlog.bytes, 200)), expected: format!("a prefix of the fault-free output [{}]", preview(&clean.bytes, 160)) });
    }
}

pub fn flush_fault(to: Fmt, acc: &mut Acc) {
    acc.evals += 1;
    acc.count("flush_fault_runs");
    let w = MonWriter::new().with_failing_flush();
    let mut tr = xt::Translator::new(w, to.xt());
    let _ = tr.translate_slice(b"{\"a\":1}", Some(xt::Format::Json));
    match tr.flush() {
        Err(e) if e.to_string().contains(FLUSH_MARK) => {}
        other => acc.violation(Violation { sig: format!("flush to={}", to.name()), case: json!({"fault": "flush", "to": to.name()}), observed: format!("{other:?}"), expected: "the writer's flush error".into() }),
    }
    let ok = MonWriter::new();
    let h = ok.log_handle();
    let mut tr = xt::Translator::new(ok, to.xt());
    if tr.flush().is_err() || h.borrow().flush_calls == 0 {
        acc.violation(Violation { sig: format!("flush not forwarded to={}", to.name()), case: json!({"fault": "flush-forward", "to": to.name()}), observed: format!("flush calls seen by the writer: {}", h.borrow().flush_calls), expected: "flush forwarded to the writer".into() });
    }
}

pub fn run(ctx: &Ctx) -> i32 {
    let n = ctx.size(900, 150000);
    let seed = ctx.seed;
    let acc = crate::par::run(n, 2, |i, acc| {
        let mut rng = Rng::derive(seed, 0xc12, i as u64);
        let mut cl = Classes::default();
        let mut feats = Feats::default();
        let f = ALL[i % 4];
        let n_docs = *rng.pick(&[1usize, 1, 2, 3]);
        let o = GenOpts { max_depth: 3, max_width: 3, ..GenOpts::common() };
        let (mut input, _) = valid_stream(f, n_docs, &mut rng, &mut feats, &mut cl, &o);
        if f == Fmt::Yaml && i % 3 == 0 {
            // the same YAML in UTF-16/32, made to contain characters outside the BMP
            // (surrogate pairs: a fault can fall between or inside the two units)
            if let Ok(t) = String::from_utf8(input.clone()) {
                let t = format!("{t}---\n- \"\u{1F600}a\u{10FFFF}\"\n- \u{1F9D1}\n");
                let enc = crate::c07::ENCS[(i / 12) % 4];
                input = enc.encode(&t, (i / 48) % 2 == 0);
                acc.count("inputs_utf16_32_with_astral_characters");
            }
        }
        if input.len() > 2048 && !(i % 50 == 0) {
            // large inputs: kept only as a stratified sample
            acc.count("large_input_skipped");
            return;
        }
        let to = ALL[(i / 4) % 4];
        for from in [Some(f), None] {
            let clean = run_slice(&input, from, to);
            if !clean.verdict.is_ok() {
                acc.count("fault_free_run_fails_skipped");
                continue;
            }
            acc.distinct(&(input.clone(), fmts::from_name(from), to.name()));
            acc.sample_every(4001, || json!({"input_preview": preview(&input, 120), "from": fmts::from_name(from), "to": to.name(), "bytes": input.len(), "output_bytes": clean.out.len()}));
            // reader faults at every offset (sampled for large inputs)
            let step = if input.len() > 2048 { input.len() / 64 } else { 1 };
            let scheds = [Sched::All, Sched::One, Sched::Random(rng.next(), 8)];
            let mut k = 0;
            while k <= input.len() {
                reader_fault(&input, from, to, k, &scheds[k % 3], &clean.out, acc);
                k += step;
            }
            reader_fault(&input, from, to, input.len(), &Sched::All, &clean.out, acc);
            // writer faults at every offset of the output
            let wstep = if clean.out.len() > 2048 { clean.out.len() / 64 } else { 1 };
            let mut k = 0;
            while k < clean.out.len() {
                let style = [FaultStyle::ShortThenFail, FaultStyle::RejectCrossing, FaultStyle::ZeroLen, FaultStyle::RejectCrossing, FaultStyle::ShortThenFail, FaultStyle::ZeroLen, FaultStyle::ShortThenFail][k % 7];
                let reader = if k % 3 == 0 { Some(&scheds[1]) } else { None };
                writer_fault(&input, from, to, k, style, reader, &clean.out, acc);
                k += wstep;
            }
            for m in [1usize, 2, 3, 7] {
                short_writes(&input, from, to, rng.next(), m, &clean.out, acc);
            }
        }
        if i < 8 {
            flush_fault(ALL[i % 4], acc);
        }
    });
    // outputs far larger than any buffer between the serializer and the writer (one heavy document of
    // thousands of entries and 64 KiB strings, to every target incl. TOML): writers that accept only part
    // of each call, and faults at sampled offsets
    let n_big = ctx.size(24, 600);
    let big = crate::par::run(n_big, 1, |i, acc| {
        let mut rng = Rng::derive(seed, 0xc12b, i as u64);
        let to = ALL[i % 4];
        let d = crate::gen::gen_heavy_doc(&mut rng);
        let d = if to == Fmt::Toml { match crate::gen::tomlify(&d) { Some(t) => t, None => return } } else { d };
        let mut feats = Feats::default();
        let src = [Fmt::Json, Fmt::Msgpack, Fmt::Yaml][(i / 4) % 3];
        let input = crate::spell::spell(src, &d, &mut rng, &mut feats, true);
        let clean = run_slice(&input, Some(src), to);
        if !clean.verdict.is_ok() {
            acc.count("fault_free_run_fails_skipped");
            return;
        }
        acc.count("large_output_cases");
        acc.max("largest_output_bytes", clean.out.len() as u64);
        acc.distinct(&(input.clone(), "big", to.name()));
        for m in [1000usize, 4096, 8192, 65536, 70000, 1 << 20] {
            short_writes(&input, Some(src), to, rng.next(), m, &clean.out, acc);
        }
        for j in 0..12 {
            let k = rng.below(clean.out.len().max(1));
            let style = [FaultStyle::ShortThenFail, FaultStyle::RejectCrossing, FaultStyle::ZeroLen][j % 3];
            writer_fault(&input, Some(src), to, k, style, if j % 2 == 0 { Some(&Sched::Fixed(8192)) } else { None }, &clean.out, acc);
        }
    });
    let mut acc = acc;
    acc.merge(big);
    // outputs that are EXACTLY 8 KiB, 64 KiB, 128 KiB, 1 MiB long (and one byte less or more), every target
    let mut exact = vec![];
    for to in ALL {
        for len in [8192usize, 65536, 131072, 1 << 20] {
            for d in [-1i64, 0, 1] {
                exact.push((to, (len as i64 + d) as usize));
            }
        }
    }
    let ex = crate::par::run(exact.len(), 1, |i, acc| {
        let (to, len) = exact[i];
        let Some(input) = crate::gen::exact_output_doc(to, len) else { return };
        let clean = run_slice(&input, Some(Fmt::Json), to);
        if !clean.verdict.is_ok() || clean.out.len() != len {
            return;
        }
        acc.count("outputs_of_an_exact_length");
        for m in [1usize << 30, 4096, 65536, 65535] {
            short_writes(&input, Some(Fmt::Json), to, len as u64, m, &clean.out, acc);
        }
        for k in [len - 1, len - 2, len / 2] {
            writer_fault(&input, Some(Fmt::Json), to, k, FaultStyle::ShortThenFail, None, &clean.out, acc);
        }
    });
    acc.merge(ex);
    // first documents larger than the 2 MiB that detection is willing to buffer for the TOML trial, the reader
    // failing beyond that point: the reader's error must still be what is reported
    let big_first: Vec<(Fmt, Vec<u8>)> = vec![
        (Fmt::Yaml, format!("k: \"{}\"\nn: 1\n", "0123456789 ".repeat(210_000)).into_bytes()),
        (Fmt::Yaml, format!("- [{}z]\n- 2\n", "abcdefgh, ".repeat(230_000)).into_bytes()),
        (Fmt::Json, format!("{{\"k\": \"{}\"}}\n{{\"n\": 1}}\n", "0123456789 ".repeat(210_000)).into_bytes()),
        (Fmt::Msgpack, { let mut b = vec![0x81, 0xa1, b'k', 0xdb, 0x00, 0x24, 0x00, 0x00]; b.extend(std::iter::repeat(b'x').take(0x240000)); b.push(0x01); b }),
    ];
    let bf = crate::par::run(big_first.len() * 4, 1, |i, acc| {
        let (f, input) = &big_first[i / 4];
        let from = if i % 2 == 0 { None } else { Some(*f) };
        let k = input.len() - [1usize, 5000, 100_000, 150_000][(i / 2) % 2 * 2 + i % 2];
        let clean = run_slice(input, from, Fmt::Json);
        if !clean.verdict.is_ok() {
            return;
        }
        acc.count("first_documents_above_2_mib");
        reader_fault(input, from, Fmt::Json, k, &Sched::Fixed(65536), &clean.out, acc);
    });
    acc.merge(bf);
    let n_second = ctx.size(3000, 100000);
    let second = crate::par::run(n_second, 16, |i, acc| toml_second_call_after_fault(seed, i, acc));
    acc.merge(second);
    let rule = format!("{} generated valid inputs (1-3 documents, each format in turn, every third YAML input re-encoded as UTF-16/32 with characters outside the BMP, <= 2 KiB plus a stratified sample above) x [explicit, detected] x rotating target, restricted to combinations whose fault-free run succeeds; for each: the reader fails and keeps failing after k bytes for EVERY k in 0..=len under rotating schedules [all, one, random], error kinds and error representations (custom payload, raw OS error, bare kind); the writer fails after accepting k bytes for EVERY k below the fault-free length in three styles (short accept then fail / reject the crossing write / accept nothing more: Ok(0)), from slice and reader input; 4 short-write patterns; {} heavy documents (thousands of entries, 64 KiB strings) to every target incl. TOML under 6 short-write patterns (at most 1000 .. 1 MiB bytes accepted per call) and 12 sampled writer faults; outputs of exactly 8 KiB / 64 KiB / 128 KiB / 1 MiB (and one byte less or more) to every target, whole and in pieces; first documents of 2.2-2.5 MB (YAML, JSON, MessagePack; named and detected) with the reader failing near the end, beyond the 2 MiB detection is willing to buffer; pairs of calls on one TOML translator whose first call meets one failing write (hard or transient kind): the second call may not append; flush faults; distinct non-trivial = distinct (input, from, to) combinations", n, n_big);
    ev::finish(
        Finish { ctx, level: "fault_enumeration", rule, assumptions: vec!["for YAML output one trailing '---' header after the last complete document is allowed (the writer emits it before pulling the next document)".into(), "writer-fault error text is judged in C11, not here".into()], extra: serde_json::Map::new(), exhaustive: false, min_distinct: 200, must_reach: vec![("reader_faults_delivered".into(), 10000), ("writer_fault_points".into(), 10000), ("short_write_runs".into(), 500), ("flush_fault_runs".into(), 4), ("inputs_utf16_32_with_astral_characters".into(), 20), ("writer_fault_style_ZeroLen".into(), 2000), ("large_output_cases".into(), 12), ("toml_second_call_after_a_faulted_first_call".into(), 1000), ("outputs_of_an_exact_length".into(), 30), ("first_documents_above_2_mib".into(), 12)] },
        acc,
    )
}

pub fn replay(v: &Value) -> i32 {
    let c = &v["case"];
    let kind = c["fault"].as_str().unwrap_or("");
    if kind == "toml_second_call" {
        let mut acc = Acc::default();
        toml_second_call_after_fault(c["seed"].as_u64().unwrap_or(0), c["index"].as_u64().unwrap_or(0) as usize, &mut acc);
        return if acc.vio_count > 0 { println!("VIOLATION property=C12 replay=<this file> (reproduced): {}", acc.violations[0].observed); 1 } else { println!("not reproduced"); 0 };
    }
    if kind.starts_with("flush") {
        let mut acc = Acc::default();
        for to in ALL {
            flush_fault(to, &mut acc);
        }
        return if acc.vio_count > 0 { println!("VIOLATION property=C12 replay=<this file> (reproduced)"); 1 } else { println!("not reproduced"); 0 };
    }
    let (Some(input), Some(from), Some(to), Some(k)) = (c["input_hex"].as_str().and_then(unhex), c["from"].as_str().and_then(fmts::parse_from), c["to"].as_str().and_then(Fmt::parse), c["k"].as_u64()) else {
        println!("bad replay case");
        return 2;
    };
    let clean = run_slice(&input, from, to);
    let detail = c["detail"].as_str().unwrap_or("");
    let mut acc = Acc::default();
    match kind {
        "reader" => reader_fault(&input, from, to, k as usize, &Sched::parse(detail).unwrap_or(Sched::All), &clean.out, &mut acc),
        "writer" => {
            let style = if detail.starts_with("Reject") { FaultStyle::RejectCrossing } else if detail.starts_with("ZeroLen") { FaultStyle::ZeroLen } else { FaultStyle::ShortThenFail };
            let sched = detail.split('|').nth(1).and_then(Sched::parse);
            writer_fault(&input, from, to, k as usize, style, sched.as_ref(), &clean.out, &mut acc)
        }
        _ => short_writes(&input, from, to, detail.parse().unwrap_or(0), k as usize, &clean.out, &mut acc),
    }
    println!("input [{}] from={} to={} fault={} k={} ({})", preview(&input, 300), fmts::from_name(from), to.name(), kind, k, detail);
    if acc.vio_count > 0 {
        println!("VIOLATION property=C12 replay=<this file> (reproduced): {}", acc.violations[0].observed);
        1
    } else {
        println!("not reproduced");
        0
    }
}

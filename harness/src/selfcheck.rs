//! Start-up self-check of the harness's own spellers and readers: for generated
//! values, speller -> independent reader must be the identity. A failure here
//! is a harness bug (exit 2), never a violation.

use crate::fmts::{Fmt, ALL};
use crate::gen::{gen_doc, tomlify, Classes, GenOpts};
use crate::model::{toml_match, Val};
use crate::rng::Rng;
use crate::spell::{spell, Feats};

pub fn read_back(f: Fmt, bytes: &[u8]) -> Result<Val, String> {
    match f {
        Fmt::Json => crate::read::json::read_one(bytes),
        Fmt::Msgpack => crate::read::msgpack::read_all(bytes).and_then(|mut v| if v.len() == 1 { Ok(v.remove(0)) } else { Err(format!("{} values", v.len())) }),
        Fmt::Toml => crate::read::toml::read(bytes),
        Fmt::Yaml => crate::read::yaml::read_docs(bytes).and_then(|mut v| if v.len() == 1 { Ok(v.remove(0).val) } else { Err(format!("{} documents", v.len())) }),
    }
}

/// Returns the number of (value, format) round trips checked, or a description
/// of the first disagreement.
pub fn run(seed: u64, n: usize) -> Result<u64, String> {
    let mut checked = 0;
    for i in 0..n {
        let mut rng = Rng::derive(seed, 0x5e1f, i as u64);
        let mut cl = Classes::default();
        let doc = gen_doc(&mut rng, &GenOpts::common(), &mut cl);
        for f in ALL {
            let d = if f == Fmt::Toml {
                match tomlify(&doc) {
                    Some(d) => d,
                    None => continue,
                }
            } else {
                doc.clone()
            };
            for plain in [true, false] {
                let mut feats = Feats::default();
                let bytes = spell(f, &d, &mut rng, &mut feats, plain);
                let back = read_back(f, &bytes).map_err(|e| format!("self-check: {} speller output unreadable: {e}\nvalue: {}\ntext: {}", f.name(), d.show(), String::from_utf8_lossy(&bytes)))?;
                let same = if f == Fmt::Toml { toml_match(&d, &back) && toml_match(&back, &d) && back == d } else { back == d };
                if !same {
                    return Err(format!("self-check: {} speller/reader disagree\nvalue: {}\nread:  {}\ntext: {}", f.name(), d.show(), back.show(), String::from_utf8_lossy(&bytes)));
                }
                checked += 1;
            }
        }
    }
    Ok(checked)
}

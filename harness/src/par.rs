//! Minimal data-parallel driver: N indexed cases over T threads with a
//! per-thread accumulator, merged at the end. Thread stacks are large so that
//! deep documents never make the *harness* overflow.

use std::sync::atomic::{AtomicUsize, Ordering};

use crate::ev::Acc;

pub fn threads() -> usize {
    std::env::var("XTV_THREADS").ok().and_then(|s| s.parse().ok()).unwrap_or_else(|| std::thread::available_parallelism().map(|n| n.get()).unwrap_or(4)).max(1)
}

pub const STACK: usize = 512 << 20;

/// Runs `work(i, &mut acc)` for i in 0..n on all cores; `chunk` indices are
/// claimed at a time.
pub fn run<F>(n: usize, chunk: usize, work: F) -> Acc
where
    F: Fn(usize, &mut Acc) + Sync,
{
    let next = AtomicUsize::new(0);
    let t = threads().min(n.max(1));
    let chunk = chunk.max(1);
    let mut total = Acc::default();
    std::thread::scope(|s| {
        let mut hs = vec![];
        for _ in 0..t {
            let h = std::thread::Builder::new()
                .stack_size(STACK)
                .spawn_scoped(s, || {
                    xt::verif::reset_hits();
                    let mut acc = Acc::default();
                    loop {
                        let start = next.fetch_add(chunk, Ordering::Relaxed);
                        if start >= n {
                            break;
                        }
                        for i in start..(start + chunk).min(n) {
                            work(i, &mut acc);
                        }
                    }
                    acc.absorb_hits();
                    acc
                })
                .expect("spawn");
            hs.push(h);
        }
        for h in hs {
            match h.join() {
                Ok(a) => total.merge(a),
                Err(_) => total.harness_errors.push("worker thread panicked outside a guarded case".into()),
            }
        }
    });
    total
}

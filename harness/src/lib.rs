//! xtv: runtime monitors for ahamlinman/xt. See /verif/DESIGN.md.
#![allow(clippy::all)]

pub mod rng;
pub mod model;
pub mod fmts;
pub mod run;
pub mod mon;
pub mod par;
pub mod ev;
pub mod spell;
pub mod read;
pub mod gen;
pub mod corpus;
pub mod known;
pub mod procmon;
pub mod climodel;
pub mod alloc;
pub mod selfcheck;

pub mod c01;
pub mod c02;
pub mod c03;
pub mod c04;
pub mod c05;
pub mod c06;
pub mod c07;
pub mod c08;
pub mod c09;
pub mod c10;
pub mod c11;
pub mod c12;
pub mod c13;
pub mod c14;
pub mod c15;
pub mod c16;
pub mod c17;
pub mod c18;

/// Masks digit runs so that messages differing only in positions compare equal.
pub fn c02_mask(s: &str) -> String {
    let mut o = String::new();
    let mut in_num = false;
    for c in s.chars() {
        if c.is_ascii_digit() {
            if !in_num {
                o.push('#');
            }
            in_num = true;
        } else {
            in_num = false;
            o.push(c);
        }
    }
    o
}

/// Whether source format `f` can spell value `v` (used by C11's planted constructs).
pub fn c11_can_spell(f: fmts::Fmt, v: &model::Val) -> bool {
    use fmts::Fmt;
    use model::Val;
    match f {
        Fmt::Json => v.is_common(),
        Fmt::Yaml => !v.any(|x| matches!(x, Val::Bytes(_) | Val::F32(_) | Val::Ext(..) | Val::Datetime(_))),
        Fmt::Msgpack => !v.any(|x| matches!(x, Val::Datetime(_)) || matches!(x, Val::Int(i) if *i >= (1i128 << 64) || *i < -(1i128 << 63))),
        Fmt::Toml => v.toml_ok(),
    }
}

fn main() {
    std::process::exit(xtv::c17::san_main());
}

//! C08 — TOML output is nothing or exactly one valid document.
//!
//! Histories of 1-3 translate calls (0-3 documents each, all four source
//! formats, slice and reader, short-write writers) on one Translator(to=TOML).
//! The writer's byte log and the Result of every call are judged against the
//! invariant and the four mandated refusals.

use serde_json::{json, Value};

use crate::corpus::{join_stream, yaml_stream};
use crate::ev::{self, Acc, Ctx, Finish, Violation};
use crate::fmts::{self, Fmt};
use crate::gen::{gen_doc, gen_scalar, Classes, GenOpts};
use crate::known;
use crate::model::{hex, preview, toml_match, unhex, Val};
use crate::mon::{MonWriter, Sched};
use crate::rng::Rng;
use crate::run::{run_history, Call, Mode, Verdict};
use crate::spell::{spell, Feats};

/// Why a document must be refused by TOML output (the mandated refusals), or
/// None if no mandated refusal applies.
pub fn mandated_refusal(d: &Val) -> Option<&'static str> {
    if !d.is_map() {
        return Some("non-table root");
    }
    // a null in a value position (array element or map value); a null *key* is a
    // non-string key, for which either outcome is allowed
    fn null_value(v: &Val) -> bool {
        match v {
            Val::Null => true,
            Val::Seq(xs) => xs.iter().any(null_value),
            Val::Map(m) => m.iter().any(|(k, x)| null_value(x) || (k.is_collection() && null_value(k))),
            _ => false,
        }
    }
    if null_value(d) {
        return Some("null");
    }
    if d.any(|v| matches!(v, Val::Int(i) if *i > i64::MAX as i128 || *i < i64::MIN as i128)) {
        return Some("integer outside i64");
    }
    // TOML has no binary type: whatever xt wrote for it could not read back as the input value
    if d.any(|v| matches!(v, Val::Bytes(_))) {
        return Some("binary data (no TOML document reads back as it)");
    }
    None
}

fn without_datetimes(v: &Val) -> Val {
    match v {
        Val::Datetime(d) => Val::Str(d.clone()),
        Val::Seq(x) => Val::Seq(x.iter().map(without_datetimes).collect()),
        Val::Map(m) => Val::Map(m.iter().map(|(k, v)| (k.clone(), without_datetimes(v))).collect()),
        o => o.clone(),
    }
}

/// Documents for which either outcome is allowed (non-string keys, float32, ext, non-finite floats).
pub fn free_outcome(d: &Val) -> bool {
    d.any(|v| matches!(v, Val::F32(_) | Val::Ext(..))) || d.any(|v| matches!(v, Val::Map(m) if m.iter().any(|(k, _)| !matches!(k, Val::Str(_))))) || d.any(|v| matches!(v, Val::Float(b) if !f64::from_bits(*b).is_finite()))
}

fn plant(v: &mut Val, what: &Val, rng: &mut Rng, as_key: bool) {
    match v {
        Val::Seq(xs) => {
            if xs.is_empty() || rng.chance(1, 3) {
                let at = rng.below(xs.len() + 1);
                xs.insert(at, what.clone());
            } else {
                let i = rng.below(xs.len());
                plant(&mut xs[i], what, rng, as_key);
            }
        }
        Val::Map(m) => {
            if m.is_empty() || rng.chance(1, 3) {
                let at = rng.below(m.len() + 1);
                if as_key {
                    m.insert(at, (what.clone(), Val::Int(1)));
                } else {
                    m.insert(at, (Val::Str(format!("planted{}", m.len())), what.clone()));
                }
            } else {
                let i = rng.below(m.len());
                plant(&mut m[i].1, what, rng, as_key);
            }
        }
        other => {
            if !as_key {
                *other = what.clone()
            }
        }
    }
}

#[derive(Clone, Debug)]
pub struct DocSpec {
    pub val: Val,
    pub kind: &'static str,
}

pub fn gen_docspec(rng: &mut Rng, cl: &mut Classes) -> DocSpec {
    let o = GenOpts { max_depth: 4, max_width: 4, ..GenOpts::toml() };
    match rng.below(12) {
        0 => DocSpec { val: gen_scalar(rng, &GenOpts::common(), cl), kind: "scalar_root" },
        1 => DocSpec { val: Val::Seq((0..rng.below(3)).map(|_| gen_doc(rng, &o, cl)).collect()), kind: "array_root" },
        2 => {
            let mut d = gen_doc(rng, &o, cl);
            plant(&mut d, &Val::Null, rng, false);
            DocSpec { val: d, kind: "planted_null" }
        }
        3 => {
            let mut d = gen_doc(rng, &o, cl);
            let big = if rng.chance(1, 2) { (i64::MAX as i128) + 1 + rng.below(5) as i128 } else { u64::MAX as i128 - rng.below(5) as i128 };
            plant(&mut d, &Val::Int(big), rng, false);
            DocSpec { val: d, kind: "planted_oversized_int" }
        }
        4 => {
            let mut d = gen_doc(rng, &o, cl);
            let key = match rng.below(4) {
                0 => Val::Int(rng.below(100) as i128),
                1 => Val::Bool(true),
                2 => Val::Null,
                _ => Val::Seq(vec![Val::Int(1)]),
            };
            plant(&mut d, &key, rng, true);
            DocSpec { val: d, kind: "planted_non_string_key" }
        }
        5 => {
            let mut d = gen_doc(rng, &o, cl);
            let n = rng.below(5);
            plant(&mut d, &Val::Bytes(rng.bytes(n)), rng, false);
            DocSpec { val: d, kind: "planted_binary" }
        }
        6 => {
            // TOML's own date-time values (only a TOML source can spell them): representable, must read back
            let mut d = gen_doc(rng, &o, cl);
            let dt = *rng.pick(&["1979-05-27T07:32:00Z", "1979-05-27T00:32:00-07:00", "1979-05-27T07:32:00.999999", "1979-05-27", "07:32:00"]);
            plant(&mut d, &Val::Datetime(dt.to_string()), rng, false);
            DocSpec { val: d, kind: "planted_datetime" }
        }
        _ => DocSpec { val: gen_doc(rng, &o, cl), kind: "representable" },
    }
}

fn can_spell(f: Fmt, v: &Val) -> bool {
    match f {
        Fmt::Json => v.is_common(),
        Fmt::Yaml => !v.any(|x| matches!(x, Val::Bytes(_) | Val::F32(_) | Val::Ext(..) | Val::Datetime(_))),
        Fmt::Msgpack => !v.any(|x| matches!(x, Val::Datetime(_))),
        Fmt::Toml => without_datetimes(v).toml_ok(),
    }
}

pub struct History {
    pub calls: Vec<Call>,
    /// per call: the documents it holds
    pub docs: Vec<Vec<DocSpec>>,
}

pub fn gen_history(seed: u64, idx: usize, cl: &mut Classes) -> History {
    let mut rng = Rng::derive(seed, 0xc08, idx as u64);
    let n_calls = rng.range(1, 3);
    let mut calls = vec![];
    let mut docs = vec![];
    let mut feats = Feats::default();
    for _ in 0..n_calls {
        let k = *rng.pick(&[0usize, 1, 1, 1, 1, 2, 3]);
        let mut ds: Vec<DocSpec> = (0..k).map(|_| gen_docspec(&mut rng, cl)).collect();
        if k != 1 {
            // date-times need a TOML source, which holds exactly one document
            for d in ds.iter_mut() {
                if d.kind == "planted_datetime" {
                    *d = DocSpec { val: without_datetimes(&d.val), kind: "representable" };
                }
            }
        }
        // pick a source format that can spell every document of the call
        let mut cands: Vec<Fmt> = [Fmt::Json, Fmt::Msgpack, Fmt::Yaml].into_iter().filter(|f| ds.iter().all(|d| can_spell(*f, &d.val))).collect();
        if k == 1 && can_spell(Fmt::Toml, &ds[0].val) {
            cands.push(Fmt::Toml);
        }
        if cands.is_empty() {
            cands.push(Fmt::Msgpack);
        }
        let src = *rng.pick(&cands);
        let plain = rng.chance(1, 3);
        let bytes = match src {
            Fmt::Yaml if !ds.is_empty() => yaml_stream(&ds.iter().map(|d| d.val.clone()).collect::<Vec<_>>(), &mut rng, &mut feats, plain),
            _ => {
                let sp: Vec<Vec<u8>> = ds.iter().map(|d| spell(src, &d.val, &mut rng, &mut feats, plain)).collect();
                join_stream(src, &sp, &mut rng, &mut feats)
            }
        };
        // an empty YAML stream through a slice is a recorded C02 finding; keep it out of this check
        let mode = if ds.is_empty() && src == Fmt::Yaml {
            Mode::Reader(Sched::All)
        } else {
            match rng.below(4) {
                0 | 1 => Mode::Slice,
                2 => Mode::Reader(Sched::One),
                _ => Mode::Reader(Sched::Random(rng.next(), 32)),
            }
        };
        let from = if rng.chance(1, 4) && xt::verif::detect_slice(&bytes).ok().flatten().map(Fmt::from_xt) == Some(src) { None } else { Some(src) };
        calls.push(Call { input: bytes, from, mode });
        docs.push(std::mem::take(&mut ds));
    }
    History { calls, docs }
}

pub fn judge(calls: &[Call], docs: &[Vec<DocSpec>], short_seed: Option<u64>, acc: &mut Acc) {
    acc.evals += 1;
    let w = match short_seed {
        Some(s) => MonWriter::new().with_short(s, 7),
        None => MonWriter::new(),
    };
    let (verdicts, wlog) = run_history(calls, Fmt::Toml, w, false);
    let case = || {
        json!({"short_write_seed": short_seed, "calls": calls.iter().zip(docs).map(|(c, d)| json!({"input_hex": hex(&c.input), "input_preview": preview(&c.input, 160), "from": fmts::from_name(c.from), "mode": c.mode.describe(), "document_kinds": d.iter().map(|x| x.kind).collect::<Vec<_>>(), "documents": d.iter().map(|x| ev::truncate(&x.val.show(), 200)).collect::<Vec<_>>()})).collect::<Vec<_>>()})
    };
    let mut vio = |sig: String, observed: String, expected: String, acc: &mut Acc| {
        acc.violation(Violation { sig, case: case(), observed, expected });
    };
    if let Some(p) = verdicts.iter().position(|v| v.is_panic()) {
        vio("panic".into(), format!("call {p}: {}", verdicts[p].show()), "no panic".into(), acc);
        return;
    }
    // walk the history with the reference rules
    let mut written: Option<&Val> = None; // the accepted document
    let mut any_attempt = false; // a document has been offered before
    for (ci, (call_docs, v)) in docs.iter().zip(verdicts.iter()).enumerate() {
        // expected verdict of this call
        let mut expect_err: Option<String> = None; // Some(reason) = must fail
        let mut free = false; // either outcome allowed
        for d in call_docs {
            if written.is_some() {
                expect_err = Some("a document was already written; a second document / input must be refused".into());
                break;
            }
            if any_attempt {
                // an earlier document was offered and refused: this one is "a second document or second input"
                // all the same, and must be refused too
                expect_err = Some("an earlier document was offered to this output (and refused); a second document / input must be refused".into());
                acc.count("later_document_after_a_refused_one");
                break;
            }
            any_attempt = true;
            if let Some(r) = mandated_refusal(&d.val) {
                expect_err = Some(format!("{r} must be refused"));
                break;
            }
            if free_outcome(&d.val) {
                free = true;
                break;
            }
            written = Some(&d.val);
        }
        acc.count(&format!("call_outcome_{}", v.class()));
        match (&expect_err, v) {
            (Some(why), Verdict::Ok) if !free => {
                vio(format!("accepted what must be refused: {}", why.split(';').next().unwrap_or("")), format!("call {ci} returned Ok; output so far [{}]", preview(&wlog.bytes, 200)), why.clone(), acc);
                return;
            }
            (None, Verdict::Err(_)) if !free && known::read_ahead_failure("C08", calls[ci].from.is_none(), !matches!(calls[ci].mode, Mode::Slice), &calls[ci].input) => {
                acc.known("C09-yaml-trial-depends-on-read-ahead", || format!("call {ci} ({}) input [{}]: {}", calls[ci].mode.describe(), preview(&calls[ci].input, 50), v.show()));
                return;
            }
            (None, Verdict::Err(e)) if !free => {
                vio(format!("refused a representable document: {}", crate::c02_mask(&ev::truncate(e, 60))), format!("call {ci} returned Err({e})"), "Ok: every document of this call is representable and nothing was written before".into(), acc);
                return;
            }
            _ => {}
        }
        if free {
            // stop interpreting the rest of the history call by call; the byte invariant below still applies
            written = None;
            acc.count("histories_with_free_outcome");
            let bytes = &wlog.bytes;
            if !bytes.is_empty() {
                if let Err(e) = crate::read::toml::read(bytes) {
                    vio("output is not one valid TOML document".into(), format!("{e}; output [{}]", preview(bytes, 300)), "nothing or exactly one valid TOML document".into(), acc);
                }
            }
            return;
        }
    }
    // byte invariant
    let bytes = &wlog.bytes;
    match written {
        None => {
            if !bytes.is_empty() {
                vio("bytes written although no document was accepted".into(), format!("output [{}]", preview(bytes, 300)), "no output".into(), acc);
            } else {
                acc.count("histories_nothing_written");
            }
        }
        Some(d) => {
            if bytes.is_empty() && *d == Val::Map(vec![]) {
                acc.count("histories_one_document_written");
                return;
            }
            match crate::read::toml::read(bytes) {
                Err(e) => vio("output is not one valid TOML document".into(), format!("{e}; output [{}]", preview(bytes, 300)), "exactly one valid TOML document".into(), acc),
                Ok(got) => {
                    if toml_match(d, &got) {
                        acc.count("histories_one_document_written");
                    } else {
                        vio("output does not read back as the accepted document".into(), format!("{}; output [{}]", crate::model::toml_diff(d, &got, "$").unwrap_or_default(), preview(bytes, 300)), "the accepted document (modulo TOML reordering)".into(), acc);
                    }
                }
            }
        }
    }
}

/// The history once more, to a writer that fails ONE write call with a transient kind of error after k
/// bytes and accepts everything again afterwards. Whatever xt makes of that error, the bytes it writes
/// must stay a prefix of what the same history writes to a faultless writer (nothing, or the one
/// document): a later document or input may not be appended to a partly written one.
pub fn judge_transient(calls: &[Call], seed: u64, acc: &mut Acc) {
    let (_, clean) = run_history(calls, Fmt::Toml, MonWriter::new(), false);
    if clean.bytes.is_empty() {
        return;
    }
    let mut rng = Rng::new(seed);
    let k = rng.below(clean.bytes.len() + 1);
    let kind = *rng.pick(&[std::io::ErrorKind::WouldBlock, std::io::ErrorKind::Interrupted, std::io::ErrorKind::TimedOut, std::io::ErrorKind::Other, std::io::ErrorKind::WriteZero]);
    acc.evals += 1;
    acc.count("histories_with_a_transient_write_error");
    acc.count(&format!("transient_write_error_{kind:?}"));
    let (verdicts, wlog) = run_history(calls, Fmt::Toml, MonWriter::new().with_fault(k, crate::mon::FaultStyle::TransientOnce(kind)), false);
    let case = || json!({"transient_write_error": format!("{kind:?}"), "k": k, "seed": seed, "calls": calls.iter().map(|c| json!({"input_hex": hex(&c.input), "input_preview": preview(&c.input, 160), "from": fmts::from_name(c.from), "mode": c.mode.describe()})).collect::<Vec<_>>()});
    if let Some(p) = verdicts.iter().position(|v| v.is_panic()) {
        acc.violation(Violation { sig: "panic".into(), case: case(), observed: format!("call {p}: {}", verdicts[p].show()), expected: "no panic".into() });
        return;
    }
    if !clean.bytes.starts_with(&wlog.bytes) {
        acc.violation(Violation { sig: format!("after a transient write error ({kind:?}) the output is not a prefix of the one document"), case: case(), observed: format!("one write call failed after {k} bytes; calls returned [{}]; output [{}]", verdicts.iter().map(|v| v.class()).collect::<Vec<_>>().join(", "), preview(&wlog.bytes, 300)), expected: format!("a prefix of [{}]", preview(&clean.bytes, 200)) });
    } else if wlog.bytes.len() == clean.bytes.len() {
        acc.count("transient_write_error_survived_document_complete");
    } else {
        acc.count("transient_write_error_left_a_prefix");
    }
}

/// The same invariant at the command line: `xt -t toml` over 1-3 inputs
/// (files and stdin). Everything on stdout must be nothing or exactly one valid
/// TOML document; a second input is refused with status 1.
pub fn cli_case(seed: u64, idx: usize, acc: &mut Acc) {
    use crate::climodel::{self, PathKind};
    use crate::procmon::{self, Run, Scratch, Status, StdinKind, StdoutKind};
    let mut rng = Rng::derive(seed, 0xc08c, idx as u64);
    let mut cl = Classes::default();
    let mut feats = Feats::default();
    let sc = Scratch::new();
    let mut files = std::collections::BTreeMap::new();
    let mut paths: Vec<String> = vec![];
    let mut stdin: Vec<u8> = vec![];
    let n = *rng.pick(&[1usize, 2, 2, 2, 3]);
    for i in 0..n {
        let d = gen_docspec(&mut rng, &mut cl);
        let src = *rng.pick(&[Fmt::Json, Fmt::Msgpack, Fmt::Yaml]);
        if !can_spell(src, &d.val) {
            continue;
        }
        let bytes = spell(src, &d.val, &mut rng, &mut feats, true);
        if i == 1 && rng.chance(1, 4) {
            stdin = bytes;
            paths.push("-".into());
            continue;
        }
        let name = format!("in{i}.{}", src.name());
        sc.file(&name, &bytes);
        files.insert(name.clone(), PathKind::Regular(bytes));
        paths.push(name);
    }
    if paths.is_empty() {
        return;
    }
    let mut argv: Vec<String> = vec!["-t".into(), "toml".into()];
    argv.extend(paths.iter().cloned());
    let exp = climodel::emulate(None, Fmt::Toml, &paths, &files, &stdin, &StdoutKind::Pipe);
    let out = procmon::run(Run { bin: &procmon::release_bin(), argv: argv.clone(), cwd: sc.path(), stdin: StdinKind::Bytes(stdin.clone()), stdout: StdoutKind::Pipe, wall_secs: 60, cpu_secs: 20 });
    acc.evals += 1;
    acc.count("cli_toml_invocations");
    acc.count(&format!("cli_inputs_{}", paths.len()));
    if matches!(out.status, Status::Timeout | Status::SpawnError(_)) {
        acc.inconclusive += 1;
        return;
    }
    let case = || json!({"part": "cli", "seed": seed, "index": idx});
    if let Err(e) = climodel::judge_run(&out, &exp) {
        acc.violation(Violation { sig: format!("CLI -t toml: {}", ev::truncate(&crate::c02_mask(&e), 80)), case: case(), observed: format!("{e}; argv {:?}; status {}, stdout [{}], stderr [{}]", argv, out.status.show(), preview(&out.stdout, 160), preview(&out.stderr, 160)), expected: format!("exit {} ({})", exp.exit, exp.why) });
        return;
    }
    // whatever was printed is nothing or exactly one valid TOML document
    if !out.stdout.is_empty() {
        if let Err(e) = crate::read::toml::read(&out.stdout) {
            acc.violation(Violation { sig: "CLI -t toml: stdout is not one valid TOML document".into(), case: case(), observed: format!("{e}; stdout [{}]", preview(&out.stdout, 300)), expected: "nothing or exactly one valid TOML document".into() });
        }
    }
    if paths.len() >= 2 && exp.stdout_floor.len() > 0 && out.status == Status::Exit(1) {
        acc.count("cli_second_input_refused");
    }
}

pub fn run(ctx: &Ctx) -> i32 {
    let n = ctx.size(40000, 5000000);
    let seed = ctx.seed;
    let acc = crate::par::run(n, 16, |i, acc| {
        let mut cl = Classes::default();
        let h = gen_history(seed, i, &mut cl);
        cl.add_to(acc);
        for ds in &h.docs {
            acc.count(&format!("call_docs_{}", ds.len()));
            for d in ds {
                acc.count(&format!("doc_kind_{}", d.kind));
            }
        }
        acc.count(&format!("n_calls_{}", h.calls.len()));
        for c in &h.calls {
            acc.count(&format!("call_from_{}", fmts::from_name(c.from)));
        }
        acc.distinct(&h.calls.iter().map(|c| c.input.clone()).collect::<Vec<_>>());
        acc.sample_every(2999, || json!({"calls": h.calls.iter().zip(&h.docs).map(|(c, d)| json!({"from": fmts::from_name(c.from), "mode": c.mode.describe(), "kinds": d.iter().map(|x| x.kind).collect::<Vec<_>>(), "input_preview": preview(&c.input, 100)})).collect::<Vec<_>>()}));
        let short = if i % 3 == 0 { Some(seed ^ i as u64) } else { None };
        judge(&h.calls, &h.docs, short, acc);
        if i % 4 == 1 {
            judge_transient(&h.calls, seed ^ (i as u64).wrapping_mul(0x9e37_79b9), acc);
        }
    });
    let mut acc = acc;
    // documents whose TOML rendering is EXACTLY a power of two long, one byte less, one byte more (anything
    // that hands the document to the writer in pieces has its boundary cases here)
    let mut exact = vec![];
    for p in [12u32, 13, 14, 15, 16, 17, 18, 20] {
        for d in [-1i64, 0, 1] {
            exact.push(((1i64 << p) + d) as usize);
        }
    }
    exact.extend([3 * 65536, 5 * 65536, 65536 + 4096]);
    let ex_acc = crate::par::run(exact.len(), 1, |i, acc| {
        let len = exact[i];
        let Some(j) = crate::gen::exact_output_doc(Fmt::Toml, len) else {
            acc.count("exact_length_document_not_constructible");
            return;
        };
        let want = match crate::read::json::read_many(&j) { Ok(v) if v.len() == 1 => v[0].0.clone(), _ => return };
        for (mode, short) in [(Mode::Slice, None), (Mode::Reader(Sched::All), None), (Mode::Slice, Some(4096usize)), (Mode::Reader(Sched::Fixed(8192)), Some(70000))] {
            acc.evals += 1;
            acc.count("documents_with_an_exact_output_length");
            let w = match short { Some(m) => MonWriter::new().with_short(len as u64, m), None => MonWriter::new() };
            let (verdicts, wlog) = run_history(&[Call { input: j.clone(), from: Some(Fmt::Json), mode: mode.clone() }], Fmt::Toml, w, false);
            let ok = verdicts[0].is_ok() && wlog.bytes.len() == len && crate::read::toml::read(&wlog.bytes).map(|got| toml_match(&want, &got)).unwrap_or(false);
            if !ok {
                acc.violation(Violation { sig: format!("a document whose TOML rendering is exactly {} bytes is not written in full", if len % 65536 == 0 { "a multiple of 65536".to_string() } else { len.to_string() }), case: json!({"exact_output_length": len, "mode": mode.describe(), "short_writes": short}), observed: format!("{}; {} bytes written; reads back: {}", verdicts[0].show(), wlog.bytes.len(), crate::read::toml::read(&wlog.bytes).map(|g| toml_match(&want, &g).to_string()).unwrap_or_else(|e| e)), expected: format!("Ok, {len} bytes that read back as the document") });
                return;
            }
        }
    });
    acc.merge(ex_acc);
    let n_cli = ctx.size(400, 8000);
    let cli = crate::par::run(n_cli, 4, |i, acc| cli_case(seed, i, acc));
    acc.merge(cli);
    let rule = format!("{} histories of 1-3 translate calls on one Translator(to=TOML), 0-3 documents per call, documents: representable tables, every non-table root type, a null / oversized integer / non-string key / binary planted at a random path of a generated tree, keys from the hostile string pools (all quoting styles), arrays of tables; sources JSON/MessagePack/YAML/TOML, slice and reader, explicit and detected, every third history through a short-write writer (1-7 bytes per call), every fourth once more to a writer that fails ONE write call after k bytes with a transient error kind (WouldBlock, Interrupted, TimedOut, Other, WriteZero) and then accepts again; documents whose TOML rendering is exactly 2^12..2^20 bytes (and one less, one more, and other multiples of 64 KiB) to plain and short-write writers; plus {} command-line invocations `xt -t toml` over 1-3 inputs (files and stdin) judged by the CLI reference model and the TOML reader; distinct non-trivial = distinct input sequences", n, n_cli);
    ev::finish(
        Finish { ctx, level: "exploration", rule, assumptions: vec!["after a first document of a kind that may be accepted or refused (non-string keys, non-finite floats, float32) the rest of the history is judged by the byte invariant only".into(), "non-string keys, binary and non-finite floats may be accepted or refused".into()], extra: serde_json::Map::new(), exhaustive: false, min_distinct: 1000, must_reach: vec![("cli_second_input_refused".into(), 20), ("TOML_SECOND_USE_REFUSED".into(), 100), ("TOML_NON_TABLE_ROOT_REFUSED".into(), 100), ("histories_one_document_written".into(), 100), ("doc_kind_planted_null".into(), 100), ("doc_kind_planted_oversized_int".into(), 100), ("histories_with_a_transient_write_error".into(), 1000), ("documents_with_an_exact_output_length".into(), 80), ("transient_write_error_left_a_prefix".into(), 100)] },
        acc,
    )
}

pub fn replay(v: &Value) -> i32 {
    let c = &v["case"];
    if c["part"].as_str() == Some("cli") {
        let mut acc = Acc::default();
        cli_case(c["seed"].as_u64().unwrap_or(0), c["index"].as_u64().unwrap_or(0) as usize, &mut acc);
        return if acc.vio_count > 0 {
            println!("VIOLATION property=C08 replay=<this file> (reproduced): {}", acc.violations[0].observed);
            1
        } else {
            println!("not reproduced");
            0
        };
    }
    let Some(arr) = c["calls"].as_array() else {
        println!("bad replay case");
        return 2;
    };
    if c["transient_write_error"].is_string() {
        let mut calls = vec![];
        for x in arr {
            let (Some(input), Some(from), Some(mode)) = (x["input_hex"].as_str().and_then(unhex), x["from"].as_str().and_then(fmts::parse_from), x["mode"].as_str().and_then(Mode::parse)) else {
                println!("bad replay case");
                return 2;
            };
            calls.push(Call { input, from, mode });
        }
        let mut acc = Acc::default();
        judge_transient(&calls, c["seed"].as_u64().unwrap_or(0), &mut acc);
        return if acc.vio_count > 0 {
            println!("VIOLATION property=C08 replay=<this file> (reproduced): {}", acc.violations[0].observed);
            1
        } else {
            println!("not reproduced");
            0
        };
    }
    let mut calls = vec![];
    let mut docs: Vec<Vec<DocSpec>> = vec![];
    for x in arr {
        let (Some(input), Some(from), Some(mode)) = (x["input_hex"].as_str().and_then(unhex), x["from"].as_str().and_then(fmts::parse_from), x["mode"].as_str().and_then(Mode::parse)) else {
            println!("bad replay case");
            return 2;
        };
        let src = from.or_else(|| xt::verif::detect_slice(&input).ok().flatten().map(Fmt::from_xt)).unwrap_or(Fmt::Json);
        let ds = match src {
            Fmt::Json => crate::read::json::read_many(&input).map(|v| v.into_iter().map(|x| x.0).collect::<Vec<_>>()),
            Fmt::Msgpack => crate::read::msgpack::read_all(&input),
            Fmt::Yaml => crate::read::yaml::read_docs(&input).map(|v| v.into_iter().map(|d| d.val).collect()),
            Fmt::Toml => crate::read::toml::read(&input).map(|v| vec![v]),
        };
        let Ok(ds) = ds else {
            println!("cannot re-read an input");
            return 2;
        };
        docs.push(ds.into_iter().map(|val| DocSpec { val, kind: "replayed" }).collect());
        calls.push(Call { input, from, mode });
    }
    let mut acc = Acc::default();
    judge(&calls, &docs, c["short_write_seed"].as_u64(), &mut acc);
    if acc.vio_count > 0 {
        println!("VIOLATION property=C08 replay=<this file> (reproduced): {} / {}", acc.violations[0].sig, acc.violations[0].observed);
        1
    } else {
        println!("not reproduced");
        0
    }
}

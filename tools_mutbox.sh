#!/bin/bash
# usage: tools_mutbox.sh setup | run <seed-dir>... | all | patch <file.diff> [<ID>...] | teardown
# Development aid: a private copy of the machinery (/tmp/mutbox/verif, snapshot of the
# committed-or-not working tree of /verif) wired to a private scratch worktree of /repo
# (/tmp/mutbox/repo), so that seeded changes can be run against the checks without ever
# patching /repo itself. Nothing registered in MANIFEST.json depends on it.
set -u
BOX=${MUTBOX:-/tmp/mutbox}
case "${1:-}" in
  setup)
    rm -rf "$BOX/verif"; mkdir -p "$BOX"
    [ -d "$BOX/repo" ] || git -C /repo worktree add --detach "$BOX/repo" HEAD >/dev/null 2>&1
    git -C "$BOX/repo" checkout -q --detach "$(git -C /repo rev-parse HEAD)"; git -C "$BOX/repo" checkout -q -- .
    rsync -a --exclude out --exclude .git --exclude 'harness/Cargo.lock' /verif/ "$BOX/verif/"
    sed -i "s#/repo#$BOX/repo#g" "$BOX/verif/check" "$BOX/verif/setup.sh" "$BOX/verif/harness/Cargo.toml" "$BOX/verif/fuzzproj/fuzz/Cargo.toml" "$BOX/verif/harness/src/c04.rs"
    echo "mutbox ready at $BOX (repo $(git -C $BOX/repo rev-parse --short HEAD))"
    ;;
  run|all)
    shift || true
    if [ "${1:-}" = "" ]; then set -- /verif/seeded/S*-C* ; fi
    cd "$BOX/verif" || exit 2
    for d in "$@"; do
      id=$(basename "$d"); prop=${id##*-}
      git -C "$BOX/repo" checkout -q -- . ; git -C "$BOX/repo" clean -fdq -- src tests
      if ! git -C "$BOX/repo" apply "$d/patch.diff"; then echo "[$id] patch does not apply"; continue; fi
      OUT=$(VERIF_SEED="${VERIF_SEED:-0}" timeout ${MUT_TIMEOUT:-1500} ./check "$prop" "${TIER:-quick}" 2>&1); RC=$?
      SUMMARY=$(echo "$OUT" | grep -E "^$prop (quick|thorough)" | tail -1)
      FIRST=$(echo "$OUT" | grep -m1 -A1 "^VIOLATION" | tr '\n' ' ' | cut -c1-260)
      echo "[$id] $prop exit=$RC :: $SUMMARY :: $FIRST"
      git -C "$BOX/repo" checkout -q -- . ; git -C "$BOX/repo" clean -fdq -- src tests
    done
    echo MUTBOX-DONE
    ;;
  patch)
    # patch <file.diff> <ID>... : one arbitrary patch against the given checks (all 18 if none named)
    PATCH="$2"; shift 2
    if [ "${1:-}" = "" ]; then set -- C01 C02 C03 C04 C05 C06 C07 C08 C09 C10 C11 C12 C13 C14 C15 C16 C17 C18; fi
    cd "$BOX/verif" || exit 2
    git -C "$BOX/repo" checkout -q -- . ; git -C "$BOX/repo" clean -fdq -- src tests
    if ! git -C "$BOX/repo" apply "$PATCH"; then echo "[$(basename $PATCH)] patch does not apply"; exit 1; fi
    for prop in "$@"; do
      OUT=$(VERIF_SEED="${VERIF_SEED:-0}" timeout ${MUT_TIMEOUT:-1500} ./check "$prop" "${TIER:-quick}" 2>&1); RC=$?
      SUMMARY=$(echo "$OUT" | grep -E "^$prop (quick|thorough)" | tail -1)
      FIRST=$(echo "$OUT" | grep -m1 -A2 "^VIOLATION\|^INCONCLUSIVE" | tr '\n' ' ' | cut -c1-420)
      echo "[$(basename $PATCH)] $prop exit=$RC :: $SUMMARY :: $FIRST"
    done
    git -C "$BOX/repo" checkout -q -- . ; git -C "$BOX/repo" clean -fdq -- src tests
    ;;
  teardown)
    git -C /repo worktree remove --force "$BOX/repo" 2>/dev/null; git -C /repo worktree prune; rm -rf "$BOX"
    ;;
  *) echo "usage: $0 setup | run <seed-dir>... | all | teardown"; exit 2;;
esac
